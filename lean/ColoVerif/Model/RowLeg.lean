/-
Model of `coloquinte::RowLegalizer` (src/place_detailed/row_legalizer.{hpp,cpp}).

C++ `int`/`long long` are unbounded `Int` here (overflow is C07's obligation).
`std::priority_queue<Bound>` (a max-heap on `(absolutePos, weight)`) is a list
kept sorted in descending order; `top` is the head.  Two bounds that compare
equal are identical, so the order among them is unobservable.

Vectors that only grow by `push_back` are stored most-recent-first
(`cposRev`, `widthsRev`), which turns the right-to-left running minimum of
`getPlacement` into a left-to-right scan.
-/
namespace ColoVerif.RowLeg

structure Bound where
  absPos : Int
  weight : Int
deriving Repr, DecidableEq, Inhabited

/-- `Bound::operator<` -/
def Bound.lt (a b : Bound) : Bool :=
  a.absPos < b.absPos || (a.absPos == b.absPos && a.weight < b.weight)

/-- `a` may stand before `b` in the descending list (i.e. not `a < b`). -/
def Bound.ge (a b : Bound) : Bool := !(Bound.lt a b)

/-- `priority_queue::push` on the sorted-descending representation. -/
def pqInsert (x : Bound) : List Bound → List Bound
  | [] => [x]
  | y :: ys => if Bound.lt y x then x :: y :: ys else y :: pqInsert x ys

structure State where
  b : Int
  e : Int
  /-- `constrainingPos_`, most recent first -/
  cposRev : List Int
  /-- widths of the pushed cells, most recent first (`cumWidth_` is their prefix sums) -/
  widthsRev : List Int
  /-- `bounds`, top first -/
  bounds : List Bound
deriving Repr, DecidableEq, Inhabited

def State.new (b e : Int) : State := ⟨b, e, [], [], []⟩

def State.used (s : State) : Int := s.widthsRev.sum

def State.remaining (s : State) : Int := s.e - s.b - s.used

def State.clear (s : State) : State := { s with cposRev := [], widthsRev := [], bounds := [] }

/-- Result of the `while` loop of `getDisplacement`. -/
structure Scan where
  rest : List Bound      -- bounds still in the queue
  passed : List Bound    -- popped bounds, first popped first
  slope : Int
  curPos : Int
  curCost : Int
deriving Repr, DecidableEq

/-- `lim = end_ - usedSpace() - width`, `tgt = targetPos - usedSpace()`,
`climit = end_ - usedSpace()` (`costLimit`: the cells already pushed have been
paid for down to this position).
The loop pops while the slope is negative and the top is right of the target,
or while the top is beyond the right limit. -/
def scan (width tgt lim climit : Int) : List Bound → Int → Int → Int → List Bound → Scan
  | [], slope, curPos, curCost, passed => ⟨[], passed.reverse, slope, curPos, curCost⟩
  | t :: rest, slope, curPos, curCost, passed =>
    if (slope < 0 && t.absPos > tgt) || t.absPos > lim then
      scan width tgt lim climit rest (slope + t.weight) t.absPos
        (curCost + (min curPos climit - min t.absPos climit) * (slope + width)) (t :: passed)
    else ⟨t :: rest, passed.reverse, slope, curPos, curCost⟩

structure Disp where
  cost : Int
  finalAbsPos : Int
  scan : Scan
deriving Repr, DecidableEq

/-- The body of `getDisplacement` up to the state update. -/
def displacement (s : State) (width target : Int) : Disp :=
  let tgt := target - s.used
  let lim := s.e - s.used - width
  let climit := s.e - s.used
  let sc := scan width tgt lim climit s.bounds (-width) s.e 0 []
  let fin := min lim (max s.b (if sc.slope ≥ 0 then sc.curPos else tgt))
  let cost := sc.curCost + (min sc.curPos climit - fin) * (sc.slope + width) + width * (fin - tgt).natAbs
  ⟨cost, fin, sc⟩

/-- `RowLegalizer::getCost` as executed by the C++: pops, then pushes the passed
bounds back.  Returns the cost and the resulting state. -/
def getCost (s : State) (width target : Int) : Int × State :=
  let d := displacement s width target
  (d.cost, { s with bounds := d.scan.passed.foldl (fun q x => pqInsert x q) d.scan.rest })

/-- `RowLegalizer::push` -/
def push (s : State) (width target : Int) : Int × State :=
  let d := displacement s width target
  let tgt := target - s.used
  let q1 := if d.scan.slope > 0 then pqInsert ⟨d.scan.curPos, d.scan.slope⟩ d.scan.rest else d.scan.rest
  let q2 := if tgt > s.b then pqInsert ⟨min tgt d.finalAbsPos, 2 * width + min d.scan.slope 0⟩ q1 else q1
  (d.cost, { s with cposRev := d.finalAbsPos :: s.cposRev, widthsRev := width :: s.widthsRev, bounds := q2 })

/-- Running minimum from the most recent element: for `cposRev = [c_{n-1}, …, c_0]`
returns `[m_{n-1}, …, m_0]` with `m_i = min_{j ≥ i} c_j`. -/
def runMin : Option Int → List Int → List Int
  | _, [] => []
  | none, c :: cs => c :: runMin (some c) cs
  | some m, c :: cs => min m c :: runMin (some (min m c)) cs

/-- `cumWidth_[i]` for the reversed width list: for `[w_{n-1}, …, w_0]` returns
`[w_0+…+w_{n-2}, …, w_0, 0]`. -/
def cumRev : List Int → List Int
  | [] => []
  | _ :: ws => ws.sum :: cumRev ws

/-- `RowLegalizer::getPlacement`, most recent cell first. -/
def placementRev (s : State) : List Int :=
  List.zipWith (· + ·) (runMin none s.cposRev) (cumRev s.widthsRev)

/-- `RowLegalizer::getPlacement` in push order. -/
def placement (s : State) : List Int := (placementRev s).reverse

/-- widths in push order -/
def widths (s : State) : List Int := s.widthsRev.reverse

end ColoVerif.RowLeg
