/-
Control logic of `GlobalPlacer::run` (/repo/src/place_global/place_global.cpp), core Lean only.

The float solves and values are *not* modelled: they enter as an oracle trace (`Oracle`): per loop
iteration the observed `ub = valueUB()`, `dist = leg_.meanDistance()`, the `lb = valueLB()` after
the inner lower-bound solves, and for every lower-bound solve whether `checkFinitePlacement`
accepted its result.  Everything else is the code, branch for branch:

  runInitialLB();                                   -- 1 + nbInitialSteps solves, LB callback after each
  penalty_ = initialValue; approximationDistance_ = approximationDistance * averageCellLength_; …
  double nextPenaltyUpdateDistance = penaltyUpdateDistance();
  float lb = valueLB();
  for (step_ = nbInitialSteps + 1; step_ <= maxNbSteps; ++step_) {
    runUB(); ub = valueUB(); dist = leg_.meanDistance();      -- UB callback
    bool noWirelength = ub <= 0.0f;  float gap = (ub - lb) / ub;
    if (noWirelength || gap < gapTolerance || dist < distanceTolerance()) break;
    if (dist < nextPenaltyUpdateDistance) { callback(PenaltyUpdate); nextPenaltyUpdateDistance /= penaltyUpdateBackoff; }
    for (i < nbStepsBeforeRoughLegalization) { runLB(); lb = valueLB(); }   -- LB callback, may throw
    penalty_ *= updateFactor; penaltyCutoffDistance_ *= cutoffDistanceUpdateFactor;
    approximationDistance_ *= approximationDistanceUpdateFactor;
  }
  runUB();                                                                  -- UB callback

Numbers are `Rat`.  The roundings of the C++ arithmetic (`float` results, `double` intermediate
results of `float * double`) are a parameter `Rounding`: `Rounding.exact` is the idealised loop
(the recurrences are then the closed forms `penaltyAfter`, `cutoffAfter`, `approxAfter`);
`Rounding.ieee` rounds to nearest-even with 24 / 53 significant bits (subnormals included), which
is what `drv_C06` replays against the values logged by hook H5.  A float overflow is represented
by a value `≥ 2^128` (IEEE `inf`; it stays `≥ 2^128` under the recurrences since the factors
exceed 1 where this can happen).
-/
namespace ColoVerif.GlobalLoop

/-! ### rounding -/

def pow2 (e : Int) : Rat :=
  if e ≥ 0 then ((2 ^ e.toNat : Nat) : Rat) else 1 / ((2 ^ (-e).toNat : Nat) : Rat)

/-- `⌊log₂ a⌋` for `a > 0` -/
def floorLog2 (a : Rat) : Int :=
  let k : Int := (a.num.natAbs.log2 : Int) - (a.den.log2 : Int)
  if pow2 k ≤ a then k else k - 1

/-- nearest integer, ties to even -/
def roundHalfEven (m : Rat) : Int :=
  let fl := m.floor
  let fr := m - (fl : Rat)
  if fr < 1 / 2 then fl
  else if 1 / 2 < fr then fl + 1
  else if fl % 2 = 0 then fl else fl + 1

/-- IEEE-754 round-to-nearest-even to `prec` significant bits, least quantum `2^emin`
(binary32: 24, -149; binary64: 53, -1074).  No overflow: the result may be `2^128` (resp. `2^1024`),
which stands for `inf`. -/
def roundBin (prec : Nat) (emin : Int) (q : Rat) : Rat :=
  if q = 0 then 0 else
  let a := if q < 0 then -q else q
  let e := floorLog2 a - ((prec : Int) - 1)
  let qe := if e < emin then emin else e
  let r : Rat := (roundHalfEven (a / pow2 qe) : Rat) * pow2 qe
  if q < 0 then -r else r

structure Rounding where
  /-- conversion of an exact result to `float` -/
  f : Rat → Rat
  /-- conversion of an exact result to `double` -/
  d : Rat → Rat

def Rounding.exact : Rounding := ⟨fun x => x, fun x => x⟩
def Rounding.ieee : Rounding := ⟨roundBin 24 (-149), roundBin 53 (-1074)⟩

/-! ### parameters, oracle, events -/

/-- the fields of `GlobalPlacerParameters` the loop reads (doubles and ints, as exact numbers) -/
structure Params where
  nbInitialSteps : Nat
  maxNbSteps : Nat
  nbInner : Nat                 -- nbStepsBeforeRoughLegalization
  gapTolerance : Rat
  distanceTolerance : Rat
  penaltyUpdateDistance : Rat
  penaltyUpdateBackoff : Rat
  penaltyInitial : Rat          -- penalty.initialValue
  penaltyFactor : Rat           -- penalty.updateFactor
  cutoff : Rat                  -- penalty.cutoffDistance
  cutoffFactor : Rat            -- penalty.cutoffDistanceUpdateFactor
  approx : Rat                  -- continuousModel.approximationDistance
  approxFactor : Rat            -- continuousModel.approximationDistanceUpdateFactor

/-- what the float code contributes (iterations are numbered from 0: iteration `j` is
`step_ = nbInitialSteps + 1 + j`) -/
structure Oracle where
  avgLen : Rat                  -- averageCellLength_
  initOk : Nat → Bool           -- i-th solve of runInitialLB passed checkFinitePlacement
  lb0 : Rat                     -- valueLB() after runInitialLB
  ub : Nat → Rat                -- valueUB() of iteration j
  dist : Nat → Rat              -- leg_.meanDistance() of iteration j
  lbOk : Nat → Nat → Bool       -- inner solve i of iteration j passed checkFinitePlacement
  lb : Nat → Rat                -- valueLB() after the inner solves of iteration j

inductive Ev | lb | ub | pu
  deriving DecidableEq, Repr

inductive StopReason | noWirelength | gap | distance
  deriving DecidableEq, Repr

inductive Exit
  | stop (r : StopReason)       -- the stop test fired (first true disjunct, in the order of the `||`)
  | stepLimit                   -- `step_ > maxNbSteps`
  | exception                   -- checkFinitePlacement threw
  deriving DecidableEq, Repr

/-- the loop variables -/
structure Vars where
  penalty : Rat
  cutoff : Rat
  approx : Rat
  deriving DecidableEq, Repr

structure Result where
  events : List Ev              -- callbacks, in order
  exit : Exit
  iterations : Nat              -- loop iterations entered (= UpperBound callbacks inside the loop)
  updates : Nat                 -- completed executions of the update block
  trail : List Vars             -- the loop variables after 0, 1, …, `updates` executions of the update block
  puds : List Rat               -- nextPenaltyUpdateDistance at the same points
  lb : Rat                      -- lb at exit
  deriving Repr

/-! ### pieces -/

/-- `float * double` stored to a `float` -/
def mulFD (R : Rounding) (x y : Rat) : Rat := R.f (R.d (x * y))

def initVars (R : Rounding) (p : Params) (o : Oracle) : Vars :=
  ⟨R.f p.penaltyInitial, mulFD R o.avgLen p.cutoff, mulFD R o.avgLen p.approx⟩

def updateVars (R : Rounding) (p : Params) (v : Vars) : Vars :=
  ⟨mulFD R v.penalty p.penaltyFactor, mulFD R v.cutoff p.cutoffFactor, mulFD R v.approx p.approxFactor⟩

/-- the loop variables after `k` executions of the update block -/
def varsAfter (R : Rounding) (p : Params) (o : Oracle) : Nat → Vars
  | 0 => initVars R p o
  | k + 1 => updateVars R p (varsAfter R p o k)

def distTol (R : Rounding) (p : Params) (o : Oracle) : Rat := mulFD R o.avgLen p.distanceTolerance
def initPUD (R : Rounding) (p : Params) (o : Oracle) : Rat := mulFD R o.avgLen p.penaltyUpdateDistance

/-- `(ub - lb) / ub < tol` in single precision (`tol` is a double; the comparison is exact).
`ub = 0`: the quotient is `-inf` (negative numerator: true), `nan` or `+inf` (false). -/
def gapLt (R : Rounding) (lb ub tol : Rat) : Bool :=
  if ub = 0 then decide (R.f (ub - lb) < 0) else decide (R.f (R.f (ub - lb) / ub) < tol)

/-- the stop test of the current tree: the first true disjunct -/
def stopTest (R : Rounding) (p : Params) (o : Oracle) (lb ub dist : Rat) : Option StopReason :=
  if ub ≤ 0 then some .noWirelength
  else if gapLt R lb ub p.gapTolerance then some .gap
  else if dist < distTol R p o then some .distance
  else none

/-- number of solves that succeed before the first failing one among `0 … n-1` (`n` if none fails) -/
def okPrefix (ok : Nat → Bool) : Nat → Nat
  | 0 => 0
  | n + 1 => if okPrefix ok n < n then okPrefix ok n else if ok n then n + 1 else n

/-- loop state carried from one iteration to the next -/
structure St where
  lb : Rat
  vars : Vars
  pud : Rat
  events : List Ev
  trail : List Vars
  puds : List Rat

/-- leaving the loop normally: `evs` are the callbacks of the last iteration (its UpperBound when the stop
test fired there), then the final `runUB()` -/
def finish (s : St) (evs : List Ev) (e : Exit) (j upd : Nat) : Result :=
  ⟨s.events ++ evs ++ [.ub], e, j, upd, s.trail ++ [s.vars], s.puds ++ [s.pud], s.lb⟩

def throwAt (s : St) (evs : List Ev) (j upd : Nat) : Result :=
  ⟨evs, .exception, j, upd, s.trail ++ [s.vars], s.puds ++ [s.pud], s.lb⟩

/-- the PenaltyUpdate callback, when `dist < nextPenaltyUpdateDistance` -/
def puEvs (b : Bool) : List Ev := if b then [.pu] else []

/-- `nextPenaltyUpdateDistance /= penaltyUpdateBackoff` (doubles), when the callback was made -/
def nextPud (R : Rounding) (p : Params) (b : Bool) (pud : Rat) : Rat :=
  if b then R.d (pud / p.penaltyUpdateBackoff) else pud

/-- the state after a complete iteration `j` (every inner solve succeeded) -/
def nextSt (R : Rounding) (p : Params) (o : Oracle) (j : Nat) (s : St) : St :=
  ⟨if p.nbInner = 0 then s.lb else o.lb j, updateVars R p s.vars,
   nextPud R p (decide (o.dist j < s.pud)) s.pud,
   s.events ++ [.ub] ++ puEvs (decide (o.dist j < s.pud)) ++ List.replicate p.nbInner .lb,
   s.trail ++ [s.vars], s.puds ++ [s.pud]⟩

/-- the part of an iteration after a negative stop test: the back-off, the inner solves, the update -/
def advance (R : Rounding) (p : Params) (o : Oracle) (j : Nat) (s : St) : St ⊕ Result :=
  if okPrefix (o.lbOk j) p.nbInner < p.nbInner then
    .inr (throwAt s (s.events ++ [.ub] ++ puEvs (decide (o.dist j < s.pud)) ++
      List.replicate (okPrefix (o.lbOk j) p.nbInner) .lb) (j + 1) j)
  else
    .inl (nextSt R p o j s)

/-- `stop` is the stop test (the current one, or the legacy one) -/
def loopWith (stop : Rat → Rat → Rat → Option StopReason) (R : Rounding) (p : Params) (o : Oracle) :
    Nat → Nat → St → Result
  | 0, j, s => finish s [] .stepLimit j j
  | fuel + 1, j, s =>
    match stop s.lb (o.ub j) (o.dist j) with
    | some r => finish s [.ub] (.stop r) (j + 1) j
    | none =>
      match advance R p o j s with
      | .inr res => res
      | .inl s' => loopWith stop R p o fuel (j + 1) s'

/-- the state after a successful `runInitialLB` -/
def initSt (R : Rounding) (p : Params) (o : Oracle) : St :=
  ⟨o.lb0, initVars R p o, initPUD R p o, List.replicate (p.nbInitialSteps + 1) .lb, [], []⟩

def runWith (stop : Rat → Rat → Rat → Option StopReason) (R : Rounding) (p : Params) (o : Oracle) : Result :=
  if okPrefix o.initOk (p.nbInitialSteps + 1) < p.nbInitialSteps + 1 then
    ⟨List.replicate (okPrefix o.initOk (p.nbInitialSteps + 1)) .lb, .exception, 0, 0, [], [], 0⟩
  else
    loopWith stop R p o (p.maxNbSteps - p.nbInitialSteps) 0 (initSt R p o)

/-- `GlobalPlacer::run` -/
def run (R : Rounding) (p : Params) (o : Oracle) : Result := runWith (stopTest R p o) R p o

/-! ### closed forms (exact arithmetic) -/

def penaltyAfter (p : Params) (k : Nat) : Rat := p.penaltyInitial * p.penaltyFactor ^ k
def cutoffAfter (p : Params) (avgLen : Rat) (k : Nat) : Rat := avgLen * p.cutoff * p.cutoffFactor ^ k
def approxAfter (p : Params) (avgLen : Rat) (k : Nat) : Rat := avgLen * p.approx * p.approxFactor ^ k

/-! ### KF-C06-1 classifier

`drift_out_of_numeric_box`, on the parameters and the number `k` of completed updates alone, in
units of the average cell length (as the parameters are): after `k` updates the approximation
distance has left `[0.1, 1e3]`, or the cutoff distance is below `0.1`, or the penalty is not a
single-precision number any more (`≥ 2^128`), or the penalty-to-cutoff ratio is `≥ 2^64` or
`≤ 2^-24`.  Exact rational arithmetic; no division. -/
def driftOutOfBox (p : Params) (k : Nat) : Bool :=
  let pen := penaltyAfter p k
  let cut := cutoffAfter p 1 k
  let apx := approxAfter p 1 k
  decide (apx < 1 / 10) || decide (1000 < apx) || decide (cut < 1 / 10) ||
  decide (340282366920938463463374607431768211456 ≤ pen) ||
  decide (18446744073709551616 * cut ≤ pen) || decide (16777216 * pen ≤ cut)

/-- the numeric box for the loop variables themselves (lengths carry the average cell length) -/
def InBox (avgLen : Rat) (v : Vars) : Prop :=
  avgLen * (1 / 10) ≤ v.approx ∧ v.approx ≤ avgLen * 1000 ∧ avgLen * (1 / 10) ≤ v.cutoff ∧
  v.penalty < 340282366920938463463374607431768211456 ∧
  avgLen * v.penalty < 18446744073709551616 * v.cutoff ∧ v.cutoff < 16777216 * (avgLen * v.penalty)

end ColoVerif.GlobalLoop
