import ColoVerif.Gen.NetWeightType
/-
C17 — model of the linear-system assembly of the continuous solver
(/repo/src/place_global/net_model.cpp: `NetModel::addNet`, file-local `MatrixCreator`).

Floats are modelled over `Rat` (exact), C++ `int` cell indices over `Int` (`-1` = fixed pin).
Every function follows the C++ statement for statement: `std::max(a,b)` is `(a<b)?b:a`,
`std::min(a,b)` is `(b<a)?b:a`, weights are *divided* by `max ε distance` exactly where the
code divides.  `mat_` is kept newest-first (`emplace_back` = cons); `Sys.triplets` gives the
assembly order.  Core Lean only.

What a net weight becomes when it is stored in `NetModel::netWeight_` is not modelled by hand:
it is `ColoVerif.Gen.NetWeightType.store`, regenerated from the declared element type of the
container on every run (`int` ⇒ truncation toward zero, `float` ⇒ unchanged).
-/
namespace ColoVerif.NetAsm

/-- `std::max(a, b)` = `(a < b) ? b : a`. -/
def rmax (a b : Rat) : Rat := if a < b then b else a
/-- `std::min(a, b)` = `(b < a) ? b : a`. -/
def rmin (a b : Rat) : Rat := if b < a then b else a
/-- `std::abs`. -/
def rabs (a : Rat) : Rat := if a < 0 then -a else a

/-- A pin as stored by `NetModel` (`netCells_`, `netPinOffsets_`): cell (or `-1`) and offset
(for a fixed pin: its position). -/
abbrev Pin := Int × Rat

/-- A net as stored by `NetModel`: `netWeight_[net]` and its pins. -/
structure Net where
  weight : Rat
  pins : List Pin
  deriving Repr, DecidableEq

/-- What the caller passes to `NetModel::addNet`: weight, pins and (5-argument overload) the
optional finite `(minPin, maxPin)` of the fixed pins (`none` = not finite, or 3-argument overload). -/
structure RawNet where
  weight : Rat
  pins : List Pin
  fixedMinMax : Option (Rat × Rat)
  deriving Repr, DecidableEq

/-- `NetModel::addNet(cells, pinOffsets, weight)` with the storage conversion as a parameter. -/
def addNet3With (store : Rat → Rat) (nm : List Net) (pins : List Pin) (w : Rat) : List Net :=
  if pins.length ≤ 1 then nm else nm ++ [⟨store w, pins⟩]

/-- The pins after `addNet(cells, pinOffsets, minPin, maxPin, weight)` appended the fixed pins. -/
def withFixed (pins : List Pin) : Option (Rat × Rat) → List Pin
  | none => pins
  | some (mn, mx) => if mx = mn then pins ++ [((-1 : Int), mn)] else pins ++ [((-1 : Int), mn), ((-1 : Int), mx)]

/-- `NetModel::addNet(cells, pinOffsets, minPin, maxPin, weight)`; `addNet(cells, offsets, weight)`
is the case `fixedMinMax = none` (an empty pin list is dropped by either). -/
def addNetWith (store : Rat → Rat) (nm : List Net) (r : RawNet) : List Net :=
  if r.pins.isEmpty then nm else addNet3With store nm (withFixed r.pins r.fixedMinMax) r.weight

/-- The `NetModel` after a sequence of `addNet` calls. -/
def buildWith (store : Rat → Rat) (raws : List RawNet) : List Net :=
  raws.foldl (addNetWith store) []

/-- The working tree's `NetModel`: storage conversion from the translated declaration. -/
def build (raws : List RawNet) : List Net := buildWith Gen.NetWeightType.store raws

/-- `NetModel::pinPosition`. -/
def pinPos (pl : List Rat) (p : Pin) : Rat :=
  (if p.1 = -1 then 0 else pl.getD p.1.toNat 0) + p.2

/-- `MatrixCreator`.  `mat` is newest-first. -/
structure Sys where
  nbCells : Nat
  nbSupps : Nat
  mat : List (Nat × Nat × Rat)
  rhs : List Rat
  initial : List Rat
  nz : List Bool
  deriving Repr, DecidableEq

/-- `MatrixCreator(topo)`. -/
def Sys.init (n : Nat) : Sys :=
  ⟨n, 0, [], List.replicate n 0, List.replicate n 0, List.replicate n false⟩

/-- The triplets in assembly order. -/
def Sys.triplets (s : Sys) : List (Nat × Nat × Rat) := s.mat.reverse

def Sys.matSize (s : Sys) : Nat := s.nbCells + s.nbSupps

/-- `v[i] += x`. -/
def addAt : List Rat → Nat → Rat → List Rat
  | [], _, _ => []
  | x :: xs, 0, v => (x + v) :: xs
  | x :: xs, i + 1, v => x :: addAt xs i v

/-- `MatrixCreator::addMovingPin`. -/
def addMovingPin (s : Sys) (c1 c2 : Nat) (o1 o2 w : Rat) : Sys :=
  if c1 = c2 then s else
  { s with
    mat := (c2, c2, w) :: (c1, c1, w) :: (c2, c1, -w) :: (c1, c2, -w) :: s.mat
    rhs := addAt (addAt s.rhs c1 (w * (o2 - o1))) c2 (w * (o1 - o2))
    nz := (s.nz.set c1 true).set c2 true }

/-- `MatrixCreator::addFixedPin`. -/
def addFixedPin (s : Sys) (c1 : Nat) (o1 pos w : Rat) : Sys :=
  { s with
    mat := (c1, c1, w) :: s.mat
    rhs := addAt s.rhs c1 (w * (pos - o1))
    nz := s.nz.set c1 true }

/-- `MatrixCreator::addPin`. -/
def addPin (s : Sys) (c1 c2 : Int) (o1 o2 w : Rat) : Sys :=
  if c1 = c2 then s
  else if c1 = -1 then addFixedPin s c2.toNat o2 o1 w
  else if c2 = -1 then addFixedPin s c1.toNat o1 o2 w
  else addMovingPin s c1.toNat c2.toNat o1 o2 w

/-- `MatrixCreator::addCell`: the new state; the index of the new variable is `s.matSize`. -/
def addCell (s : Sys) (init : Rat) : Sys :=
  { s with
    nbSupps := s.nbSupps + 1
    rhs := s.rhs ++ [0]
    initial := s.initial ++ [init]
    nz := s.nz ++ [false] }

/-- `for (int i = 0; i < nb; ++i) body(i, pin i)`. -/
def loopIdx (f : Sys → Nat → Pin → Sys) : Sys → Nat → List Pin → Sys
  | s, _, [] => s
  | s, i, p :: ps => loopIdx f (f s i p) (i + 1) ps

/-- Result of `NetModel::minPin/maxPin`: pin index, cell, offset, position. -/
structure Ext where
  i : Nat
  c : Int
  o : Rat
  pos : Rat
  deriving Repr

def minStep (pl : List Rat) (b : Ext) (i : Nat) (p : Pin) : Ext :=
  if pinPos pl p < b.pos then ⟨i, p.1, p.2, pinPos pl p⟩ else b

def maxStep (pl : List Rat) (b : Ext) (i : Nat) (p : Pin) : Ext :=
  if b.pos < pinPos pl p then ⟨i, p.1, p.2, pinPos pl p⟩ else b

def extGo (step : Ext → Nat → Pin → Ext) : Ext → Nat → List Pin → Ext
  | b, _, [] => b
  | b, i, p :: ps => extGo step (step b i p) (i + 1) ps

/-- `NetModel::minPin` (the `+inf` start is replaced by the first pin, which always wins against
`+inf`; the pin list of a stored net is never empty). -/
def minPin (pl : List Rat) : List Pin → Ext
  | [] => ⟨0, -1, 0, 0⟩
  | p :: ps => extGo (minStep pl) ⟨0, p.1, p.2, pinPos pl p⟩ 1 ps

/-- `NetModel::maxPin`. -/
def maxPin (pl : List Rat) : List Pin → Ext
  | [] => ⟨0, -1, 0, 0⟩
  | p :: ps => extGo (maxStep pl) ⟨0, p.1, p.2, pinPos pl p⟩ 1 ps

/-! ### Net models without a placement (initial solve) -/

/-- `MatrixCreator::addBipoint(net)`. -/
def addBipoint0 (s : Sys) (net : Net) : Sys :=
  match net.pins with
  | p0 :: p1 :: _ => addPin s p0.1 p1.1 p0.2 p1.2 net.weight
  | _ => s

def star0Body (c : Nat) (w : Rat) (s : Sys) (_ : Nat) (p : Pin) : Sys :=
  addPin s p.1 c p.2 0 w

/-- `MatrixCreator::addStar(net)`. -/
def addStar0 (s : Sys) (net : Net) : Sys :=
  if net.pins.length ≤ 2 then addBipoint0 s net
  else loopIdx (star0Body s.matSize (net.weight / (net.pins.length : Rat))) (addCell s 0) 0 net.pins

/-- `w = 2.0f * netWeight / (nb * (nb - 1))`. -/
def cliqueW (net : Net) : Rat :=
  2 * net.weight / (((net.pins.length * (net.pins.length - 1) : Nat) : Int) : Rat)

def clique0Inner (w : Rat) (pi : Pin) (s : Sys) (_ : Nat) (pj : Pin) : Sys :=
  addPin s pi.1 pj.1 pi.2 pj.2 w

def clique0Go (w : Rat) : Sys → List Pin → Sys
  | s, [] => s
  | s, p :: ps => clique0Go w (loopIdx (clique0Inner w p) s 0 ps) ps

/-- `MatrixCreator::addClique(net)` (not reachable through `NetModel`'s interface). -/
def addClique0 (s : Sys) (net : Net) : Sys := clique0Go (cliqueW net) s net.pins

/-! ### Net models built around a placement `pl` with approximation distance `ε` -/

/-- `MatrixCreator::addBipoint(net, pl, epsilon)`. -/
def addBipoint (pl : List Rat) (ε : Rat) (s : Sys) (net : Net) : Sys :=
  match net.pins with
  | p0 :: p1 :: _ =>
    addPin s p0.1 p1.1 p0.2 p1.2 (net.weight / rmax ε (rabs (pinPos pl p0 - pinPos pl p1)))
  | _ => s

def cliqueInner (pl : List Rat) (ε w : Rat) (pi : Pin) (s : Sys) (_ : Nat) (pj : Pin) : Sys :=
  addPin s pi.1 pj.1 pi.2 pj.2 (w / rmax ε (rabs (pinPos pl pi - pinPos pl pj)))

def cliqueGo (pl : List Rat) (ε w : Rat) : Sys → List Pin → Sys
  | s, [] => s
  | s, p :: ps => cliqueGo pl ε w (loopIdx (cliqueInner pl ε w p) s 0 ps) ps

/-- `MatrixCreator::addClique(net, pl, epsilon)`. -/
def addClique (pl : List Rat) (ε : Rat) (s : Sys) (net : Net) : Sys :=
  cliqueGo pl ε (cliqueW net) s net.pins

/-- `starPos = 0.5f * (minPos + maxPos)`. -/
def starPos (mn mx : Ext) : Rat := (1 / 2 : Rat) * (mn.pos + mx.pos)

def starBody (pl : List Rat) (ε wt : Rat) (mn mx : Ext) (sc : Nat) (s : Sys) (i : Nat) (p : Pin) : Sys :=
  if i = mn.i ∨ i = mx.i then
    addPin s p.1 sc p.2 0 (wt / rmax ε (rabs (pinPos pl p - starPos mn mx)))
  else
    addPin s p.1 sc p.2 (pinPos pl p - starPos mn mx)
      (wt / rmax ε (rmin (mx.pos - pinPos pl p) (pinPos pl p - mn.pos)))

/-- `MatrixCreator::addStar(net, pl, epsilon)`. -/
def addStar (pl : List Rat) (ε : Rat) (s : Sys) (net : Net) : Sys :=
  if net.pins.length ≤ 2 then addBipoint pl ε s net
  else loopIdx (starBody pl ε net.weight (minPin pl net.pins) (maxPin pl net.pins) s.matSize)
    (addCell s (starPos (minPin pl net.pins) (maxPin pl net.pins))) 0 net.pins

/-- `w = netWeight / (nbPins - 1)` (B2B and light star). -/
def b2bW (net : Net) : Rat := net.weight / (((net.pins.length : Int) - 1 : Int) : Rat)

def lightStarBody (pl : List Rat) (ε wt wb : Rat) (mn mx : Ext) (sc : Nat) (s : Sys) (i : Nat) (p : Pin) : Sys :=
  if i = mn.i ∨ i = mx.i then
    addPin s p.1 sc p.2 0 (wt / rmax ε (rabs (pinPos pl p - starPos mn mx)))
  else
    addPin s p.1 sc p.2 (pinPos pl p - starPos mn mx)
      (wb / rmax ε (mx.pos - pinPos pl p) + wb / rmax ε (pinPos pl p - mn.pos))

/-- `MatrixCreator::addLightStar(net, pl, epsilon)`. -/
def addLightStar (pl : List Rat) (ε : Rat) (s : Sys) (net : Net) : Sys :=
  if net.pins.length ≤ 2 then addBipoint pl ε s net
  else loopIdx (lightStarBody pl ε net.weight (b2bW net) (minPin pl net.pins) (maxPin pl net.pins) s.matSize)
    (addCell s (starPos (minPin pl net.pins) (maxPin pl net.pins))) 0 net.pins

/-- Second half of the B2B loop body (after the `i == minI` test). -/
def b2bMax (pl : List Rat) (ε w : Rat) (mx : Ext) (s : Sys) (i : Nat) (p : Pin) : Sys :=
  if i = mx.i then s
  else addPin s p.1 mx.c p.2 mx.o (w / rmax ε (rabs (pinPos pl p - mx.pos)))

def b2bBody (pl : List Rat) (ε w : Rat) (mn mx : Ext) (s : Sys) (i : Nat) (p : Pin) : Sys :=
  if i = mn.i then s
  else b2bMax pl ε w mx (addPin s p.1 mn.c p.2 mn.o (w / rmax ε (rabs (pinPos pl p - mn.pos)))) i p

/-- `MatrixCreator::addB2B(net, pl, epsilon)`. -/
def addB2B (pl : List Rat) (ε : Rat) (s : Sys) (net : Net) : Sys :=
  loopIdx (b2bBody pl ε (b2bW net) (minPin pl net.pins) (maxPin pl net.pins)) s 0 net.pins

/-- Which `MatrixCreator::create*` is used: `star0` = `createStar(topo)` (initial solve,
`NetModel::solveStar(params)`), the others = `MatrixCreator::create(topo, pl, ε, netModel)`. -/
inductive Mode where
  | star0 | b2b | star | clique | lightStar
  deriving Repr, DecidableEq

/-- One iteration of the `for (net …)` loop of the `create*` function selected by the mode. -/
def addNetModel (m : Mode) (pl : List Rat) (ε : Rat) (s : Sys) (net : Net) : Sys :=
  match m with
  | .star0 => addStar0 s net
  | .b2b => addB2B pl ε s net
  | .star => addStar pl ε s net
  | .clique => addClique pl ε s net
  | .lightStar => addLightStar pl ε s net

/-- `MatrixCreator::createStar(topo)` / `MatrixCreator::create(topo, pl, ε, netModel)`. -/
def create (m : Mode) (nbCells : Nat) (nets : List Net) (pl : List Rat) (ε : Rat) : Sys :=
  nets.foldl (addNetModel m pl ε) (Sys.init nbCells)

/-- Arguments of `MatrixCreator::addPenalty` (`netPlacement` is the `pl` of `create`). -/
structure Penalty where
  target : List Rat
  strength : List Rat
  cutoff : Rat
  deriving Repr

def penaltyBody (pl : List Rat) (pen : Penalty) (s : Sys) (i : Nat) : Sys :=
  addFixedPin s i 0 (pen.target.getD i 0)
    (pen.strength.getD i 0 / rmax (rabs (pl.getD i 0 - pen.target.getD i 0)) pen.cutoff)

/-- `MatrixCreator::addPenalty(netPlacement, placementTarget, penaltyStrength, cutoffDistance)`. -/
def addPenalty (pl : List Rat) (pen : Penalty) (s : Sys) : Sys :=
  (List.range s.nbCells).foldl (penaltyBody pl pen) s

def addPenaltyOpt (pl : List Rat) : Option Penalty → Sys → Sys
  | none, s => s
  | some pen, s => addPenalty pl pen s

/-- The system assembled from an already stored `NetModel` by `solveStar(params)` (`star0`),
`solve(pl, params)` (`pen = none`) or `solveWithPenalty(pl, target, strength, params)`,
up to (not including) `finalize`. -/
def assembleNets (m : Mode) (nbCells : Nat) (nets : List Net) (pl : List Rat) (ε : Rat)
    (pen : Option Penalty) : Sys :=
  addPenaltyOpt pl pen (create m nbCells nets pl ε)

/-- From the `addNet` calls to the assembled system, storage conversion as a parameter. -/
def assembleWith (store : Rat → Rat) (m : Mode) (nbCells : Nat) (raws : List RawNet) (pl : List Rat)
    (ε : Rat) (pen : Option Penalty) : Sys :=
  assembleNets m nbCells (buildWith store raws) pl ε pen

/-- The working tree's assembly (storage conversion from the translated declaration). -/
def assemble (m : Mode) (nbCells : Nat) (raws : List RawNet) (pl : List Rat) (ε : Rat)
    (pen : Option Penalty) : Sys :=
  assembleWith Gen.NetWeightType.store m nbCells raws pl ε pen

/-- The exact value of the binary32 literal `1.0e-8f` used by `finalize`. -/
def tiny : Rat := (11258999 : Rat) / (1125899906842624 : Rat)

def finalizeBody (s : Sys) (i : Nat) : Sys :=
  { s with
    mat := if s.nz.getD i true = false then (i, i, tiny) :: s.mat else s.mat
    nz := s.nz.set i true }

/-- `MatrixCreator::finalize`. -/
def finalize (s : Sys) : Sys := (List.range s.matSize).foldl finalizeBody s

/-! ### Reading a system: `A x`, `A x = b` -/

/-- `Σ v · x col` over the triplets of row `i` (duplicates add up, as in `setFromTriplets`). -/
def rowDot (mat : List (Nat × Nat × Rat)) (x : Nat → Rat) (i : Nat) : Rat :=
  match mat with
  | [] => 0
  | t :: ts => (if t.1 = i then t.2.2 * x t.2.1 else 0) + rowDot ts x i

/-- `x` solves `A x = b` (rows beyond the vectors are empty and read `0 = 0`). -/
def Solves (s : Sys) (x : Nat → Rat) : Prop := ∀ i, rowDot s.mat x i = s.rhs.getD i 0

/-- Multiply every matrix entry and every right-hand-side entry by `k`. -/
def Sys.scale (k : Rat) (s : Sys) : Sys :=
  { s with mat := s.mat.map (fun t => (t.1, t.2.1, k * t.2.2)), rhs := s.rhs.map (fun v => k * v) }

def RawNet.scale (k : Rat) (r : RawNet) : RawNet := { r with weight := k * r.weight }
def Net.scale (k : Rat) (n : Net) : Net := { n with weight := k * n.weight }
def Penalty.scale (k : Rat) (p : Penalty) : Penalty := { p with strength := p.strength.map (fun v => k * v) }

/-! ### The documented quadratic model (statement side of `bipoint_star_is_least_squares`) -/

/-- `⟨A x, t⟩ = Σ_{(r,c,v)} v · x c · t r`. -/
def bilin (mat : List (Nat × Nat × Rat)) (x t : Nat → Rat) : Rat :=
  match mat with
  | [] => 0
  | e :: es => e.2.2 * x e.2.1 * t e.1 + bilin es x t

/-- `Σ_i rhs_i · t (k + i)`. -/
def linFrom (k : Nat) (rhs : List Rat) (t : Nat → Rat) : Rat :=
  match rhs with
  | [] => 0
  | r :: rs => r * t k + linFrom (k + 1) rs t

/-- `⟨b, t⟩`. -/
def lin (rhs : List Rat) (t : Nat → Rat) : Rat := linFrom 0 rhs t

/-- Position of a pin when the unknowns take the values `x`. -/
def pinVal (x : Nat → Rat) (p : Pin) : Rat := (if p.1 = -1 then 0 else x p.1.toNat) + p.2

def sq (a : Rat) : Rat := a * a

/-- `Σ_i w (p_i - x_star)²`. -/
def starQ (x : Nat → Rat) (w : Rat) (sv : Nat) : List Pin → Rat
  | [] => 0
  | p :: ps => w * sq (pinVal x p - x sv) + starQ x w sv ps

/-- `W (p0 - p1)²` for the first two pins. -/
def bipointQ (x : Nat → Rat) (w : Rat) : List Pin → Rat
  | p0 :: p1 :: _ => w * sq (pinVal x p0 - pinVal x p1)
  | _ => 0

/-- Quadratic of one net in the initial star model: a two-pin net of weight `W` costs
`W (p0 - p1)²`; a net with `nb ≥ 3` pins gets its own unknown `x_sv` and costs `(W/nb) Σ (p_i - x_sv)²`. -/
def netQ0 (x : Nat → Rat) (sv : Nat) (n : Net) : Rat :=
  if n.pins.length ≤ 2 then bipointQ x n.weight n.pins
  else starQ x (n.weight / (n.pins.length : Rat)) sv n.pins

/-- Quadratic of the initial star model; `sv` = index of the next auxiliary unknown. -/
def Q0 (x : Nat → Rat) : Nat → List Net → Rat
  | _, [] => 0
  | sv, n :: ns => netQ0 x sv n + Q0 x (if n.pins.length ≤ 2 then sv else sv + 1) ns

/-- Quadratic of one two-pin net in the re-weighted models built around `pl`:
`(W / max ε |p0(pl) - p1(pl)|) (p0 - p1)²`. -/
def bipTerm (pl : List Rat) (ε : Rat) (x : Nat → Rat) (n : Net) : Rat :=
  match n.pins with
  | p0 :: p1 :: _ => bipointQ x (n.weight / rmax ε (rabs (pinPos pl p0 - pinPos pl p1))) n.pins
  | _ => 0

/-- Quadratic of two-pin nets in the re-weighted models. -/
def QBip (pl : List Rat) (ε : Rat) (x : Nat → Rat) : List Net → Rat
  | [] => 0
  | n :: ns => bipTerm pl ε x n + QBip pl ε x ns

/-- Cells of a stored net are `-1` or in `[0, nbCells)` (what `NetModel::check` enforces). -/
def NetOk (nbCells : Nat) (n : Net) : Prop :=
  ∀ p ∈ n.pins, p.1 = -1 ∨ (0 ≤ p.1 ∧ p.1 < (nbCells : Int))

/-- `Q(x + t) = Q(x) + 2⟨A x - b, t⟩ + ⟨A t, t⟩` for all `x, t`: the system `(A, b)` is the
normal-equation system of the quadratic `Q` (`A x - b = ½∇Q(x)`, `A = ½∇²Q`). -/
def IsHalfGradient (s : Sys) (Q : (Nat → Rat) → Rat) : Prop :=
  ∀ x t : Nat → Rat,
    Q (fun i => x i + t i) = Q x + 2 * (bilin s.mat x t - lin s.rhs t) + bilin s.mat t t

/-! ### The documented quadratics of the re-weighted net models (weights frozen at `pl`)

Every re-weighted model connects pins by springs `w · (a − b)²` whose stiffness is the net weight
divided by `max ε |distance in the current placement pl|` (the linearisation of the half-perimeter
wirelength around `pl`).  The quadratics below are stated with those stiffnesses *frozen*: `pl`
and `ε` are parameters, the unknowns `x` only enter through `pinVal x`. -/

/-- `Σ_k f (i + k) p_k` over a pin list (the statement-side twin of `loopIdx`). -/
def sumIdx (f : Nat → Pin → Rat) : Nat → List Pin → Rat
  | _, [] => 0
  | i, p :: ps => f i p + sumIdx f (i + 1) ps

/-- Clique, pin `pi` against the later pins: `Σ_j (w / max ε |pi(pl) − pj(pl)|) (pi − pj)²`. -/
def cliqueInnerQ (pl : List Rat) (ε w : Rat) (x : Nat → Rat) (pi : Pin) : List Pin → Rat
  | [] => 0
  | pj :: ps => (w / rmax ε (rabs (pinPos pl pi - pinPos pl pj))) * sq (pinVal x pi - pinVal x pj)
      + cliqueInnerQ pl ε w x pi ps

/-- Clique: all pairs `i < j`. -/
def cliqueGoQ (pl : List Rat) (ε w : Rat) (x : Nat → Rat) : List Pin → Rat
  | [] => 0
  | p :: ps => cliqueInnerQ pl ε w x p ps + cliqueGoQ pl ε w x ps

/-- **Clique model** of one net: `Σ_{i<j} (2W / (nb (nb−1)) / max ε |p_i(pl) − p_j(pl)|) (p_i − p_j)²`. -/
def cliqueQ (pl : List Rat) (ε : Rat) (x : Nat → Rat) (n : Net) : Rat :=
  cliqueGoQ pl ε (cliqueW n) x n.pins

/-- B2B, contribution of pin `i`: nothing for the minimum pin; otherwise a spring to the minimum
pin and — unless `i` is the maximum pin — a spring to the maximum pin. -/
def b2bTermQ (pl : List Rat) (ε w : Rat) (mn mx : Ext) (x : Nat → Rat) (i : Nat) (p : Pin) : Rat :=
  if i = mn.i then 0
  else (w / rmax ε (rabs (pinPos pl p - mn.pos))) * sq (pinVal x p - pinVal x (mn.c, mn.o))
    + (if i = mx.i then 0
       else (w / rmax ε (rabs (pinPos pl p - mx.pos))) * sq (pinVal x p - pinVal x (mx.c, mx.o)))

/-- **Bound-to-bound model** of one net: every pin is tied to the two extreme pins of the net in
`pl` with stiffness `W / (nb−1) / max ε |distance|`.  When all pins coincide in `pl` the minimum
and the maximum pin are the *same* pin (the first one), and every other pin is tied to it twice. -/
def b2bQ (pl : List Rat) (ε : Rat) (x : Nat → Rat) (n : Net) : Rat :=
  sumIdx (b2bTermQ pl ε (b2bW n) (minPin pl n.pins) (maxPin pl n.pins) x) 0 n.pins

/-- Star, contribution of pin `i` (`sc` = the net's auxiliary unknown, at `starPos` in `pl`):
an extreme pin is tied to the star point itself; an interior pin to the star point *shifted by its
current distance to it* (so that it exerts no force at `pl`), with stiffness
`W / max ε (distance to the nearer extreme)`. -/
def starTermQ (pl : List Rat) (ε wt : Rat) (mn mx : Ext) (sc : Nat) (x : Nat → Rat) (i : Nat) (p : Pin) : Rat :=
  if i = mn.i ∨ i = mx.i then
    (wt / rmax ε (rabs (pinPos pl p - starPos mn mx))) * sq (pinVal x p - x sc)
  else
    (wt / rmax ε (rmin (mx.pos - pinPos pl p) (pinPos pl p - mn.pos)))
      * sq (pinVal x p - (x sc + (pinPos pl p - starPos mn mx)))

/-- Light star: as the star, interior pins with the stiffness of the two B2B springs
`W/(nb−1)/max ε (max − p) + W/(nb−1)/max ε (p − min)`. -/
def lightStarTermQ (pl : List Rat) (ε wt wb : Rat) (mn mx : Ext) (sc : Nat) (x : Nat → Rat) (i : Nat) (p : Pin) : Rat :=
  if i = mn.i ∨ i = mx.i then
    (wt / rmax ε (rabs (pinPos pl p - starPos mn mx))) * sq (pinVal x p - x sc)
  else
    (wb / rmax ε (mx.pos - pinPos pl p) + wb / rmax ε (pinPos pl p - mn.pos))
      * sq (pinVal x p - (x sc + (pinPos pl p - starPos mn mx)))

/-- **Star model** of one net (`sv` = index of its auxiliary unknown when it has more than two pins). -/
def starNetQ (pl : List Rat) (ε : Rat) (x : Nat → Rat) (sv : Nat) (n : Net) : Rat :=
  if n.pins.length ≤ 2 then bipTerm pl ε x n
  else sumIdx (starTermQ pl ε n.weight (minPin pl n.pins) (maxPin pl n.pins) sv x) 0 n.pins

/-- **Light-star model** of one net. -/
def lightStarNetQ (pl : List Rat) (ε : Rat) (x : Nat → Rat) (sv : Nat) (n : Net) : Rat :=
  if n.pins.length ≤ 2 then bipTerm pl ε x n
  else sumIdx (lightStarTermQ pl ε n.weight (b2bW n) (minPin pl n.pins) (maxPin pl n.pins) sv x) 0 n.pins

/-- The documented quadratic of one net in each of the five assembly variants. -/
def netQ (m : Mode) (pl : List Rat) (ε : Rat) (x : Nat → Rat) (sv : Nat) (n : Net) : Rat :=
  match m with
  | .star0 => netQ0 x sv n
  | .b2b => b2bQ pl ε x n
  | .star => starNetQ pl ε x sv n
  | .clique => cliqueQ pl ε x n
  | .lightStar => lightStarNetQ pl ε x sv n

/-- Does the net get an auxiliary unknown in this variant? -/
def usesAux (m : Mode) (n : Net) : Bool :=
  match m with
  | .b2b => false
  | .clique => false
  | _ => decide (2 < n.pins.length)

/-- The documented quadratic of a net list; `sv` = index of the next auxiliary unknown. -/
def QModel (m : Mode) (pl : List Rat) (ε : Rat) (x : Nat → Rat) : Nat → List Net → Rat
  | _, [] => 0
  | sv, n :: ns => netQ m pl ε x sv n + QModel m pl ε x (if usesAux m n then sv + 1 else sv) ns

/-- `Σ_{i<k} (strength_i / max |pl_i − target_i| cutoff) (x_i − target_i)²`. -/
def penSum (pl : List Rat) (pen : Penalty) (x : Nat → Rat) : Nat → Rat
  | 0 => 0
  | k + 1 => penSum pl pen x k
      + (pen.strength.getD k 0 / rmax (rabs (pl.getD k 0 - pen.target.getD k 0)) pen.cutoff)
        * sq (x k - pen.target.getD k 0)

/-- **Penalty term** of `solveWithPenalty`: every cell is pulled towards its target with stiffness
`strength / max(|current distance|, cutoff)`. -/
def penQ (pl : List Rat) (pen : Option Penalty) (nbCells : Nat) (x : Nat → Rat) : Rat :=
  match pen with
  | none => 0
  | some p => penSum pl p x nbCells

/-- Penalty strengths are non-negative. -/
def PenaltyOk (pen : Option Penalty) : Prop :=
  ∀ p, pen = some p → ∀ i, 0 ≤ p.strength.getD i 0

/-! ### `finalize`: the regularisation entries -/

/-- The entries `finalize` adds (newest first): `(i, i, 1e-8f)` for every unknown whose
non-zero flag is still false. -/
def regEntries (s : Sys) : List (Nat × Nat × Rat) :=
  (((List.range s.matSize).filter (fun i => s.nz.getD i true = false)).reverse).map (fun i => (i, i, tiny))

/-- `Σ v · x_r²` over a list of (diagonal) triplets. -/
def diagQ : List (Nat × Nat × Rat) → (Nat → Rat) → Rat
  | [], _ => 0
  | e :: es, x => e.2.2 * sq (x e.1) + diagQ es x

/-- The quadratic `finalize` adds: `1e-8 · x_i²` for every unknown no pin has touched. -/
def regQ (s : Sys) (x : Nat → Rat) : Rat := diagQ (regEntries s) x

end ColoVerif.NetAsm
