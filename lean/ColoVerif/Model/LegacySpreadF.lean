import ColoVerif.Model.SpreadF
/-
C06 — `spreadCells` (src/place_global/density_grid.cpp) in binary32 BEFORE fixes/c06-spread-clamp.diff:
the computed coordinate `dem * maxCoord + (1.0f - dem) * minCoord` was written without the clamp to
`[minCoord, maxCoord]`.  Everything else is the current `Model/SpreadF.lean`.  Kept for the witness
theorems `legacy_spreadF_can_leave_bin` / `legacy_spreadF_can_exceed_half` of `Properties/C06.lean`
(this model was compared float for float with the pre-fix code: 3000 `spreadCoordX/Y` calls per seed,
seeds 1–3, all equal).  Core Lean only.
-/
namespace ColoVerif.LegacySpreadF
open ColoVerif.Spread (sortedOrder)
open ColoVerif.SpreadF (fl halfShareF coordRawF invF)

def spreadStepF (demands : List Rat) (inv lo hi : Rat) (st : Rat × List Rat) (e : Rat × Nat) :
    Rat × List Rat :=
  if demands.getD e.2 0 ≤ 0 then st
  else
    (fl (fl (st.1 + halfShareF demands inv e.2) + halfShareF demands inv e.2),
     st.2.set e.2 (coordRawF (fl (st.1 + halfShareF demands inv e.2)) lo hi))

def spreadLoopF (demands : List Rat) (inv lo hi : Rat) (order : List (Rat × Nat))
    (st : Rat × List Rat) : Rat × List Rat :=
  order.foldl (spreadStepF demands inv lo hi) st

/-- pre-fix `spreadCells(targets, demands, minCoord, maxCoord)` -/
def spreadCellsF (targets demands : List Rat) (lo hi : Rat) : List Rat :=
  (spreadLoopF demands (invF demands) lo hi (sortedOrder targets)
    (0, List.replicate targets.length 0)).2

/-- the running share `dem` after the whole loop -/
def finalShareF (targets demands : List Rat) (lo hi : Rat) : Rat :=
  (spreadLoopF demands (invF demands) lo hi (sortedOrder targets)
    (0, List.replicate targets.length 0)).1

end ColoVerif.LegacySpreadF
