import ColoVerif.Model.Grid
/-
Integer control flow of the public passes of the rough legalizer
(src/place_global/density_legalizer.cpp: `improve`, `refine`, `run`, `runCoarsening`,
`runRefinement` and the private loops they are made of).  Core Lean only.

A pass is modelled as the *schedule* it runs: the list of private redistribution calls and level
changes (`Call`), in order, with their bin arguments.  The schedule depends only on integers — the
parameters (`LegParams`), the hierarchy and the current levels (`View`) — except for one
float-dependent decision, the `doX/doY` flags of the first loop of `runCoarsening` (`choices`).
What a call does to the allocation is float-dependent too (sort keys, split position, transport
assignment): these are the *holes* (`Hole`) that turn a `Call` into an `Op` of `Model/Grid.lean`.

The schedule is tied to the code by the hook H4 (`coloquinte::verif::onDensityLegalizerOp`): every
`rebisect` / `reoptimize` / `improveX/YTransport` call and every level change of a real pass is logged
and `Driver/C16.lean` checks, call by call, that it is the next one of the schedule computed here.

Conventions: the parameters are the ones `RoughLegalizationParameters::check` accepts (sizes ≥ 1,
1 ≤ overlap < size when size > 1, nbSteps ≥ 0), so `nb - o`, strides and loop counters are
non-negative and C++ `int` arithmetic agrees with `Nat`; the only signed quantity, `y = j - k + l`
of the diagonal windows, is handled by comparing before subtracting.
-/
namespace ColoVerif.Grid

/-- the integer fields of `DensityLegalizer::Parameters` (`unidim` is the mapped flag
`unidimensionalTransport && costModel == L1`) -/
structure LegParams where
  nbSteps : Nat
  lineSize : Nat
  lineOverlap : Nat
  diagSize : Nat
  diagOverlap : Nat
  squareSize : Nat
  squareOverlap : Nat
  unidim : Bool
deriving Repr, DecidableEq, Inhabited

/-- the integer conditions of `RoughLegalizationParameters::check` -/
def LegParams.accepted (p : LegParams) : Bool :=
  decide (1 ≤ p.lineSize ∧ p.lineSize ≤ 64 ∧ 1 ≤ p.diagSize ∧ p.diagSize ≤ 64 ∧
    1 ≤ p.squareSize ∧ p.squareSize ≤ 8 ∧ 1 ≤ p.lineOverlap ∧ 1 ≤ p.diagOverlap ∧ 1 ≤ p.squareOverlap ∧
    (p.lineSize > 1 → p.lineOverlap < p.lineSize) ∧ (p.diagSize > 1 → p.diagOverlap < p.diagSize) ∧
    (p.squareSize > 1 → p.squareOverlap < p.squareSize))

/-- what the hook logs: a private redistribution call with its bin arguments, or a level change -/
inductive Call
  | refineX | refineY | coarsenX | coarsenY
  | rebisect (x1 y1 x2 y2 : Nat)
  | reoptimize (cands : List (Nat × Nat))
  | xTransport | yTransport
deriving Repr, DecidableEq, Inhabited

/-- the part of the state the control flow reads: hierarchy and current levels -/
structure View where
  hx : Hier
  hy : Hier
  levelX : Nat
  levelY : Nat
deriving Repr, DecidableEq, Inhabited

def HState.view (s : HState) : View := ⟨s.hx, s.hy, s.levelX, s.levelY⟩

namespace View
def nbX (v : View) : Nat := v.hx.nbBins v.levelX
def nbY (v : View) : Nat := v.hy.nbBins v.levelY
def parentX (v : View) (x : Nat) : Nat := v.hx.parent v.levelX x
def parentY (v : View) (y : Nat) : Nat := v.hy.parent v.levelY y
def refineX (v : View) : View := if v.levelX = 0 then v else { v with levelX := v.levelX - 1 }
def refineY (v : View) : View := if v.levelY = 0 then v else { v with levelY := v.levelY - 1 }
def coarsenX (v : View) : View := if v.levelX + 1 < v.hx.nbLevels then { v with levelX := v.levelX + 1 } else v
def coarsenY (v : View) : View := if v.levelY + 1 < v.hy.nbLevels then { v with levelY := v.levelY + 1 } else v

/-- only level changes move the view -/
def apply (v : View) : Call → View
  | .refineX => v.refineX
  | .refineY => v.refineY
  | .coarsenX => v.coarsenX
  | .coarsenY => v.coarsenY
  | _ => v

def run (v : View) (cs : List Call) : View := cs.foldl View.apply v
end View

namespace Sched

/-- the values taken by `i` in `for (int i = start; i < n; i += stride)`; fuel `n` suffices for
`stride ≥ 1` -/
def strideLoop (n stride : Nat) : Nat → Nat → List Nat
  | 0, _ => []
  | f + 1, i => if i < n then i :: strideLoop n stride f (i + stride) else []

/-- the bins collected by `improveRectangle(i, j, width, height)` -/
def rectBins (nx ny i j w h : Nat) : List (Nat × Nat) :=
  (((List.range w).map (i + ·)).filter (· < nx)).flatMap fun k =>
    (((List.range h).map (j + ·)).filter (· < ny)).map fun l => (k, l)

/-- `improveRectangle(i, j, width, height)` -/
def improveRectangle (nx ny i j w h : Nat) : Call := .reoptimize (rectBins nx ny i j w h)

/-- `improveRectangles(width, height, strideX, strideY, startX, startY)` -/
def improveRectangles (nx ny w h sx sy x0 y0 : Nat) : List Call :=
  if w * h = 1 then []
  else (strideLoop nx sx nx x0).flatMap fun i => (strideLoop ny sy ny y0).map fun j => improveRectangle nx ny i j w h

/-- the bins of one diagonal window: `x = i + k + l`, `y = j - k + l`, kept when inside the view -/
def diagBins (nx ny i j xmy xpy : Nat) : List (Nat × Nat) :=
  (List.range xmy).flatMap fun k => (List.range xpy).filterMap fun l =>
    if i + k + l < nx ∧ k ≤ j + l ∧ j + l - k < ny then some (i + k + l, j + l - k) else none

/-- `improveDiagonalRectangles(xmySize, xpySize, strideX, strideY, startX, startY)` -/
def improveDiagonalRectangles (nx ny xmy xpy sx sy x0 y0 : Nat) : List Call :=
  if xmy * xpy = 1 then []
  else (strideLoop nx sx nx x0).flatMap fun i => (strideLoop ny sy ny y0).map fun j =>
    Call.reoptimize (diagBins nx ny i j xmy xpy)

/-- `improveSquare()` -/
def improveSquare (p : LegParams) (nx ny : Nat) : List Call :=
  if p.squareSize = 1 then []
  else
    improveRectangles nx ny p.squareSize p.squareSize (2 * ((p.squareSize + 1) / 2)) (2 * ((p.squareSize + 1) / 2)) 0 0 ++
    improveRectangles nx ny p.squareSize p.squareSize (2 * ((p.squareSize + 1) / 2)) (2 * ((p.squareSize + 1) / 2))
      ((p.squareSize + 1) / 2) ((p.squareSize + 1) / 2) ++
    improveRectangles nx ny p.squareSize p.squareSize (2 * ((p.squareSize + 1) / 2)) (2 * ((p.squareSize + 1) / 2))
      0 ((p.squareSize + 1) / 2) ++
    improveRectangles nx ny p.squareSize p.squareSize (2 * ((p.squareSize + 1) / 2)) (2 * ((p.squareSize + 1) / 2))
      ((p.squareSize + 1) / 2) 0

/-- `improveXY()` : `mid = nb - o`, `stride = 2 * mid` -/
def improveXY (p : LegParams) (nx ny : Nat) : List Call :=
  if p.lineSize = 1 then []
  else
    improveRectangles nx ny p.lineSize 1 (2 * (p.lineSize - p.lineOverlap)) 1 0 0 ++
    improveRectangles nx ny 1 p.lineSize 1 (2 * (p.lineSize - p.lineOverlap)) 0 0 ++
    improveRectangles nx ny p.lineSize 1 (2 * (p.lineSize - p.lineOverlap)) 1 (p.lineSize - p.lineOverlap) 0 ++
    improveRectangles nx ny 1 p.lineSize 1 (2 * (p.lineSize - p.lineOverlap)) 0 (p.lineSize - p.lineOverlap)

/-- `improveUnidimensionalTransport()` -/
def improveUnidimensionalTransport (p : LegParams) : List Call :=
  if p.unidim then [.xTransport, .yTransport] else []

/-- `improveDiagonals()` -/
def improveDiagonals (p : LegParams) (nx ny : Nat) : List Call :=
  if p.diagSize = 1 then []
  else
    improveDiagonalRectangles nx ny 1 p.diagSize 1 (2 * (p.diagSize - p.diagOverlap)) 0 0 ++
    improveDiagonalRectangles nx ny p.diagSize 1 (2 * (p.diagSize - p.diagOverlap)) 1 0 0 ++
    improveDiagonalRectangles nx ny 1 p.diagSize 1 (2 * (p.diagSize - p.diagOverlap)) 0 (p.diagSize - p.diagOverlap) ++
    improveDiagonalRectangles nx ny p.diagSize 1 (2 * (p.diagSize - p.diagOverlap)) 1 (p.diagSize - p.diagOverlap) 0

/-- one iteration of the loop of `improve()` -/
def improveStep (p : LegParams) (nx ny : Nat) : List Call :=
  improveSquare p nx ny ++ improveXY p nx ny ++ improveUnidimensionalTransport p ++ improveDiagonals p nx ny

/-- `improve()`: no call changes the view, every iteration runs the same schedule -/
def improve (p : LegParams) (v : View) : List Call :=
  (List.replicate p.nbSteps (improveStep p v.nbX v.nbY)).flatten

/-- `improveXNeighbours(sameParent)` -/
def improveXNeighbours (v : View) (same : Bool) : List Call :=
  (List.range (v.nbX - 1)).flatMap fun i =>
    if (v.parentX i == v.parentX (i + 1)) != same then []
    else (List.range v.nbY).map fun j => Call.rebisect i j (i + 1) j

/-- `improveYNeighbours(sameParent)` -/
def improveYNeighbours (v : View) (same : Bool) : List Call :=
  (List.range (v.nbY - 1)).flatMap fun j =>
    if (v.parentY j == v.parentY (j + 1)) != same then []
    else (List.range v.nbX).map fun i => Call.rebisect i j i (j + 1)

/-- `improveSquareNeighbours(sameParentX, sameParentY)` -/
def improveSquareNeighbours (v : View) (sameX sameY : Bool) : List Call :=
  (List.range v.nbX).flatMap fun i =>
    if decide (i + 1 < v.nbX) && ((v.parentX i == v.parentX (i + 1)) != sameX) then []
    else (List.range v.nbY).flatMap fun j =>
      if decide (j + 1 < v.nbY) && ((v.parentY j == v.parentY (j + 1)) != sameY) then []
      else [improveRectangle v.nbX v.nbY i j 2 2]

/-- the `if (doX) { … }` block of `refine()` -/
def refinePartX (v : View) (doX : Bool) : List Call :=
  if doX then Call.refineX :: (improveXNeighbours v.refineX true ++ improveXNeighbours v.refineX false) else []

/-- the `if (doY) { … }` block of `refine()` -/
def refinePartY (v : View) (doY : Bool) : List Call :=
  if doY then Call.refineY :: (improveYNeighbours v.refineY true ++ improveYNeighbours v.refineY false) else []

/-- `refine()` -/
def refine (p : LegParams) (v : View) : List Call :=
  if v.levelX ≥ v.levelY ∧ v.levelY ≥ v.levelX ∧ p.squareSize ≥ 2 then
    [Call.refineX, Call.refineY] ++
      (improveSquareNeighbours v.refineX.refineY true true ++ improveSquareNeighbours v.refineX.refineY false false)
  else
    refinePartX v (decide (v.levelX ≥ v.levelY)) ++
      refinePartY (v.run (refinePartX v (decide (v.levelX ≥ v.levelY)))) (decide (v.levelY ≥ v.levelX))

/-- `runRefinement()`: `while (levelX() > 0 || levelY() > 0) { refine(); improve(); }`; every
`refine()` lowers a level, so the fuel `levelX + levelY` suffices -/
def refinementLoop (p : LegParams) : Nat → View → List Call
  | 0, _ => []
  | f + 1, v =>
    if v.levelX > 0 ∨ v.levelY > 0 then
      refine p v ++ improve p (v.run (refine p v)) ++ refinementLoop p f (v.run (refine p v))
    else []

def runRefinement (p : LegParams) (v : View) : List Call := refinementLoop p (v.levelX + v.levelY) v

/-- the calls of one iteration of the first loop of `runCoarsening`, for the float decisions
`(distX <= dist, distY <= dist)` -/
def coarsenChoice (v : View) (c : Bool × Bool) : List Call :=
  (if decide (v.levelX + 1 < v.hx.nbLevels) && c.1 then [Call.coarsenX] else []) ++
  (if decide (v.levelY + 1 < v.hy.nbLevels) && c.2 then [Call.coarsenY] else [])

/-- first loop of `runCoarsening()`: stops at the first iteration that coarsens nothing (or when the
observed decisions are exhausted) -/
def coarsenLoop : List (Bool × Bool) → View → List Call
  | [], _ => []
  | c :: rest, v =>
    if (coarsenChoice v c).isEmpty then [] else coarsenChoice v c ++ coarsenLoop rest (v.run (coarsenChoice v c))

/-- number of decisions the first loop reads (including the one that stops it) -/
def coarsenUsed : List (Bool × Bool) → View → Nat
  | [], _ => 0
  | c :: rest, v =>
    if (coarsenChoice v c).isEmpty then 1 else 1 + coarsenUsed rest (v.run (coarsenChoice v c))

/-- the two closing `while` loops of `runCoarsening()` -/
def coarsenRest (v : View) : List Call :=
  List.replicate (v.hx.nbLevels - 1 - v.levelX) Call.coarsenX ++
  List.replicate (v.hy.nbLevels - 1 - v.levelY) Call.coarsenY

/-- `runCoarsening()` -/
def runCoarsening (choices : List (Bool × Bool)) (v : View) : List Call :=
  coarsenLoop choices v ++ coarsenRest (v.run (coarsenLoop choices v))

/-- `run()` -/
def run (p : LegParams) (choices : List (Bool × Bool)) (v : View) : List Call :=
  runCoarsening choices v ++ runRefinement p (v.run (runCoarsening choices v))

end Sched

/-- the public passes of `DensityLegalizer` -/
inductive Pass
  | improve | refine | run | runCoarsening | runRefinement
deriving Repr, DecidableEq, Inhabited

/-- the schedule of a public pass started in view `v` -/
def passCalls (p : LegParams) (v : View) (choices : List (Bool × Bool)) : Pass → List Call
  | .improve => Sched.improve p v
  | .refine => Sched.refine p v
  | .run => Sched.run p choices v
  | .runCoarsening => Sched.runCoarsening choices v
  | .runRefinement => Sched.runRefinement p v

/-- the float-dependent content of one call: sorted order and split position (`rebisect`), assignment
vector (`reoptimize`), one assignment vector per row / column (`improveX/YTransport`) -/
structure Hole where
  order : List Nat := []
  split : Nat := 0
  assign : List Nat := []
  assigns : List (List Nat) := []
deriving Repr, DecidableEq, Inhabited

/-- a logged call with its hole filled is an operation of the allocation model -/
def Call.toOp (c : Call) (h : Hole) : Op :=
  match c with
  | .refineX => .refineX
  | .refineY => .refineY
  | .coarsenX => .coarsenX
  | .coarsenY => .coarsenY
  | .rebisect x1 y1 x2 y2 => .rebisect x1 y1 x2 y2 h.order h.split
  | .reoptimize cands => .reoptimize cands h.order h.split h.assign
  | .xTransport => .xTransport h.assigns
  | .yTransport => .yTransport h.assigns

/-- a schedule with all holes filled (`holes k` for the `k`-th call) -/
def fill : List Call → (Nat → Hole) → List Op
  | [], _ => []
  | c :: cs, holes => c.toOp (holes 0) :: fill cs (fun k => holes (k + 1))

/-- what the hook logs for a call, nested calls included: `reoptimize` with exactly two candidates
hands over to `rebisect` -/
def Call.logged : Call → List Call
  | .reoptimize [(x1, y1), (x2, y2)] => [.reoptimize [(x1, y1), (x2, y2)], .rebisect x1 y1 x2 y2]
  | c => [c]

end ColoVerif.Grid
