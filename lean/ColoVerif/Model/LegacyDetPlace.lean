import ColoVerif.Model.DetPlace
/-
Pre-fix behaviour of `DetailedPlacement::fromIspdCircuit` (before c02-f2 and c02-f18), kept only to
carry the machine-checked witnesses of what was wrong (corpus/C02/w1.txt, w2.txt replay them on the
real code).
-/
namespace ColoVerif.DetPlace

/-- the unrepaired function: cells are classified and sized by the *unrotated* `cellWidth_ /
cellHeight_`, and *every* off-row-height cell — fixed non-obstructions included — becomes an obstacle -/
def fromIspdCircuitLegacy (c : Circuit) : Except Err State :=
  match c.rowHeight with
  | none => .error .runtime
  | some h =>
    let widths := c.cells.map fun cl => if cl.fixed || cl.h != h then -1 else cl.w
    let obstacles := (c.cells.filter fun cl => cl.h != h).map Cell.placement
    construct (c.computeRows obstacles) c.cells.length
      (ofList 0 widths) (ofList 0 (c.cells.map (·.x))) (ofList 0 (c.cells.map (·.y)))
      (ofList default (c.cells.map (·.orient))) (ofList default (c.cells.map (·.pol)))
      (fun i => i)

/-- F2 witness (corpus/C02/w1.txt): a legal placement of one standard cell over a fixed 3×3 cell
that is not an obstruction -/
def witnessF2 : Circuit :=
  { cells := [⟨2, 2, 4, 0, .N, false, false, .ANY⟩, ⟨3, 3, 3, 0, .N, true, false, .ANY⟩],
    nets := [], rows := [⟨⟨0, 10, 0, 2⟩, .N⟩] }

/-- F18 witness (corpus/C02/w2.txt): cell 0 is stored 4×2 with orientation E, i.e. placed 2×4 over
both rows -/
def witnessF18 : Circuit :=
  { cells := [⟨4, 2, 0, 0, .E, false, false, .ANY⟩, ⟨2, 2, 6, 0, .N, false, false, .ANY⟩,
              ⟨2, 2, 6, 2, .N, false, false, .ANY⟩, ⟨1, 2, 9, 0, .N, true, false, .ANY⟩],
    nets := [], rows := [⟨⟨0, 10, 0, 2⟩, .N⟩, ⟨⟨0, 10, 2, 4⟩, .N⟩] }

def isOk {α : Type} : Except Err α → Bool
  | .ok _ => true
  | .error _ => false

/-- before the fix the constructor throws on a placement that legalization accepts; after it, not -/
theorem legacy_F2_throws : isOk (fromIspdCircuitLegacy witnessF2) = false ∧ isOk (fromIspdCircuit witnessF2) = true := by
  decide

/-- before the fix the two-row cell 0 is optimised as a 4-wide single-row cell; after it, ignored -/
theorem legacy_F18_optimises_two_row_cell :
    (match fromIspdCircuitLegacy witnessF18 with | .ok s => s.width 0 | .error _ => 0) = 4 ∧
    (match fromIspdCircuit witnessF18 with | .ok s => s.width 0 | .error _ => 0) = -1 := by
  decide

end ColoVerif.DetPlace
