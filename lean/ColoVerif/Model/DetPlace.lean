import ColoVerif.Model.Circuit
import ColoVerif.Model.Freespace
/-
Model of `coloquinte::DetailedPlacement` (src/place_detailed/detailed_placement.{hpp,cpp})
and of the primitive moves the optimiser (`DetailedPlacer`, `RowReordering` in
place_detailed.cpp) performs on it.

Representation.  The C++ object is a bundle of `std::vector`s indexed by cell or by row, with
`-1` as the null link.  Here every vector is a total function `Int → _` plus the two sizes
(`nCells`, `rows.length`); a write `v[i] = a` is `upd v i a`.  Only indices inside the sizes are
ever read on states that satisfy `Inv`, so the values outside are irrelevant (the C++ would be
out of bounds there).  C++ `int` is unbounded `Int`, `/` is `Int.tdiv`.

Every function follows its C++ namesake statement by statement, in the same order (the order of
the writes matters when indices alias).  `Except Err` models exceptions: `Err.runtime` is a
`std::runtime_error` thrown by the code; `Err.guard` does not exist in the code — it is returned by
the checked step function `step` when an operation is applied outside the contract the optimiser
respects (e.g. a predecessor that is not in the destination row), where the C++ would silently
corrupt its lists.

The model follows the tree with the `fix:` commits c02-f2, c02-f18 (fromIspdCircuit) and
c04-invalid-rows (isRowAllowed) applied; the pre-fix `fromIspdCircuit` is kept in
`Model/LegacyDetPlace.lean`.
-/
namespace ColoVerif.DetPlace

inductive Err
  | runtime   -- std::runtime_error thrown by the C++
  | guard     -- model-only: operation outside the optimiser's contract
deriving Repr, DecidableEq, Inhabited

/-- one region of `RowReordering::writeback`: (row, cellPred, [(cell, position)]) -/
structure Region where
  row : Int
  pred : Int
  cells : List (Int × Int)
deriving Repr, DecidableEq, Inhabited

/-- `v[i] = a` -/
def upd {α : Type} (f : Int → α) (i : Int) (a : α) : Int → α := fun j => if j = i then a else f j

@[simp] theorem upd_same {α : Type} (f : Int → α) (i : Int) (a : α) : upd f i a i = a := by simp [upd]
theorem upd_other {α : Type} (f : Int → α) (i j : Int) (a : α) (h : j ≠ i) : upd f i a j = f j := by simp [upd, h]

/-- `if (b) v[i] = a;` -/
def updIf {α : Type} (b : Prop) [Decidable b] (f : Int → α) (i : Int) (a : α) : Int → α :=
  fun j => if b ∧ j = i then a else f j

/-- a vector given as a list, read with a default outside -/
def ofList {α : Type} (d : α) (l : List α) : Int → α := fun i => if i < 0 then d else l.getD i.toNat d

structure State where
  rows : List Row
  nCells : Nat
  rowFirst : Int → Int
  rowLast : Int → Int
  width : Int → Int
  pred : Int → Int
  next : Int → Int
  row : Int → Int
  x : Int → Int
  y : Int → Int
  orient : Int → Orient
  pol : Int → Polarity
  /-- `cellIndex_` -/
  index : Int → Int

namespace State

def nRows (s : State) : Nat := s.rows.length
/-- `rows_[r]` -/
def rowAt (s : State) (r : Int) : Row := if r < 0 then default else s.rows.getD r.toNat default
def rowMinX (s : State) (r : Int) : Int := (s.rowAt r).rect.minX
def rowMaxX (s : State) (r : Int) : Int := (s.rowAt r).rect.maxX
/-- `rowY` -/
def rowY (s : State) (r : Int) : Int := (s.rowAt r).rect.minY
def rowOrient (s : State) (r : Int) : Orient := (s.rowAt r).orient

def validCell (s : State) (c : Int) : Prop := 0 ≤ c ∧ c < s.nCells
def validRow (s : State) (r : Int) : Prop := 0 ≤ r ∧ r < s.nRows
instance (s : State) (c : Int) : Decidable (s.validCell c) := by unfold validCell; infer_instance
instance (s : State) (r : Int) : Decidable (s.validRow r) := by unfold validRow; infer_instance

/-- `isIgnored` -/
def isIgnored (s : State) (c : Int) : Bool := s.width c == -1
/-- `isPlaced` -/
def isPlaced (s : State) (c : Int) : Bool := s.row c != -1

/-- `boundaryBefore(c)` -/
def boundaryBefore (s : State) (c : Int) : Int :=
  if s.pred c = -1 then s.rowMinX (s.row c) else s.x (s.pred c) + s.width (s.pred c)
/-- `boundaryAfter(c)` -/
def boundaryAfter (s : State) (c : Int) : Int :=
  if s.next c = -1 then s.rowMaxX (s.row c) else s.x (s.next c)
/-- `boundaryBefore(row, c)` -/
def boundaryBeforeIn (s : State) (r c : Int) : Int := if c = -1 then s.rowMaxX r else s.boundaryBefore c
/-- `boundaryAfter(row, c)` -/
def boundaryAfterIn (s : State) (r c : Int) : Int := if c = -1 then s.rowMinX r else s.boundaryAfter c

/-- the cell that follows the site `(row, pred)` -/
def siteNext (s : State) (r p : Int) : Int := if p = -1 then s.rowFirst r else s.next p
/-- `siteBegin` -/
def siteBegin (s : State) (r p : Int) : Int := if p = -1 then s.rowMinX r else s.x p + s.width p
/-- `siteEnd` -/
def siteEnd (s : State) (r p : Int) : Int :=
  if s.siteNext r p = -1 then s.rowMaxX r else s.x (s.siteNext r p)

/-- `isRowAllowed` (added by the C04 fix) -/
def isRowAllowed (s : State) (c r : Int) : Bool :=
  cellOrientationInRow (s.pol c) (s.rowOrient r) != Orient.INVALID

/-- `canPlace` -/
def canPlace (s : State) (c r p x : Int) : Except Err Bool :=
  if s.isPlaced c then .error .runtime
  else if !s.isRowAllowed c r then .ok false
  else .ok (decide (x ≥ s.siteBegin r p) && decide (x + s.width c ≤ s.siteEnd r p))

/-- `canInsert` -/
def canInsert (s : State) (c r p : Int) : Except Err Bool :=
  if !s.isPlaced c then .error .runtime
  else if c = p then .ok false
  else if s.row c = r ∧ s.pred c = p then .ok false
  else if !s.isRowAllowed c r then .ok false
  else .ok (decide (s.siteEnd r p - s.siteBegin r p ≥ s.width c))

/-- `canSwap` -/
def canSwap (s : State) (c1 c2 : Int) : Except Err Bool :=
  if !s.isPlaced c1 || !s.isPlaced c2 then .error .runtime
  else if c1 = c2 then .ok false
  else if !s.isRowAllowed c1 (s.row c2) || !s.isRowAllowed c2 (s.row c1) then .ok false
  else if s.pred c1 = c2 ∨ s.pred c2 = c1 then .ok true
  else .ok (decide (s.boundaryAfter c2 - s.boundaryBefore c2 ≥ s.width c1) &&
            decide (s.boundaryAfter c1 - s.boundaryBefore c1 ≥ s.width c2))

/-- orientation written by `place` -/
def placedOrient (s : State) (c r : Int) : Orient :=
  if cellOrientationInRow (s.pol c) (s.rowOrient r) ≠ Orient.UNKNOWN
  then cellOrientationInRow (s.pol c) (s.rowOrient r) else s.orient c

/-- the writes of `place` after the `canPlace` test, in the order of the C++ -/
def placeRaw (s : State) (c r p x : Int) : State :=
  { s with
    row := upd s.row c r
    orient := upd s.orient c (s.placedOrient c r)
    rowFirst := updIf (p = -1) s.rowFirst r c
    rowLast := updIf (s.siteNext r p = -1) s.rowLast r c
    -- cellNext_[pred] = c;  cellNext_[c] = next   (in this order)
    next := upd (updIf (p ≠ -1) s.next p c) c (s.siteNext r p)
    -- cellPred_[c] = pred;  cellPred_[next] = c   (in this order)
    pred := updIf (s.siteNext r p ≠ -1) (upd s.pred c p) (s.siteNext r p) c
    x := upd s.x c x
    y := upd s.y c (s.rowY r) }

/-- `place` -/
def place (s : State) (c r p x : Int) : Except Err State :=
  match s.canPlace c r p x with
  | .error e => .error e
  | .ok false => .error .runtime
  | .ok true => .ok (s.placeRaw c r p x)

/-- `unplace` -/
def unplace (s : State) (c : Int) : State :=
  { s with
    row := upd s.row c (-1)
    rowFirst := updIf (s.pred c = -1) s.rowFirst (s.row c) (s.next c)
    rowLast := updIf (s.next c = -1) s.rowLast (s.row c) (s.pred c)
    -- cellNext_[pred] = next;  cellNext_[c] = -1
    next := upd (updIf (s.pred c ≠ -1) s.next (s.pred c) (s.next c)) c (-1)
    -- cellPred_[c] = -1;  cellPred_[next] = pred
    pred := updIf (s.next c ≠ -1) (upd s.pred c (-1)) (s.next c) (s.pred c) }

/-- `positionOnInsert` (x, y) -/
def positionOnInsert (s : State) (c r p : Int) : Int × Int :=
  ((s.siteEnd r p - s.width c + s.siteBegin r p).tdiv 2, s.rowY r)

/-- `positionsOnSwap`: ((x1, y1), (x2, y2)) = new positions of c1 and c2 -/
def positionsOnSwap (s : State) (c1 c2 : Int) : (Int × Int) × (Int × Int) :=
  if s.pred c1 = c2 then ((s.x c2, s.y c2), (s.x c2 + s.width c1, s.y c1))
  else if s.pred c2 = c1 then ((s.x c1 + s.width c2, s.y c2), (s.x c1, s.y c1))
  else (((s.boundaryBefore c2 + s.boundaryAfter c2 - s.width c1).tdiv 2, s.y c2),
        ((s.boundaryBefore c1 + s.boundaryAfter c1 - s.width c2).tdiv 2, s.y c1))

/-- `insert` -/
def insert (s : State) (c r p : Int) : Except Err State :=
  match s.canInsert c r p with
  | .error e => .error e
  | .ok false => .error .runtime
  | .ok true => (s.unplace c).place c r p (s.positionOnInsert c r p).1

/-- `swap` -/
def swap (s : State) (c1 c2 : Int) : Except Err State :=
  match s.canSwap c1 c2 with
  | .error e => .error e
  | .ok false => .error .runtime
  | .ok true =>
    if s.pred c1 = c2 then
      (((s.unplace c1).unplace c2).place c1 (s.row c2) (s.pred c2) (s.positionsOnSwap c1 c2).1.1).bind
        fun t => t.place c2 (s.row c1) c1 (s.positionsOnSwap c1 c2).2.1
    else if s.pred c2 = c1 then
      (((s.unplace c1).unplace c2).place c2 (s.row c1) (s.pred c1) (s.positionsOnSwap c1 c2).2.1).bind
        fun t => t.place c1 (s.row c2) c2 (s.positionsOnSwap c1 c2).1.1
    else
      (((s.unplace c1).unplace c2).place c1 (s.row c2) (s.pred c2) (s.positionsOnSwap c1 c2).1.1).bind
        fun t => t.place c2 (s.row c1) (s.pred c1) (s.positionsOnSwap c1 c2).2.1

/-- the loop at the end of `runShiftsOnCells`: `placement_.cellX_[c] = pos` for every pair -/
def setXs (s : State) : List (Int × Int) → State
  | [] => s
  | (c, v) :: rest => setXs { s with x := upd s.x c v } rest

/-- per-cell part of the contract of a shift: the cell is optimised and placed -/
def shiftCellOk (s : State) (c : Int) : Bool :=
  decide (s.validCell c) && s.isPlaced c && !s.isIgnored c

/-- after the writes: the cell respects its predecessor / successor / row ends -/
def fitsInSite (s : State) (c : Int) : Bool :=
  decide (s.boundaryBefore c ≤ s.x c) && decide (s.x c + s.width c ≤ s.boundaryAfter c)

/-- checked shift: what `runShiftsOnCells` does with the potentials returned by lemon's
NetworkSimplex, accepted only if every moved cell is a placed optimised cell, no cell appears
twice and the new abscissas respect the neighbours and the row ends (the code takes this on trust
from the solver). -/
def shift (s : State) (mv : List (Int × Int)) : Except Err State :=
  if mv.all (fun m => s.shiftCellOk m.1) && (mv.map (·.1)).Nodup
     && mv.all (fun m => (s.setXs mv).fitsInSite m.1)
  then .ok (s.setXs mv) else .error .runtime

/-- cells of a row by following the links, at most `fuel` of them: `rowCells` -/
def chain (s : State) : Nat → Int → List Int
  | 0, _ => []
  | fuel + 1, c => if c = -1 then [] else c :: chain s fuel (s.next c)

/-- `rowCells(row)` -/
def rowCells (s : State) (r : Int) : List Int := s.chain (s.nCells + 1) (s.rowFirst r)

end State

/-! ### `check()` as a decidable invariant -/

open State in
/-- the per-row tests of `check()` (first loop) -/
def RowOk (s : State) (r : Int) : Prop :=
  (s.rowLast r = -1 ↔ s.rowFirst r = -1) ∧
  (s.rowFirst r ≠ -1 →
    s.validCell (s.rowFirst r) ∧ s.validCell (s.rowLast r) ∧
    s.row (s.rowFirst r) = r ∧ s.pred (s.rowFirst r) = -1 ∧
    s.row (s.rowLast r) = r ∧ s.next (s.rowLast r) = -1)

open State in
/-- the per-cell tests of `check()` (second loop), plus the symmetry of the links
(`next (pred c) = c`, `pred (next c) = c`) which makes the invariant inductive -/
def LinkOk (s : State) (c : Int) : Prop :=
  (-1 ≤ s.row c ∧ s.row c < s.nRows) ∧
  (s.row c = -1 → s.pred c = -1 ∧ s.next c = -1) ∧
  (s.row c ≠ -1 →
    (s.pred c ≠ -1 → s.validCell (s.pred c) ∧ s.row (s.pred c) = s.row c ∧
        s.x (s.pred c) + s.width (s.pred c) ≤ s.x c ∧ s.next (s.pred c) = c) ∧
    (s.pred c = -1 → s.rowFirst (s.row c) = c ∧ s.rowMinX (s.row c) ≤ s.x c) ∧
    (s.next c ≠ -1 → s.validCell (s.next c) ∧ s.row (s.next c) = s.row c ∧
        s.x c + s.width c ≤ s.x (s.next c) ∧ s.pred (s.next c) = c) ∧
    (s.next c = -1 → s.rowLast (s.row c) = c ∧ s.x c + s.width c ≤ s.rowMaxX (s.row c)))

open State in
/-- the orientation tests of `check()` (third loop, including the C04 addition) plus: an optimised
cell's orientation is never INVALID and its width is positive; a placed cell is optimised (not
ignored) and its y is its row's -/
def CellOk (s : State) (c : Int) : Prop :=
  (s.width c ≠ -1 → s.orient c ≠ Orient.INVALID ∧ 0 < s.width c) ∧
  (s.row c ≠ -1 →
    s.width c ≠ -1 ∧
    cellOrientationInRow (s.pol c) (s.rowOrient (s.row c)) ≠ Orient.INVALID ∧
    (cellOrientationInRow (s.pol c) (s.rowOrient (s.row c)) ≠ Orient.UNKNOWN →
       s.orient c = cellOrientationInRow (s.pol c) (s.rowOrient (s.row c))) ∧
    s.y c = s.rowY (s.row c))

instance (s : State) (r : Int) : Decidable (RowOk s r) := by unfold RowOk; infer_instance
instance (s : State) (c : Int) : Decidable (LinkOk s c) := by unfold LinkOk; infer_instance
instance (s : State) (c : Int) : Decidable (CellOk s c) := by unfold CellOk; infer_instance

/-- Everything `DetailedPlacement::check()` tests (the vector sizes are equal by construction of
the record) + link symmetry + orientation ≠ INVALID + y on the row + positive widths of optimised cells. -/
structure Inv (s : State) : Prop where
  rowsOk : ∀ r : Nat, r < s.nRows → RowOk s r
  linksOk : ∀ c : Nat, c < s.nCells → LinkOk s c
  cellsOk : ∀ c : Nat, c < s.nCells → CellOk s c

instance (s : State) : Decidable (Inv s) :=
  if h : (∀ r : Nat, r < s.nRows → RowOk s r) ∧ (∀ c : Nat, c < s.nCells → LinkOk s c) ∧
         (∀ c : Nat, c < s.nCells → CellOk s c)
  then isTrue ⟨h.1, h.2.1, h.2.2⟩
  else isFalse fun i => h ⟨i.rowsOk, i.linksOk, i.cellsOk⟩

namespace State

/-- the tests of the real `check()`, in its order, as an executable function (used by the
correspondence stream: `probeX`, `probeOrient`, `check`) -/
def checkRow (s : State) (r : Int) : Bool :=
  decide ((s.rowLast r = -1) ↔ (s.rowFirst r = -1)) &&
  (s.rowFirst r == -1 ||
    (s.row (s.rowFirst r) == r && s.pred (s.rowFirst r) == -1 &&
     s.row (s.rowLast r) == r && s.next (s.rowLast r) == -1))

def checkCell (s : State) (c : Int) : Bool :=
  decide (-1 ≤ s.row c ∧ s.row c < s.nRows) &&
  (if s.row c = -1 then s.pred c == -1 && s.next c == -1
   else
    (if s.pred c ≠ -1 then s.row (s.pred c) == s.row c && decide (s.x (s.pred c) + s.width (s.pred c) ≤ s.x c)
     else s.rowFirst (s.row c) == c && decide (s.rowMinX (s.row c) ≤ s.x c)) &&
    (if s.next c ≠ -1 then s.row (s.next c) == s.row c && decide (s.x c + s.width c ≤ s.x (s.next c))
     else s.rowLast (s.row c) == c && decide (s.x c + s.width c ≤ s.rowMaxX (s.row c))))

def checkOrient (s : State) (r c : Int) : Bool :=
  cellOrientationInRow (s.pol c) (s.rowOrient r) != Orient.INVALID &&
  (cellOrientationInRow (s.pol c) (s.rowOrient r) == Orient.UNKNOWN ||
   s.orient c == cellOrientationInRow (s.pol c) (s.rowOrient r))

def intsUpTo (n : Nat) : List Int := (List.range n).map Int.ofNat

/-- `check()` : true = returns, false = throws -/
def check (s : State) : Bool :=
  (intsUpTo s.nRows).all s.checkRow && (intsUpTo s.nCells).all s.checkCell &&
  (intsUpTo s.nRows).all fun r => (s.rowCells r).all (s.checkOrient r)

end State

/-! ### construction -/

/-- the sort key of rows: `(minY, minX)` -/
def rowLe (a b : Row) : Bool :=
  a.rect.minY < b.rect.minY || (a.rect.minY == b.rect.minY && a.rect.minX ≤ b.rect.minX)

def insertRow (r : Row) : List Row → List Row
  | [] => [r]
  | q :: qs => if rowLe r q then r :: q :: qs else q :: insertRow r qs

/-- `std::sort(rows_, (minY, minX))`; the keys are distinct for disjoint rows -/
def sortRows (l : List Row) : List Row := l.foldr insertRow []

/-- `upper_bound(rows_, (x, x, y, y)) - 1`: index of the last row whose key is ≤ (y, x); `none`
when there is none ("No row found for the cell") -/
def findRow (rows : List Row) (x y : Int) : Option Nat :=
  let k := (rows.takeWhile fun r => r.rect.minY < y || (r.rect.minY == y && r.rect.minX ≤ x)).length
  if k = 0 then none else some (k - 1)

/-- the row of cell `(x, y, w)` or the exception of the constructor -/
def locate (rows : List Row) (x y w : Int) : Except Err Nat :=
  match findRow rows x y with
  | none => .error .runtime
  | some r =>
    let rect := (rows.getD r default).rect
    if rect.minY ≠ y then .error .runtime
    else if rect.minX > x then .error .runtime
    else if rect.maxX < x + w then .error .runtime
    else .ok r

/-- insertion of cell `c` into a row's list sorted by x (`std::sort` by `posX`; abscissas are
distinct in any placement that passes the overlap test with positive widths) -/
def insertByX (xs : Int → Int) (c : Int) : List Int → List Int
  | [] => [c]
  | d :: ds => if xs c < xs d then c :: d :: ds else d :: insertByX xs c ds

/-- links one sorted row list: returns the state with pred/next/row/first/last written, or the
"Overlap between cells" exception -/
def linkRow (s : State) (r : Int) : List Int → Except Err State
  | [] => .ok s
  | [c] => .ok { s with row := upd s.row c r, rowLast := upd s.rowLast r c }
  | c1 :: c2 :: rest =>
    if s.x c1 + s.width c1 > s.x c2 then .error .runtime
    else linkRow { s with row := upd s.row c1 r, next := upd s.next c1 c2, pred := upd s.pred c2 c1 } r (c2 :: rest)

def linkRows (s : State) : Nat → List (List Int) → Except Err State
  | _, [] => .ok s
  | r, cs :: css =>
    match linkRow (match cs with
                   | [] => s
                   | c :: _ => { s with rowFirst := upd s.rowFirst r c }) r cs with
    | .error e => .error e
    | .ok t => linkRows t (r + 1) css

/-- assignment of the non-ignored cells to rows (`rowToCells`), each row sorted by x -/
def assignCells (rows : List Row) (width xs ys : Int → Int) : List Int → Except Err (List (List Int))
  | [] => .ok (rows.map fun _ => [])
  | c :: cs =>
    match assignCells rows width xs ys cs with
    | .error e => .error e
    | .ok acc =>
      if width c == -1 then .ok acc
      else match locate rows (xs c) (ys c) (width c) with
        | .error e => .error e
        | .ok r => .ok (acc.modify r (insertByX xs c))

/-- the constructor `DetailedPlacement(rows, width, posX, posY, orient, pol, cellIndex)`
(the final `check()` is `State.check`; it is evaluated by `construct`) -/
def construct (rows : List Row) (n : Nat) (width xs ys : Int → Int) (orient : Int → Orient)
    (pol : Int → Polarity) (index : Int → Int) : Except Err State :=
  let rs := sortRows rows
  match assignCells rs width xs ys (State.intsUpTo n) with
  | .error e => .error e
  | .ok lists =>
    let s0 : State := { rows := rs, nCells := n, rowFirst := fun _ => -1, rowLast := fun _ => -1,
                        width := width, pred := fun _ => -1, next := fun _ => -1, row := fun _ => -1,
                        x := xs, y := ys, orient := orient, pol := pol, index := index }
    match linkRows s0 0 lists with
    | .error e => .error e
    | .ok s => if s.check then .ok s else .error .runtime

/-- `DetailedPlacement::fromIspdCircuit(circuit)` (with c02-f2 and c02-f18 applied):
fixed cells are ignored; movable cells whose *placed* height is not the row height are ignored and
become obstacles; the others are optimised with their *placed* width. -/
def fromIspdCircuit (c : Circuit) : Except Err State :=
  match c.rowHeight with
  | none => .error .runtime
  | some h =>
    let widths := c.cells.map fun cl => if cl.fixed then -1 else if cl.placedHeight ≠ h then -1 else cl.placedWidth
    let obstacles := (c.cells.filter fun cl => !cl.fixed && cl.placedHeight ≠ h).map Cell.placement
    construct (c.computeRows obstacles) c.cells.length
      (ofList 0 widths) (ofList 0 (c.cells.map (·.x))) (ofList 0 (c.cells.map (·.y)))
      (ofList default (c.cells.map (·.orient))) (ofList default (c.cells.map (·.pol)))
      (fun i => i)

/-- `DetailedPlacement::exportPlacement(circuit)` -/
def exportPlacement (s : State) (c : Circuit) : Circuit :=
  { c with cells := (c.cells.zipIdx).map fun (cl, i) =>
      -- cellIndex_ is the identity for fromIspdCircuit(circuit)
      if cl.fixed then cl else { cl with x := s.x (Int.ofNat i), y := s.y (Int.ofNat i), orient := s.orient (Int.ofNat i) } }

/-! ### the optimiser's moves as one checked step function -/

inductive Op
  | swap (c1 c2 : Int)
  | insert (c r p : Int)
  | shift (mv : List (Int × Int))
  | reorder (cells : List Int) (regions : List Region)
deriving Repr, DecidableEq, Inhabited

namespace State

/-- a site `(row, pred)` the optimiser may name: a valid row, and `pred` is `-1` or a placed cell
of that row -/
def siteOk (s : State) (r p : Int) : Bool :=
  decide (s.validRow r) && (p == -1 || (decide (s.validCell p) && s.row p == r))

/-- a cell the optimiser may move: valid and optimised (not ignored) -/
def liveCell (s : State) (c : Int) : Bool := decide (s.validCell c) && !s.isIgnored c

/-- the first loop of `writeback`: `unplace` every registered cell; the model refuses (guard) a cell
that is not an optimised placed cell at its turn (the code takes it on trust from `addCells`) -/
def unplaceAll (s : State) : List Int → Except Err State
  | [] => .ok s
  | c :: cs => if s.liveCell c && s.isPlaced c then unplaceAll (s.unplace c) cs else .error .guard

/-- the inner loop of `writeback`: place the cells of one region one after the other; the model
refuses (guard) a cell that is not an optimised unplaced cell or a predecessor outside the row -/
def placeChain (s : State) (r : Int) : Int → List (Int × Int) → Except Err State
  | _, [] => .ok s
  | p, (c, v) :: rest =>
    if s.liveCell c && !s.isPlaced c && s.siteOk r p then
      match s.place c r p v with
      | .error e => .error e
      | .ok t => placeChain t r c rest
    else .error .guard

def placeRegions (s : State) : List Region → Except Err State
  | [] => .ok s
  | g :: gs =>
    match s.placeChain g.row g.pred g.cells with
    | .error e => .error e
    | .ok t => placeRegions t gs

/-- every optimised cell is placed (what an exposed state must satisfy in addition to `Inv`) -/
def allPlaced (s : State) : Bool := (intsUpTo s.nCells).all fun c => s.isIgnored c || s.isPlaced c

/-- `RowReordering::writeback` when `improvement_`: unplace all registered cells, then place every
region's best order at its best positions; refused (guard) if a registered cell is left unplaced -/
def reorderWriteback (s : State) (cells : List Int) (regions : List Region) : Except Err State :=
  match s.unplaceAll cells with
  | .error e => .error e
  | .ok t =>
    match t.placeRegions regions with
    | .error e => .error e
    | .ok u => if cells.all u.isPlaced then .ok u else .error .guard

/-- one primitive move of the optimiser, refused with `Err.guard` outside its contract -/
def step (s : State) : Op → Except Err State
  | .swap c1 c2 => if s.liveCell c1 && s.liveCell c2 then s.swap c1 c2 else .error .guard
  | .insert c r p => if s.liveCell c && s.siteOk r p then s.insert c r p else .error .guard
  | .shift mv => s.shift mv
  | .reorder cells regions => s.reorderWriteback cells regions

/-- a history: stops at the first refused move -/
def run (s : State) : List Op → Except Err State
  | [] => .ok s
  | op :: ops =>
    match s.step op with
    | .error e => .error e
    | .ok t => run t ops

end State
end ColoVerif.DetPlace
