import ColoVerif.Model.RowLegSpec
/-
The cost function of `RowLegalizer::getDisplacement` as it was BEFORE the repair
`fix: RowLegalizer reports exact incremental costs …` (/repo 6923697): the cost
of the cells already in the row is integrated from `end_` (`curPos` starts at
`end_`) instead of from `end_ - usedSpace()`.  Positions and queue updates are
the same as in the repaired code; only the reported cost differs.  Kept to record
the defect (`ColoVerif.C12.cost_sum_drifts`); not executed by the driver.
-/
namespace ColoVerif.RowLeg.Legacy
open ColoVerif.RowLeg

def scan (width tgt lim : Int) : List Bound → Int → Int → Int → List Bound → Scan
  | [], slope, curPos, curCost, passed => ⟨[], passed.reverse, slope, curPos, curCost⟩
  | t :: rest, slope, curPos, curCost, passed =>
    if (slope < 0 && t.absPos > tgt) || t.absPos > lim then
      scan width tgt lim rest (slope + t.weight) t.absPos
        (curCost + (curPos - t.absPos) * (slope + width)) (t :: passed)
    else ⟨t :: rest, passed.reverse, slope, curPos, curCost⟩

def displacement (s : State) (width target : Int) : Disp :=
  let tgt := target - s.used
  let lim := s.e - s.used - width
  let sc := scan width tgt lim s.bounds (-width) s.e 0 []
  let fin := min lim (max s.b (if sc.slope ≥ 0 then sc.curPos else tgt))
  let cost := sc.curCost + (sc.curPos - fin) * (sc.slope + width) + width * (fin - tgt).natAbs
  ⟨cost, fin, sc⟩

def push (s : State) (width target : Int) : Int × State :=
  let d := displacement s width target
  let tgt := target - s.used
  let q1 := if d.scan.slope > 0 then pqInsert ⟨d.scan.curPos, d.scan.slope⟩ d.scan.rest else d.scan.rest
  let q2 := if tgt > s.b then pqInsert ⟨min tgt d.finalAbsPos, 2 * width + min d.scan.slope 0⟩ q1 else q1
  (d.cost, { s with cposRev := d.finalAbsPos :: s.cposRev, widthsRev := width :: s.widthsRev, bounds := q2 })

/-- Push the cells in order; returns the sum of the reported costs and the final state. -/
def pushAll (s : State) : List (Int × Int) → Int × State
  | [] => (0, s)
  | (w, t) :: cs => ((push s w t).1 + (pushAll (push s w t).2 cs).1, (pushAll (push s w t).2 cs).2)

end ColoVerif.RowLeg.Legacy
