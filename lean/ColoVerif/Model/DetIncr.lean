import ColoVerif.Model.DetOpt
import ColoVerif.Model.IncrNet
/-
Model of the glue between `DetailedPlacement` and the two `IncrNetModel`s inside `DetailedPlacer`
(src/place_detailed/place_detailed.cpp): the object is the triple `(placement_, xtopo_, ytopo_)`;
every primitive move changes `placement_` first and then calls `updateCellPos` on the cells it moved.

  DetailedPlacer(circuit, params)   placement_ = fromIspdCircuit(circuit),
                                    xtopo_ = IncrNetModel::xTopology(circuit), ytopo_ = …yTopology(circuit)
                                    (the models over *all* cells: pin offsets are computed once, here, from
                                     the orientations the circuit has at that moment)
  value()                           xtopo_.value() + ytopo_.value()
  updateCellPos(c, pos)             xtopo_.updateCellPos(c, pos.x); ytopo_.updateCellPos(c, pos.y)
  updateCellPos(c)                  updateCellPos(c, placement_.cellPos(c))
  doSwap(c1, c2)                    placement_.swap(c1, c2); updateCellPos(c1); updateCellPos(c2)
  doInsert(c, row, pred)            placement_.insert(c, row, pred); updateCellPos(c)
  valueOnSwap / valueOnInsert       update to the candidate positions, read value(), update back
  runShiftsOnCells (last loop)      for (c, pos): placement_.cellX_[c] = pos; xtopo_.updateCellPos(c, pos)
  RowReordering::writeback          improvement_: unplace all; for each region, each (c, pos):
                                      place(c, row, pred, pos); xtopo_.update(c, cellX(c)); ytopo_.update(c, cellY(c))
                                    otherwise: for each registered cell: xtopo_/ytopo_.update(c, cellX/Y(c))
  RowReordering::runRegionChoice /  leave the two models at the positions of the last enumerated leaf
  runOrdering                       (`Placer.dirty`: arbitrary updates of registered cells)

Cell indices are C++ `int`s used as vector indices; `Int.toNat` is only applied to cells that passed
the `liveCell` guard of `State.step` (0 ≤ c < nbCells).
-/
namespace ColoVerif.DetPlace
open ColoVerif

/-- `DetailedPlacer`: `placement_`, `xtopo_`, `ytopo_` -/
structure Placer where
  pl : State
  xt : IncrNet.Model
  yt : IncrNet.Model

namespace Placer

/-- `DetailedPlacer(circuit, params)` -/
def init (c : Circuit) : Except Err Placer :=
  match fromIspdCircuit c with
  | .error e => .error e
  | .ok s => .ok ⟨s, IncrNet.xTopologyAll c, IncrNet.yTopologyAll c⟩

/-- `value()` -/
def value (p : Placer) : Int := p.xt.value + p.yt.value

/-- `updateCellPos(c, pos)` -/
def updateCellTo (p : Placer) (c x y : Int) : Placer :=
  { p with xt := p.xt.updateCellPos c.toNat x, yt := p.yt.updateCellPos c.toNat y }

/-- `updateCellPos(c)` -/
def updateCell (p : Placer) (c : Int) : Placer := p.updateCellTo c (p.pl.x c) (p.pl.y c)

/-- `placement_ = t` (the placement after a primitive move, the incremental models not yet told) -/
def withPl (p : Placer) (t : State) : Placer := { p with pl := t }

/-- `doSwap` -/
def doSwap (p : Placer) (c1 c2 : Int) : Except Err Placer :=
  match p.pl.swap c1 c2 with
  | .error e => .error e
  | .ok t => .ok (((p.withPl t).updateCell c1).updateCell c2)

/-- `doInsert` -/
def doInsert (p : Placer) (c r q : Int) : Except Err Placer :=
  match p.pl.insert c r q with
  | .error e => .error e
  | .ok t => .ok ((p.withPl t).updateCell c)

/-- the placer in the middle of `valueOnSwap`: both cells at their candidate positions -/
def atSwap (p : Placer) (c1 c2 : Int) : Placer :=
  (p.updateCellTo c1 (p.pl.positionsOnSwap c1 c2).1.1 (p.pl.positionsOnSwap c1 c2).1.2).updateCellTo c2
    (p.pl.positionsOnSwap c1 c2).2.1 (p.pl.positionsOnSwap c1 c2).2.2

/-- `valueOnSwap`: (feasible ? value at the candidate positions, the placer after the two restoring updates) -/
def valueOnSwap (p : Placer) (c1 c2 : Int) : Option Int × Placer :=
  match p.pl.canSwap c1 c2 with
  | .ok true =>
    (some (p.atSwap c1 c2).value,
     ((p.atSwap c1 c2).updateCellTo c1 (p.pl.x c1) (p.pl.y c1)).updateCellTo c2 (p.pl.x c2) (p.pl.y c2))
  | _ => (none, p)

/-- the placer in the middle of `valueOnInsert` -/
def atInsert (p : Placer) (c r q : Int) : Placer :=
  p.updateCellTo c (p.pl.positionOnInsert c r q).1 (p.pl.positionOnInsert c r q).2

/-- `valueOnInsert` -/
def valueOnInsert (p : Placer) (c r q : Int) : Option Int × Placer :=
  match p.pl.canInsert c r q with
  | .ok true => (some (p.atInsert c r q).value, (p.atInsert c r q).updateCellTo c (p.pl.x c) (p.pl.y c))
  | _ => (none, p)

/-- `bestSwap(c, candidates)` / `bestSwapUpdate`: `bestValue = value()`, the candidates are evaluated with
`valueOnSwap` (which hands the placer back unchanged: `valueOnSwap_restores`) -/
def bestSwapChoice (p : Placer) (c : Int) (cands : List Int) : Option Int :=
  State.scan p.value (fun b => (p.valueOnSwap c b).1) cands none

/-- `bestInsert(c, row, candidates)` -/
def bestInsertChoice (p : Placer) (c r : Int) (cands : List Int) : Option Int :=
  State.scan p.value (fun b => (p.valueOnInsert c r b).1) cands none

/-- the `xtopo_.updateCellPos(c, pos)` calls of the last loop of `runShiftsOnCells` -/
def shiftUpdates (m : IncrNet.Model) : List (Int × Int) → IncrNet.Model
  | [] => m
  | (c, v) :: rest => shiftUpdates (m.updateCellPos c.toNat v) rest

/-- the write-back of `runShiftsOnCells` (checked as `State.shift`) -/
def doShift (p : Placer) (mv : List (Int × Int)) : Except Err Placer :=
  match p.pl.shift mv with
  | .error e => .error e
  | .ok t => .ok { pl := t, xt := shiftUpdates p.xt mv, yt := p.yt }

/-- inner loop of `writeback`: `place`, then tell both models where the cell is now -/
def placeChain (p : Placer) (r : Int) : Int → List (Int × Int) → Except Err Placer
  | _, [] => .ok p
  | q, (c, v) :: rest =>
    if p.pl.liveCell c && !p.pl.isPlaced c && p.pl.siteOk r q then
      match p.pl.place c r q v with
      | .error e => .error e
      | .ok t => placeChain ((p.withPl t).updateCell c) r c rest
    else .error .guard

def placeRegions (p : Placer) : List Region → Except Err Placer
  | [] => .ok p
  | g :: gs =>
    match p.placeChain g.row g.pred g.cells with
    | .error e => .error e
    | .ok t => placeRegions t gs

/-- `writeback` when `improvement_` -/
def reorderWriteback (p : Placer) (cells : List Int) (regions : List Region) : Except Err Placer :=
  match p.pl.unplaceAll cells with
  | .error e => .error e
  | .ok t =>
    match (p.withPl t).placeRegions regions with
    | .error e => .error e
    | .ok u => if cells.all u.pl.isPlaced then .ok u else .error .guard

/-- `writeback` when no leaf was better: the models are told the placement's positions of every
registered cell again -/
def restore (p : Placer) : List Int → Placer
  | [] => p
  | c :: cs => restore (p.updateCell c) cs

/-- what `runRegionChoice` / `runOrdering` leave behind: updates `(cell, x, y)` of registered cells -/
def dirty (p : Placer) : List (Int × Int × Int) → Placer
  | [] => p
  | (c, x, y) :: rest => dirty (p.updateCellTo c x y) rest

/-- `RowReordering::run`: `bestVal_ = value()`, enumeration (leaves, models left `dirt`y), `writeback` -/
def reorderRun (p : Placer) (dirt : List (Int × Int × Int)) (cells : List Int) (leaves : List Leaf) :
    Except Err Placer :=
  match (keepBest p.value leaves none).2 with
  | none => .ok ((p.dirty dirt).restore cells)
  | some leaf => (p.dirty dirt).reorderWriteback cells leaf.regions

/-- one primitive move of the optimiser on the whole object (same guards as `State.step`) -/
def step (p : Placer) : Op → Except Err Placer
  | .swap c1 c2 => if p.pl.liveCell c1 && p.pl.liveCell c2 then p.doSwap c1 c2 else .error .guard
  | .insert c r q => if p.pl.liveCell c && p.pl.siteOk r q then p.doInsert c r q else .error .guard
  | .shift mv => p.doShift mv
  | .reorder cells regions => p.reorderWriteback cells regions

/-- a history: stops at the first refused move -/
def run (p : Placer) : List Op → Except Err Placer
  | [] => .ok p
  | op :: ops =>
    match p.step op with
    | .error e => .error e
    | .ok t => run t ops

/-- no cell has another orientation than the one the two models were built with (the circuit's) -/
def orientKept (p : Placer) (c : Circuit) : Bool :=
  (State.intsUpTo c.cells.length).all fun i => p.pl.orient i == (c.cell i.toNat).orient

end Placer

/-- the x (resp. y) written by the region loops of `writeback`: every listed cell at its position
(resp. at its region's row) -/
def regionsX (x : Int → Int) : List Region → Int → Int
  | [] => x
  | g :: gs => regionsX (g.cells.foldl (fun f m => upd f m.1 m.2) x) gs

def regionsY (s : State) (y : Int → Int) : List Region → Int → Int
  | [] => y
  | g :: gs => regionsY s (g.cells.foldl (fun f m => upd f m.1 (s.rowY g.row)) y) gs

/-- the value `runOrdering` reads at a leaf: the registered cells at the leaf's positions and rows -/
def State.leafValue (V : Value) (s : State) (regions : List Region) : Int :=
  V (regionsX s.x regions) (regionsY s s.y regions)

end ColoVerif.DetPlace
