import ColoVerif.Model.IspdText
/-
The `.aux` writer as it was *before* the `fix:` commit for F18 (kept only to carry the machine-checked
witness of what was wrong; the harness ties `Ispd.Text.auxText`, not this file).
-/
namespace ColoVerif.Ispd.Text.Legacy
open ColoVerif ColoVerif.Ispd ColoVerif.Ispd.Text

/-- pre-F18: `"RowBasedPlacement : " << filename << ".nodes " << filename << ".nets " << …` — the whole export
prefix in front of every name -/
def auxText (pre : Line) : List Line :=
  ["RowBasedPlacement : ".toList ++ (pre ++ (".nodes ".toList ++ (pre ++ (".nets ".toList ++ (pre ++ (".pl ".toList ++ (pre ++ ".scl".toList)))))))]

/-- the files that `Circuit::exportIspd(pre)` left behind before F18 -/
def exportFS (pre : Line) (c : Circuit) : FS := fun path =>
  if path = pre ++ ".aux".toList then some (auxText pre) else Text.exportFS pre c path

end ColoVerif.Ispd.Text.Legacy
