import ColoVerif.Gen.OrientTables
/-
The orientation rule shared by the legalizers and detailed placement, over the tables
regenerated from the C++ (`Gen.cellOrientationInRow`):

* `LegalizerBase::getOrientation(cell,row)` (legalizer.cpp) and the orientation update of
  `DetailedPlacement::place` (detailed_placement.cpp): the prescribed orientation, or the cell's
  own one when the table answers the "keep" marker `UNKNOWN`;
* the row guard: `AbacusLegalizer::evaluatePlacement` / `TetrisLegalizer::attemptPlacement` skip a
  row whose prescribed orientation is `INVALID`; after `fix: c04-invalid-rows` so do
  `DetailedPlacement::canPlace/canInsert/canSwap` and row reordering.
-/
namespace ColoVerif.OrientRule
open ColoVerif

/-- `LegalizerBase::getOrientation`; what `DetailedPlacement::place` leaves in `cellOrientation_` -/
def assignedOrientation (pol : Polarity) (rowOrient cur : Orient) : Orient :=
  if Gen.cellOrientationInRow pol rowOrient == Orient.UNKNOWN then cur else Gen.cellOrientationInRow pol rowOrient

/-- the row guard: `cellOrientationInRow(pol, rowOrient) != INVALID` -/
def rowAllowed (pol : Polarity) (rowOrient : Orient) : Bool :=
  Gen.cellOrientationInRow pol rowOrient != Orient.INVALID

end ColoVerif.OrientRule
