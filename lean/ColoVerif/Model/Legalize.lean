import ColoVerif.Model.Circuit
import ColoVerif.Model.Freespace
import ColoVerif.Model.RowLeg
/-
Executable model of the legalization pipeline, exactly as the C++ performs it
(`Circuit::legalize` → `DetailedPlacer::legalize` → `Legalizer::fromIspdCircuit`,
`Legalizer::run` = `computeCellOrder`; `runTetris`; `runAbacus`; `checkAllPlaced`,
then `Legalizer::exportPlacement`).

Sources: src/place_detailed/{legalizer,tetris_legalizer,abacus_legalizer,row_legalizer}.cpp,
src/place_detailed/place_detailed.cpp, src/coloquinte.cpp, src/parameters.cpp.

Conventions and what is assumed (each assumption is exercised by the correspondence stream):

* C++ `int`/`long long` are unbounded `Int` (overflow is C07's obligation).  The model follows
  the code after `fix: c11-abacus-cost-narrowing` (`long long dist` in
  `AbacusLegalizer::evaluatePlacement`); the pre-fix narrowing `int dist = <long long>` is `wrap32`,
  used only by `Model/LegacyLegalize.lean`.
* The ordering key of `computeCellOrder` is computed by the C++ in binary32:
  `float val = weightX*x + weightWidth*w + weightY*y + weightHeight*h` with `float` weights
  (the `double` parameters are narrowed at the call) and `int` data converted to `float`.
  The model is parametric in the rounding function `rnd : Rat → Rat`; the driver instantiates it
  with `f32` (IEEE-754 binary32 round-to-nearest-even incl. subnormals, no overflow to infinity:
  assumed |value| < 2^128, NaN/inf parameters excluded), the idealised key is `rnd = id`.
  x86-64/SSE evaluates `float` expressions in binary32 (FLT_EVAL_METHOD = 0) and the build has
  no FMA contraction (no -mfma), so every product and every sum is rounded once, left to right.
* `std::stable_sort` on `std::pair<float,int>` uses the lexicographic `<`, a strict total order on
  (key, index) for non-NaN keys; indices are distinct, so the sorted sequence is unique and neither
  stability nor the algorithm matters.  Modelled by insertion sort.
* `std::stable_sort` of the rows by (minY, minX) is a stable insertion sort.
* `std::lower_bound` on the sorted rows = index of the first row with `minY ≥ y`.
* boost::polygon row/obstacle subtraction is the 1-D interval model of `Freespace` (tied by C15).
* The model follows the code *after* `fix: c01-tetris-turned` (no width/height swap in the
  Tetris pass) and `fix: c01-abacus-no-rows` (`placeCell` returns when no row is left instead of
  indexing `rows_[-1]`); the pre-fix behaviour is kept in `Model/LegacyLegalize.lean`.
-/
namespace ColoVerif.Legalize
open ColoVerif

/-! ### binary32 rounding over `Rat` -/

/-- `2^e` for an integer exponent -/
def pow2 (e : Int) : Rat :=
  if 0 ≤ e then ((2 ^ e.toNat : Nat) : Rat) else 1 / ((2 ^ (-e).toNat : Nat) : Rat)

/-- nearest integer, ties to even (argument ≥ 0) -/
def roundHalfEven (r : Rat) : Int :=
  if r - (r.floor : Rat) < 1 / 2 then r.floor
  else if (1 : Rat) / 2 < r - (r.floor : Rat) then r.floor + 1
  else if r.floor % 2 = 0 then r.floor else r.floor + 1

/-- exponent of the unit in the last place of the binary32 nearest to `a > 0`:
`2^(e+23) ≤ a < 2^(e+24)`, clamped at the subnormal exponent −149 -/
def f32Exp (a : Rat) : Int :=
  let e1 : Int := (Nat.log2 a.num.natAbs : Int) - (Nat.log2 a.den : Int) - 23
  max (if a < pow2 (e1 + 23) then e1 - 1 else e1) (-149)

/-- IEEE-754 binary32 round-to-nearest-even of an exact rational (finite range) -/
def f32 (q : Rat) : Rat :=
  if q = 0 then 0
  else if q < 0 then -((roundHalfEven ((-q) / pow2 (f32Exp (-q))) : Rat) * pow2 (f32Exp (-q)))
  else (roundHalfEven (q / pow2 (f32Exp q)) : Rat) * pow2 (f32Exp q)

/-! ### parameters -/

/-- `LegalizationParameters` (the doubles as exact rationals; `costModel` = enum value, L1 = 0) -/
structure Params where
  costModel : Nat
  ow : Rat
  oh : Rat
  oy : Rat
deriving Repr, DecidableEq, Inhabited

/-- the `double` literal `0.2` -/
def dbl02 : Rat := (3602879701896397 : Rat) / (18014398509481984 : Rat)

/-- `LegalizationParameters::check` does not throw -/
def Params.check (p : Params) : Bool :=
  p.costModel == 0 && !(p.ow > 2 || p.ow < -1) && !(p.oy > dbl02 || p.oy < -dbl02)

/-! ### `LegalizerBase` -/

/-- per-cell input of a legalizer (width_, height_, polarity, target x/y/orientation) -/
structure LCell where
  w : Int
  h : Int
  pol : Polarity
  tx : Int
  ty : Int
  torient : Orient
deriving Repr, DecidableEq, Inhabited

/-- per-cell status (cellToX_, cellToY_, cellToOrientation_, cellIsPlaced_) -/
structure Pos where
  x : Int
  y : Int
  orient : Orient
  placed : Bool
deriving Repr, DecidableEq, Inhabited

structure Base where
  /-- `rows_`, sorted by (minY, minX) -/
  rows : List Row
  cells : List LCell
  pos : List Pos
deriving Repr, DecidableEq, Inhabited

/-- comparator of the row sort in the `LegalizerBase` constructor -/
def rowLt (a b : Row) : Bool :=
  a.rect.minY < b.rect.minY || (a.rect.minY == b.rect.minY && a.rect.minX < b.rect.minX)

/-- stable insertion (the new element comes from the left of everything already in the list) -/
def insertRow (x : Row) : List Row → List Row
  | [] => [x]
  | y :: ys => if rowLt y x then y :: insertRow x ys else x :: y :: ys

def sortRows (l : List Row) : List Row := l.foldr insertRow []

def initPos (c : LCell) : Pos := ⟨c.tx, c.ty, c.torient, false⟩

/-- `LegalizerBase::LegalizerBase` -/
def Base.mk' (rows : List Row) (cells : List LCell) : Base :=
  ⟨sortRows rows, cells, cells.map initPos⟩

/-- `std::lower_bound(rows_, y, r.minY < v)` on the sorted rows -/
def lowerBound (rows : List Row) (y : Int) : Nat :=
  rows.findIdx fun r => !(decide (r.rect.minY < y))

def rowAt (rows : List Row) (i : Nat) : Row := rows.getD i default

/-- `LegalizerBase::closestRow` (−1 when there is no row) -/
def closestRow (rows : List Row) (y : Int) : Int :=
  if lowerBound rows y = rows.length then (rows.length : Int) - 1
  else if lowerBound rows y = 0 then 0
  else if (rowAt rows (lowerBound rows y)).rect.minY - y > y - (rowAt rows (lowerBound rows y - 1)).rect.minY
    then (lowerBound rows y : Int) - 1
  else (lowerBound rows y : Int)

/-- `LegalizerBase::getOrientation` -/
def getOrientation (rows : List Row) (c : LCell) (row : Nat) : Orient :=
  if cellOrientationInRow c.pol (rowAt rows row).orient = Orient.UNKNOWN then c.torient
  else cellOrientationInRow c.pol (rowAt rows row).orient

/-- the ordering key of `computeCellOrder` (weightX = 1.0f) for rounding function `rnd` -/
def orderKey (rnd : Rat → Rat) (ww wy wh : Rat) (c : LCell) : Rat :=
  rnd (rnd (rnd (rnd (rnd 1 * rnd (c.tx : Rat)) + rnd (rnd ww * rnd (c.w : Rat)))
              + rnd (rnd wy * rnd (c.ty : Rat)))
        + rnd (rnd wh * rnd (c.h : Rat)))

/-- `std::pair<float,int>::operator<` -/
def keyLt (a b : Rat × Nat) : Bool := a.1 < b.1 || (a.1 == b.1 && a.2 < b.2)

def insertKey (x : Rat × Nat) : List (Rat × Nat) → List (Rat × Nat)
  | [] => [x]
  | y :: ys => if keyLt y x then y :: insertKey x ys else x :: y :: ys

def sortKeys (l : List (Rat × Nat)) : List (Rat × Nat) := l.foldr insertKey []

def keyed (rnd : Rat → Rat) (ww wy wh : Rat) : Nat → List LCell → List (Rat × Nat)
  | _, [] => []
  | i, c :: cs => (orderKey rnd ww wy wh c, i) :: keyed rnd ww wy wh (i + 1) cs

/-- `LegalizerBase::computeCellOrder(1.0, weightWidth, weightY, weightHeight)` -/
def computeCellOrder (rnd : Rat → Rat) (ww wy wh : Rat) (cells : List LCell) : List Nat :=
  (sortKeys (keyed rnd ww wy wh 0 cells)).map (·.2)

/-- obstacle rectangles of the placed cells (`remainingRows`) -/
def placedRects : List LCell → List Pos → List Rect
  | c :: cs, p :: ps =>
    if p.placed then ⟨p.x, p.x + c.w, p.y, p.y + c.h⟩ :: placedRects cs ps else placedRects cs ps
  | _, _ => []

/-- `LegalizerBase::remainingRows` -/
def Base.remainingRows (b : Base) : List Row :=
  b.rows.flatMap fun r => r.freespace (placedRects b.cells b.pos)

/-- `rows_.front().height()`; `none` = `rowHeight()` throws "No row present" -/
def rowHeight? (rows : List Row) : Option Int := rows.head?.map (·.rect.height)

/-! ### Tetris (cells taller than a row) -/

/-- one level of `getPossibleIntervals`: walks the rows from `closestRow(y)` while `minY == y` -/
def levelIvs (w y : Int) : List Row → List Int → List (Int × Int)
  | r :: rs, f :: fs =>
    if r.rect.minY ≠ y then []
    else if r.rect.maxX - w ≥ f then (f, r.rect.maxX - w) :: levelIvs w y rs fs
    else levelIvs w y rs fs
  | _, _ => []

def meetIv (i1 i2 : Int × Int) : Option (Int × Int) :=
  if i1.1 ≤ i2.2 && i2.1 ≤ i1.2 then some (max i1.1 i2.1, min i1.2 i2.2) else none

/-- the double loop at the end of `getPossibleIntervals` -/
def crossIvs (a b : List (Int × Int)) : List (Int × Int) :=
  a.flatMap fun i1 => b.filterMap (meetIv i1)

/-- index at which the per-level loops start -/
def startRow (rows : List Row) (y : Int) : Nat := (closestRow rows y).toNat

/-- `TetrisLegalizer::getPossibleIntervals(w, h, y)`; `fuel` bounds the recursion depth
(one level per row height; the callers pass `h.toNat + 1`, enough whenever `rowH ≥ 1`) -/
def possibleIvs (rows : List Row) (rowH : Int) (free : List Int) (w : Int) : Nat → Int → Int → List (Int × Int)
  | 0, _, _ => []
  | fuel + 1, h, y =>
    if h ≤ rowH || (levelIvs w y (rows.drop (startRow rows y)) (free.drop (startRow rows y))).isEmpty then
      levelIvs w y (rows.drop (startRow rows y)) (free.drop (startRow rows y))
    else
      crossIvs (levelIvs w y (rows.drop (startRow rows y)) (free.drop (startRow rows y)))
        (possibleIvs rows rowH free w fuel (h - rowH) (y + rowH))

/-- `std::clamp(x, b, e)` -/
def clamp (x b e : Int) : Int := if x < b then b else if e < x then e else x

def iabs (v : Int) : Int := if v < 0 then -v else v

/-- one iteration of the "closest available interval" loop of `attemptPlacement` -/
def closestStep (x : Int) (acc : Option Int) (iv : Int × Int) : Option Int :=
  match acc with
  | none => some (clamp x iv.1 iv.2)
  | some d => if iabs (clamp x iv.1 iv.2 - x) < iabs (d - x) then some (clamp x iv.1 iv.2) else some d

structure Tetris where
  rows : List Row
  rowH : Int
  free : List Int
deriving Repr, DecidableEq, Inhabited

/-- Which `TetrisLegalizer::attemptPlacement/placeCell` the working tree has: `false` = the
orientation (and the INVALID test) come from the first segment at that y (`closestRow(y)`);
`true` = after `fix: c04-tetris-row-orientation` (fixes/c04-tetris-row-orientation*.diff, owned by
C04): per segment.  Both variants are exercised against the real code by the C01 stream; they
coincide whenever all segments of one y have the same orientation.  Flip this constant together
with the application of that fix to /repo. -/
def tetrisPerSegmentOrientation : Bool := true

/-- `TetrisLegalizer::attemptPlacement(cell, y)`; `none` = `(false, 0)`.
(After fix c01-tetris-turned: the stored sizes are placed sizes, no swap.) -/
def attemptFirstSeg (t : Tetris) (c : LCell) (y : Int) : Option Int :=
  if getOrientation t.rows c (startRow t.rows y) = Orient.INVALID then none
  else (possibleIvs t.rows t.rowH t.free c.w (c.h.toNat + 1) c.h y).foldl (closestStep c.tx) none

/-- inner loop of the per-segment `attemptPlacement`: only the intervals lying in segment `r` -/
def closestInSeg (x w : Int) (r : Row) (acc : Option Int) (iv : Int × Int) : Option Int :=
  if iv.1 < r.rect.minX || iv.2 + w > r.rect.maxX then acc else closestStep x acc iv

/-- outer loop of the per-segment `attemptPlacement` over the segments with `minY == y` -/
def attemptSegs (rows : List Row) (c : LCell) (y : Int) (ivs : List (Int × Int)) : Nat → List Row → Option Int → Option Int
  | _, [], acc => acc
  | i, r :: rs, acc =>
    if r.rect.minY ≠ y then acc
    else if getOrientation rows c i = Orient.INVALID then attemptSegs rows c y ivs (i + 1) rs acc
    else attemptSegs rows c y ivs (i + 1) rs (ivs.foldl (closestInSeg c.tx c.w r) acc)

/-- `attemptPlacement` after `fix: c04-tetris-row-orientation` -/
def attemptPerSeg (t : Tetris) (c : LCell) (y : Int) : Option Int :=
  attemptSegs t.rows c y (possibleIvs t.rows t.rowH t.free c.w (c.h.toNat + 1) c.h y)
    (startRow t.rows y) (t.rows.drop (startRow t.rows y)) none

def attempt (t : Tetris) (c : LCell) (y : Int) : Option Int :=
  if tetrisPerSegmentOrientation then attemptPerSeg t c y else attemptFirstSeg t c y

/-- the `while` loop of the fixed `placeCell`: last segment at `y` starting at or left of `x` -/
def segOf (x y : Int) : Nat → List Row → Nat
  | i, r :: rs => if r.rect.minY == y && decide (r.rect.minX ≤ x) then segOf x y (i + 1) rs else i
  | i, [] => i

/-- row whose orientation the placed cell takes -/
def orientRow (rows : List Row) (x y : Int) : Nat :=
  if tetrisPerSegmentOrientation then segOf x y (startRow rows y) (rows.drop (startRow rows y + 1))
  else startRow rows y

structure Best where
  x : Int
  y : Int
  dist : Int
deriving Repr, DecidableEq, Inhabited

/-- the `tryPlace` lambda of `TetrisLegalizer::placeCell`; the Bool is `canStop` -/
def tetrisTry (t : Tetris) (c : LCell) (row : Nat) (b : Option Best) : Option Best × Bool :=
  match b with
  | some bb =>
    if iabs (c.ty - (rowAt t.rows row).rect.minY) ≥ bb.dist then (b, true)
    else match attempt t c (rowAt t.rows row).rect.minY with
      | none => (b, false)
      | some x =>
        if iabs (c.tx - x) + iabs (c.ty - (rowAt t.rows row).rect.minY) < bb.dist then
          (some ⟨x, (rowAt t.rows row).rect.minY, iabs (c.tx - x) + iabs (c.ty - (rowAt t.rows row).rect.minY)⟩, false)
        else (b, false)
  | none =>
    match attempt t c (rowAt t.rows row).rect.minY with
    | none => (none, false)
    | some x => (some ⟨x, (rowAt t.rows row).rect.minY,
                       iabs (c.tx - x) + iabs (c.ty - (rowAt t.rows row).rect.minY)⟩, false)

/-- a `for` loop over row indices with `break` when the body returns `true` -/
def scanRows {σ : Type} (f : Nat → σ → σ × Bool) : List Nat → σ → σ
  | [], s => s
  | r :: rs, s =>
    match f r s with
    | (s', true) => s'
    | (s', false) => scanRows f rs s'

/-- rows `initialRow … n−1` then `initialRow−1 … 0` -/
def upRows (n init : Nat) : List Nat := List.range' init (n - init)
def downRows (init : Nat) : List Nat := (List.range init).reverse

def searchRows {σ : Type} (f : Nat → σ → σ × Bool) (n init : Nat) (s : σ) : σ :=
  scanRows f (downRows init) (scanRows f (upRows n init) s)

/-- one level of `instanciateCell` -/
def markLevel (x w y : Int) : List Row → List Int → List Int
  | r :: rs, f :: fs =>
    if r.rect.minY ≠ y then f :: fs
    else (if x < r.rect.maxX && x + w > r.rect.minX then x + w else f) :: markLevel x w y rs fs
  | _, fs => fs

/-- `TetrisLegalizer::instanciateCell(x, y, w, h)` -/
def instanciate (rows : List Row) (rowH : Int) (x w : Int) : Nat → Int → Int → List Int → List Int
  | 0, _, _, free => free
  | fuel + 1, y, h, free =>
    if h ≤ 0 || w ≤ 0 then free
    else if h ≤ rowH then
      free.take (startRow rows y) ++ markLevel x w y (rows.drop (startRow rows y)) (free.drop (startRow rows y))
    else
      instanciate rows rowH x w fuel (y + rowH) (h - rowH)
        (free.take (startRow rows y) ++ markLevel x w y (rows.drop (startRow rows y)) (free.drop (startRow rows y)))

/-- `TetrisLegalizer::placeCell`: new free positions and the status of the cell -/
def tetrisPlace (t : Tetris) (c : LCell) : Tetris × Pos :=
  match searchRows (tetrisTry t c) t.rows.length (startRow t.rows c.ty) none with
  | none => (t, initPos c)
  | some b =>
    ({ t with free := instanciate t.rows t.rowH b.x c.w (c.h.toNat + 1) b.y c.h t.free },
     ⟨b.x, b.y, getOrientation t.rows c (orientRow t.rows b.x b.y), true⟩)

/-- `TetrisLegalizer::run` over the cells in order; statuses in the same order -/
def tetrisRun : Tetris → List LCell → List Pos
  | _, [] => []
  | t, c :: cs =>
    match tetrisPlace t c with
    | (t', p) => p :: tetrisRun t' cs

/-- constructor of `TetrisLegalizer` (rows sorted again, `rowFreePos_ = minX`) -/
def Tetris.init (rows : List Row) : Tetris :=
  ⟨sortRows rows, ((sortRows rows).head?.map (·.rect.height)).getD 0, (sortRows rows).map (·.rect.minX)⟩

/-! ### Abacus (row-high cells) -/

/-- `int dist = <long long>` (pre-fix narrowing in `evaluatePlacement`; legacy model only) -/
def wrap32 (v : Int) : Int := (v + 2147483648) % 4294967296 - 2147483648

structure Abacus where
  rows : List Row
  legs : List RowLeg.State
  /-- `rowToCells_`, in push order -/
  rowCells : List (List Nat)
deriving Repr, DecidableEq, Inhabited

def Abacus.init (rows : List Row) : Abacus :=
  ⟨sortRows rows, (sortRows rows).map (fun r => RowLeg.State.new r.rect.minX r.rect.maxX),
   (sortRows rows).map (fun _ => [])⟩

structure ABest where
  row : Nat
  dist : Int
deriving Repr, DecidableEq, Inhabited

def legAt (legs : List RowLeg.State) (i : Nat) : RowLeg.State := legs.getD i default

/-- `evaluatePlacement` succeeds for this row -/
def canEval (rows : List Row) (legs : List RowLeg.State) (c : LCell) (row : Nat) : Bool :=
  !(decide ((legAt legs row).remaining < c.w)) && getOrientation rows c row != Orient.INVALID

/-- `if (bestRow == -1 || dist < bestDist) { bestRow = row; bestDist = dist; }` -/
def abacusBetter (b : Option ABest) (row : Nat) (dist : Int) : Option ABest :=
  match b with
  | some bb => if dist < bb.dist then some ⟨row, dist⟩ else some bb
  | none => some ⟨row, dist⟩

/-- `bestRow != -1 && yDist > bestDist` -/
def abacusStop (b : Option ABest) (yDist : Int) : Bool :=
  match b with
  | some bb => decide (yDist > bb.dist)
  | none => false

/-- the `tryPlace` lambda of `AbacusLegalizer::placeCell`.  State: the row legalizers (whose
queues `getCost` pops and refills) and the best row so far. -/
def abacusTry (rows : List Row) (c : LCell) (row : Nat) (s : List RowLeg.State × Option ABest) :
    (List RowLeg.State × Option ABest) × Bool :=
  if (rowAt rows row).rect.height ≠ c.h then (s, false)
  else if abacusStop s.2 (c.w * iabs ((rowAt rows row).rect.minY - c.ty)) then (s, true)
  else if !canEval rows s.1 c row then (s, false)
  else
    match RowLeg.getCost (legAt s.1 row) c.w c.tx with
    | (cost, leg') =>
      ((s.1.set row leg', abacusBetter s.2 row (cost + c.w * iabs ((rowAt rows row).rect.minY - c.ty))), false)

/-- `AbacusLegalizer::placeCell(cell)`; the Bool says whether the cell was placed -/
def abacusPlace (a : Abacus) (i : Nat) (c : LCell) : Abacus × Bool :=
  match searchRows (abacusTry a.rows c) a.rows.length (startRow a.rows c.ty) (a.legs, none) with
  | (legs, none) => ({ a with legs := legs }, false)
  | (legs, some b) =>
    ({ a with legs := legs.set b.row (RowLeg.push (legAt legs b.row) c.w c.tx).2,
              rowCells := a.rowCells.set b.row (a.rowCells.getD b.row [] ++ [i]) }, true)

/-- the `placeCell` loop of `AbacusLegalizer::run`: final state and the placed flags -/
def abacusLoop : Abacus → Nat → List LCell → Abacus × List Bool
  | a, _, [] => (a, [])
  | a, i, c :: cs =>
    match abacusPlace a i c with
    | (a', ok) =>
      match abacusLoop a' (i + 1) cs with
      | (a'', oks) => (a'', ok :: oks)

/-- write the placement of one row back (`cellToX_/Y_/Orientation_`) -/
def writeRow (rows : List Row) (cells : List LCell) (row : Nat) : List Nat → List Int → List Pos → List Pos
  | c :: cs, x :: xs, pos =>
    writeRow rows cells row cs xs
      (pos.set c ⟨x, (rowAt rows row).rect.minY, getOrientation rows (cells.getD c default) row, true⟩)
  | _, _, pos => pos

def writeRows (rows : List Row) (cells : List LCell) : Nat → List (List Nat) → List RowLeg.State → List Pos → List Pos
  | i, rc :: rcs, leg :: legs, pos =>
    writeRows rows cells (i + 1) rcs legs (writeRow rows cells i rc (RowLeg.placement leg) pos)
  | _, _, _, pos => pos

def posAt (pos : List Pos) (i : Nat) : Pos := pos.getD i default
def cellAt (cells : List LCell) (i : Nat) : LCell := cells.getD i default

/-- the per-row bounds test of `AbacusLegalizer::check` -/
def rowBoundsOk (cells : List LCell) (pos : List Pos) (r : Row) (rc : List Nat) : Bool :=
  rc.all fun c => !(decide ((posAt pos c).x < r.rect.minX)) &&
                  !(decide ((posAt pos c).x + (cellAt cells c).w > r.rect.maxX))

/-- the consecutive-overlap test of `AbacusLegalizer::check` -/
def rowOrderOk (cells : List LCell) (pos : List Pos) : List Nat → Bool
  | c1 :: c2 :: cs =>
    !(decide ((posAt pos c1).x + (cellAt cells c1).w > (posAt pos c2).x)) && rowOrderOk cells pos (c2 :: cs)
  | _ => true

def zipAll {α β : Type} (p : α → β → Bool) : List α → List β → Bool
  | a :: as, b :: bs => p a b && zipAll p as bs
  | _, _ => true

/-- error classes; the C++ throws `std::runtime_error` for each of them -/
inductive Err
  | params        -- `params.check()`
  | noRow         -- `rowHeight()`: "No row present"
  | rowHeights    -- `LegalizerBase::check`: "Rows have different heights"
  | abacusCheck   -- `AbacusLegalizer::check`: a cell outside its row or an overlap
  | notAllPlaced  -- `checkAllPlaced`
deriving Repr, DecidableEq, Inhabited

/-- `AbacusLegalizer::check` (the size checks of `LegalizerBase::check` cannot fail) -/
def abacusCheck (rows : List Row) (cells : List LCell) (rowCells : List (List Nat)) (pos : List Pos) :
    Except Err Unit :=
  if !(rows.all fun r => r.rect.height == ((rows.head?.map (·.rect.height)).getD 0)) then .error .rowHeights
  else if !(zipAll (rowBoundsOk cells pos) rows rowCells) then .error .abacusCheck
  else if !(rowCells.all (rowOrderOk cells pos)) then .error .abacusCheck
  else .ok ()

/-- `AbacusLegalizer` constructed on `rows` and run on `cells`: final statuses -/
def abacusRun (rows : List Row) (cells : List LCell) : Except Err (List Pos) :=
  match abacusLoop (Abacus.init rows) 0 cells with
  | (a, _) =>
    match abacusCheck a.rows cells a.rowCells (writeRows a.rows cells 0 a.rowCells a.legs (cells.map initPos)) with
    | .error e => .error e
    | .ok _ => .ok (writeRows a.rows cells 0 a.rowCells a.legs (cells.map initPos))

/-! ### `Legalizer` -/

/-- `importLegalization`: `sel[i]` is the index in the main legalizer of sub-cell `i` -/
def importPos : List Nat → List Pos → List Pos → List Pos
  | c :: cs, p :: ps, pos => importPos cs ps (if p.placed then pos.set c p else pos)
  | _, _, pos => pos

/-- the cells of the order that `runTetris` hands to the Tetris legalizer -/
def tetrisSel (b : Base) (rowH : Int) (order : List Nat) : List Nat :=
  order.filter fun c => !(posAt b.pos c).placed && !(decide ((cellAt b.cells c).h ≤ rowH))

/-- the cells of the order that `runAbacus` hands to the Abacus legalizer -/
def abacusSel (b : Base) (rowH : Int) (order : List Nat) : List Nat :=
  order.filter fun c => !(posAt b.pos c).placed && !(decide ((cellAt b.cells c).h ≠ rowH))

/-- `Legalizer::runTetris` -/
def runTetris (b : Base) (order : List Nat) : Except Err Base :=
  match rowHeight? b.rows with
  | none => if order.isEmpty then .ok b else .error .noRow
  | some rowH =>
    .ok { b with pos := importPos (tetrisSel b rowH order)
                          (tetrisRun (Tetris.init b.remainingRows) ((tetrisSel b rowH order).map (cellAt b.cells)))
                          b.pos }

/-- `Legalizer::runAbacus` -/
def runAbacus (b : Base) (order : List Nat) : Except Err Base :=
  match rowHeight? b.rows with
  | none => if order.isEmpty then .ok b else .error .noRow
  | some rowH =>
    match abacusRun b.remainingRows ((abacusSel b rowH order).map (cellAt b.cells)) with
    | .error e => .error e
    | .ok ps => .ok { b with pos := importPos (abacusSel b rowH order) ps b.pos }

/-- `checkAllPlaced` -/
def checkAllPlaced (b : Base) : Except Err Unit :=
  if b.pos.all (·.placed) then .ok () else .error .notAllPlaced

/-- `Legalizer::run` for rounding function `rnd` -/
def run (rnd : Rat → Rat) (p : Params) (b : Base) : Except Err Base :=
  match runTetris b (computeCellOrder rnd p.ow p.oy p.oh b.cells) with
  | .error e => .error e
  | .ok b1 =>
    match runAbacus b1 (computeCellOrder rnd p.ow p.oy p.oh b.cells) with
    | .error e => .error e
    | .ok b2 =>
      match checkAllPlaced b2 with
      | .error e => .error e
      | .ok _ => .ok b2

/-- the movable cells in index order with placed sizes (`Legalizer::fromIspdCircuit`) -/
def movable (c : Circuit) : List LCell :=
  (c.cells.filter fun cl => !cl.fixed).map fun cl =>
    ⟨cl.placedWidth, cl.placedHeight, cl.pol, cl.x, cl.y, cl.orient⟩

def fromCircuit (c : Circuit) : Base := Base.mk' c.computeRows (movable c)

/-- `Legalizer::exportPlacement`: walks the cells, consuming one status per movable cell -/
def exportCells : List Cell → List Pos → List Cell
  | [], _ => []
  | cl :: cls, ps =>
    if cl.fixed then cl :: exportCells cls ps
    else match ps with
      | [] => cl :: exportCells cls []      -- unreachable: as many statuses as movable cells
      | p :: ps' =>
        (if p.placed then { cl with x := p.x, y := p.y, orient := p.orient } else cl) :: exportCells cls ps'

def exportPlacement (b : Base) (c : Circuit) : Circuit := { c with cells := exportCells c.cells b.pos }

/-- `Circuit::legalize(params)` for rounding function `rnd`.
`params.check()` covers the legalization block only; the global and detailed blocks are assumed
valid (the harness draws them from the accepted range). -/
def legalizeWith (rnd : Rat → Rat) (p : Params) (c : Circuit) : Except Err Circuit :=
  if !p.check then .error .params
  else match run rnd p (fromCircuit c) with
    | .error e => .error e
    | .ok b => .ok (exportPlacement b c)

/-- `Circuit::legalize` as compiled: binary32 ordering key -/
def legalize (p : Params) (c : Circuit) : Except Err Circuit := legalizeWith f32 p c

/-- `Circuit::legalize` with the idealised (exact) ordering key -/
def legalizeExact (p : Params) (c : Circuit) : Except Err Circuit := legalizeWith id p c

end ColoVerif.Legalize
