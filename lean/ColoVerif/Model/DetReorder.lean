import ColoVerif.Model.DetIncr
/-
Model of `class RowReordering` (src/place_detailed/place_detailed.cpp): the exhaustive reordering of a
window of cells over a few row segments ("regions").

  RowReordering(placement, xtopo, ytopo)   `RowReord.new`: bestVal_ = LLONG_MAX, improvement_ = false
  addRow(row, cellPred, cellNext)          `addRow`: the region (row, minPos = boundaryAfter(row, cellPred),
                                            maxPos = boundaryBefore(row, cellNext)), its cells
                                            (`cellsBetween`) appended to cells_, to bestOrder_ and (their
                                            abscissas) to bestPositions_; an empty order_/positions_ entry
  addCells(cells)                          `addCells`: one region per maximal run of window cells
  allocatedWidth(region)                   `allocatedWidth`
  run()                                    `run`: bestVal_ = value(); sort cells_ decreasing;
                                            runRegionChoice(size-1); (writeback is on the placement:
                                            `Placer.reorderWindow` / `State.reorderWindow`)
  runRegionChoice(cellInd)                 `runRegionChoice (cellInd+1)`: for every region in index order
                                            push the cell, test `allocatedWidth <= width && isRowAllowed`,
                                            tell ytopo_ the row's y, recurse; `assert(back == cell)`; pop
  runOrdering(rowInd)                      `runOrdering (rowInd+1)`: `while (next_permutation(order_[rowInd]))`
                                            { positions_[rowInd] = packed from minPos; xtopo_ told; recurse };
                                            leaf: `value = xtopo_.value() + ytopo_.value()`,
                                            `if (value < bestVal_)` keep (strict)
  writeback()                              improvement_: `reorderWriteback cells_ (bestOrder_ × bestPositions_)`
                                            (unplace all, place region by region); otherwise `restore cells_`

The enumeration only *reads* the placement (`cellWidth`, `isRowAllowed`, `rowY`) and only *writes* the two
incremental net models through `updateCellPos`.  It is written once, over an abstract `Store` (set x of a
cell, set y of a cell, read the value): `modelStore` = the two `IncrNet.Model`s (what the driver
executes), `pureStore V` = the two coordinate vectors with any position-only objective `V` (what the
theorems of Properties/C05 speak about); Proofs/DetReorderSim.lean shows they run in lock step.

Things worth knowing about the code (all modelled as they are):
* `std::next_permutation` is called *before* the first evaluation, so the order the enumeration starts
  from (cells by increasing index) is never evaluated for the topmost region, and a region that is
  given 0 or 1 cell by the region choice makes the whole choice evaluate *nothing*
  (`next_permutation` of a 0/1-element range returns false at once);
* the positions of an order are the cells packed to the left from `minPos`;
* `assert(order_[i].back() == cells_[cellInd])` relies on `next_permutation` handing the range back
  sorted: ghost flag `assertFail` (never set by the enumeration when the registered cells are distinct and
  non-negative: `run_spec`, Proofs/DetReorderChoice.lean).

Ghost fields (not in the C++): `leaves` (every evaluated leaf with the value read there, most recent
first — its length is the `verifNbLeaves_` counter of hook H3b), `fuelOut` (the `while` loop of
`runOrdering` is run with fuel `permFuel`, proved sufficient in Proofs/DetReorderPerm.lean for
non-negative cell indices), `assertFail`.
-/
namespace ColoVerif.DetPlace

/-- what `RowReordering` needs from `xtopo_` / `ytopo_` -/
structure Store (σ : Type) where
  /-- `xtopo_.updateCellPos(c, v)` -/
  setX : σ → Int → Int → σ
  /-- `ytopo_.updateCellPos(c, v)` -/
  setY : σ → Int → Int → σ
  /-- `xtopo_.value() + ytopo_.value()` -/
  value : σ → Int

/-- the two incremental net models -/
def modelStore : Store (IncrNet.Model × IncrNet.Model) where
  setX m c v := (m.1.updateCellPos c.toNat v, m.2)
  setY m c v := (m.1, m.2.updateCellPos c.toNat v)
  value m := m.1.value + m.2.value

/-- the coordinate vectors the two models hold, with a position-only objective -/
def pureStore (V : Value) : Store ((Int → Int) × (Int → Int)) where
  setX f c v := (upd f.1 c v, f.2)
  setY f c v := (f.1, upd f.2 c v)
  value f := V f.1 f.2

/-- `struct ReorderingRegion` -/
structure RRegion where
  row : Int
  minPos : Int
  maxPos : Int
  cellPred : Int
  cellNext : Int
deriving Repr, DecidableEq, Inhabited

def RRegion.width (g : RRegion) : Int := g.maxPos - g.minPos

/-- `class RowReordering` (+ ghost fields) -/
structure RowReord (σ : Type) where
  regions : List RRegion
  cells : List Int
  order : List (List Int)
  positions : List (List Int)
  bestVal : Int
  bestOrder : List (List Int)
  bestPositions : List (List Int)
  improvement : Bool
  store : σ
  /-- ghost: evaluated leaves, most recent first -/
  leaves : List Leaf
  /-- ghost: a `next_permutation` loop ran out of fuel -/
  fuelOut : Bool
  /-- ghost: an `assert` of the class would have fired -/
  assertFail : Bool

def llongMax : Int := 9223372036854775807

/-- the constructor -/
def RowReord.new {σ : Type} (st : σ) : RowReord σ :=
  { regions := [], cells := [], order := [], positions := [], bestVal := llongMax, bestOrder := [],
    bestPositions := [], improvement := false, store := st, leaves := [], fuelOut := false, assertFail := false }

namespace State

/-- the loop of `cellsBetween`: `for (c = first; c != cellAfter; c = cellNext(c)) { if (c == -1) throw; push }` -/
def cellsUntil (s : State) (stop : Int) : Nat → Int → Except Err (List Int)
  | 0, _ => .error .guard
  | fuel + 1, c =>
    if c = stop then .ok []
    else if c = -1 then .error .runtime
    else match cellsUntil s stop fuel (s.next c) with
      | .error e => .error e
      | .ok l => .ok (c :: l)

/-- `cellsBetween(row, cellBefore, cellAfter)` -/
def cellsBetween (s : State) (r before after : Int) : Except Err (List Int) :=
  if before ≠ -1 ∧ s.row before ≠ r then .error .runtime
  else if after ≠ -1 ∧ s.row after ≠ r then .error .runtime
  else s.cellsUntil after (s.nCells + 1) (s.siteNext r before)

end State

/-- `addRow(row, cellPred, cellNext)` -/
def addRow {σ : Type} (s : State) (rr : RowReord σ) (r cp cn : Int) : Except Err (RowReord σ) :=
  match s.cellsBetween r cp cn with
  | .error e => .error e
  | .ok cs =>
    .ok { rr with
      regions := rr.regions ++ [⟨r, s.boundaryAfterIn r cp, s.boundaryBeforeIn r cn, cp, cn⟩]
      cells := rr.cells ++ cs
      bestOrder := rr.bestOrder ++ [cs]
      bestPositions := rr.bestPositions ++ [cs.map s.x]
      order := rr.order ++ [[]]
      positions := rr.positions ++ [[]]
      assertFail := rr.assertFail || !(decide (cp ≠ cn ∨ cp = -1)) || !(decide (cp = -1 ∨ s.row cp = r))
                    || !(decide (cn = -1 ∨ s.row cn = r)) }

/-- `while (cell_set.count(cellNext)) cellNext = placement_.cellNext(cellNext);` -/
def runEnd (s : State) (window : List Int) : Nat → Int → Except Err Int
  | 0, _ => .error .guard
  | fuel + 1, c => if window.contains c then runEnd s window fuel (s.next c) else .ok c

/-- the loop of `addCells` over the remaining cells `todo` of the window -/
def addCellsLoop {σ : Type} (s : State) (window : List Int) : List Int → RowReord σ → Except Err (RowReord σ)
  | [], rr => .ok rr
  | c :: rest, rr =>
    if window.contains (s.pred c) then addCellsLoop s window rest rr
    else match runEnd s window (s.nCells + 1) c with
      | .error e => .error e
      | .ok cn =>
        match addRow s rr (s.row c) (s.pred c) cn with
        | .error e => .error e
        | .ok rr' => addCellsLoop s window rest rr'

/-- `addCells(cells)` -/
def addCells {σ : Type} (s : State) (rr : RowReord σ) (window : List Int) : Except Err (RowReord σ) :=
  addCellsLoop s window window rr

/-! ### `std::next_permutation` -/

/-- in the suffix (a non-increasing run) replace the *rightmost* element greater than `a` by `a`;
returns that element and the new suffix: `while (!(*i < *--j)); iter_swap(i, j)` -/
def swapRightmost (a : Int) : List Int → Option (Int × List Int)
  | [] => none
  | h :: t =>
    match swapRightmost a t with
    | some r => some (r.1, h :: r.2)
    | none => if a < h then some (h, a :: t) else none

/-- scan from the right: `suf` is the part already seen (a non-increasing suffix, in list order),
the second argument the rest of the range reversed -/
def nextPermGo : List Int → List Int → Option (List Int)
  | _, [] => none
  | [], _ :: _ => none
  | h :: suf, a :: rest =>
    if a < h then
      match swapRightmost a (h :: suf) with
      | some r => some (rest.reverse ++ r.1 :: r.2.reverse)
      | none => none
    else nextPermGo (a :: h :: suf) rest

/-- `std::next_permutation(first, last)`: (returned bool, the range afterwards) -/
def nextPerm (l : List Int) : Bool × List Int :=
  match l.reverse with
  | [] => (false, l)
  | x :: rest =>
    match nextPermGo [x] rest with
    | some l' => (true, l')
    | none => (false, l.reverse)

/-- fuel for the `while (next_permutation(..))` loop on `l`: `(1 + max l) ^ |l|` (the base-`(1+max)`
number read off the range strictly increases with every successful call) -/
def permFuel (l : List Int) : Nat := (l.foldl (fun m c => max m c.toNat) 0 + 1) ^ l.length

/-! ### the enumeration -/

/-- the regions a leaf would write back: region i = (row, cellPred, order_[i] zipped with positions_[i]) -/
def leafRegions : List RRegion → List (List Int) → List (List Int) → List Region
  | g :: gs, o :: os, p :: ps => ⟨g.row, g.cellPred, o.zip p⟩ :: leafRegions gs os ps
  | _, _, _ => []

/-- `allocatedWidth(region)` -/
def allocatedWidth (s : State) (l : List Int) : Int := l.foldl (fun acc c => acc + s.width c) 0

/-- `positions_[rowInd]` after the set-up loop: the cells packed from `predPos` -/
def packPos (s : State) : Int → List Int → List Int
  | _, [] => []
  | pos, c :: cs => pos :: packPos s (pos + s.width c) cs

/-- the `xtopo_.updateCellPos(c, predPos)` calls of the set-up loop -/
def packStore {σ : Type} (S : Store σ) (s : State) : Int → List Int → σ → σ
  | _, [], st => st
  | pos, c :: cs, st => packStore S s (pos + s.width c) cs (S.setX st c pos)

/-- the leaf case of `runOrdering` -/
def evalLeaf {σ : Type} (S : Store σ) (rr : RowReord σ) : RowReord σ :=
  if S.value rr.store < rr.bestVal then
    { rr with bestVal := S.value rr.store, bestOrder := rr.order, bestPositions := rr.positions, improvement := true,
              leaves := ⟨S.value rr.store, leafRegions rr.regions rr.order rr.positions⟩ :: rr.leaves }
  else
    { rr with leaves := ⟨S.value rr.store, leafRegions rr.regions rr.order rr.positions⟩ :: rr.leaves }

/-- the body of the `while` loop of `runOrdering(j)` before the recursive call, `o` being the range
`next_permutation` left in `order_[j]` -/
def setupRow {σ : Type} (S : Store σ) (s : State) (j : Nat) (o : List Int) (rr : RowReord σ) : RowReord σ :=
  { rr with
    order := rr.order.set j o
    positions := rr.positions.set j (packPos s (rr.regions.getD j default).minPos o)
    store := packStore S s (rr.regions.getD j default).minPos o rr.store }

/-- `while (std::next_permutation(order_[j])) { set-up; runOrdering(j - 1); }` with fuel -/
def permLoop {σ : Type} (S : Store σ) (s : State) (rec : RowReord σ → RowReord σ) (j : Nat) :
    Nat → RowReord σ → RowReord σ
  | 0, rr => { rr with fuelOut := true }
  | fuel + 1, rr =>
    if (nextPerm (rr.order.getD j [])).1 then
      permLoop S s rec j fuel (rec (setupRow S s j (nextPerm (rr.order.getD j [])).2 rr))
    else { rr with order := rr.order.set j (nextPerm (rr.order.getD j [])).2 }

/-- `runOrdering(rowInd)` with `j = rowInd + 1` -/
def runOrdering {σ : Type} (S : Store σ) (s : State) : Nat → RowReord σ → RowReord σ
  | 0, rr => evalLeaf S rr
  | j + 1, rr => permLoop S s (runOrdering S s j) j (permFuel (rr.order.getD j [])) rr

/-- `order_[i].push_back(c)` -/
def pushBack {σ : Type} (i : Nat) (c : Int) (rr : RowReord σ) : RowReord σ :=
  { rr with order := rr.order.modify i (· ++ [c]) }

/-- `assert(order_[i].back() == c); order_[i].pop_back()` -/
def popBack {σ : Type} (i : Nat) (c : Int) (rr : RowReord σ) : RowReord σ :=
  { rr with order := rr.order.modify i List.dropLast,
            assertFail := rr.assertFail || ((rr.order.getD i []).getLast? != some c) }

/-- `ytopo_.updateCellPos(c, y)` -/
def tellY {σ : Type} (S : Store σ) (c y : Int) (rr : RowReord σ) : RowReord σ :=
  { rr with store := S.setY rr.store c y }

/-- one iteration of the `for` loop of `runRegionChoice` for region `i` and cell `c` -/
def regionStep {σ : Type} (S : Store σ) (s : State) (rec : RowReord σ → RowReord σ) (c : Int)
    (rr : RowReord σ) (i : Nat) : RowReord σ :=
  popBack i c
    (if allocatedWidth s (rr.order.getD i [] ++ [c]) ≤ (rr.regions.getD i default).width ∧
        s.isRowAllowed c (rr.regions.getD i default).row = true then
       rec (tellY S c (s.rowY (rr.regions.getD i default).row) (pushBack i c rr))
     else pushBack i c rr)

/-- `runRegionChoice(cellInd)` with `k = cellInd + 1` -/
def runRegionChoice {σ : Type} (S : Store σ) (s : State) : Nat → RowReord σ → RowReord σ
  | 0, rr => runOrdering S s rr.regions.length rr
  | k + 1, rr =>
    (List.range rr.regions.length).foldl (regionStep S s (runRegionChoice S s k) (rr.cells.getD k 0)) rr

/-- `std::sort(cells_, std::greater<int>())` -/
def insertDesc (c : Int) : List Int → List Int
  | [] => [c]
  | d :: ds => if d ≤ c then c :: d :: ds else d :: insertDesc c ds

def sortDesc (l : List Int) : List Int := l.foldr insertDesc []

/-- `run()` up to (excluding) `writeback()` -/
def RowReord.run {σ : Type} (S : Store σ) (s : State) (rr : RowReord σ) : RowReord σ :=
  runRegionChoice S s rr.cells.length
    { rr with bestVal := S.value rr.store, cells := sortDesc rr.cells }

/-- the regions `writeback` writes when `improvement_` -/
def RowReord.bestRegions {σ : Type} (rr : RowReord σ) : List Region :=
  leafRegions rr.regions rr.bestOrder rr.bestPositions

/-! ### one window: `runReorderingOnCells(cells)` = construct, `addCells`, `run` (with `writeback`) -/

/-- what hook H3b reports at the end of `RowReordering::run` -/
structure WindowInfo where
  cells : List Int
  regions : List RRegion
  nbLeaves : Nat
  bestVal : Int
  improvement : Bool
  fuelOut : Bool
  assertFail : Bool
  /-- `DetailedPlacer::value()` when `run` returns (after `writeback`) -/
  valueAfter : Int
deriving Repr, DecidableEq, Inhabited

def RowReord.info {σ : Type} (rr : RowReord σ) (valueAfter : Int) : WindowInfo :=
  ⟨rr.cells, rr.regions, rr.leaves.length, rr.bestVal, rr.improvement, rr.fuelOut, rr.assertFail, valueAfter⟩

/-- `writeback()` on the whole object, the two models being the ones the enumeration left -/
def Placer.writeback (p : Placer) (rr : RowReord (IncrNet.Model × IncrNet.Model)) : Except Err Placer :=
  if rr.improvement then
    ({ p with xt := rr.store.1, yt := rr.store.2 } : Placer).reorderWriteback rr.cells rr.bestRegions
  else .ok (({ p with xt := rr.store.1, yt := rr.store.2 } : Placer).restore rr.cells)

/-- `DetailedPlacer::runReorderingOnCells(cells)`: the object afterwards, the write-back performed (as
the `Op` hook H3 logs — none when no leaf was better) and the window's report -/
def Placer.reorderWindow (p : Placer) (window : List Int) : Except Err (Placer × List Op × WindowInfo) :=
  match addCells p.pl (RowReord.new (p.xt, p.yt)) window with
  | .error e => .error e
  | .ok rr0 =>
    match p.writeback (rr0.run modelStore p.pl) with
    | .error e => .error e
    | .ok q =>
      .ok (q, (if (rr0.run modelStore p.pl).improvement
               then [Op.reorder (rr0.run modelStore p.pl).cells (rr0.run modelStore p.pl).bestRegions] else []),
           (rr0.run modelStore p.pl).info q.value)

/-- the same on the placement alone, for any position-only objective -/
def State.reorderWindow (V : Value) (s : State) (window : List Int) : Except Err State :=
  match addCells s (RowReord.new (s.x, s.y)) window with
  | .error e => .error e
  | .ok rr0 =>
    if (rr0.run (pureStore V) s).improvement then
      s.reorderWriteback (rr0.run (pureStore V) s).cells (rr0.run (pureStore V) s).bestRegions
    else .ok s

end ColoVerif.DetPlace
