import ColoVerif.Model.Freespace
/-
Model of the density grid and of the hierarchical cell-to-bin allocation
(src/place_global/density_grid.{hpp,cpp}, `computeSubdivisions` of
src/utils/helpers.hpp) and *skeletons* of the redistribution steps of the rough
legalizer (src/place_global/density_legalizer.cpp).   Core Lean only.

Conventions
* C++ `int`/`long long` coordinates, capacities and demands are unbounded `Int`;
  bin / level / cell indices are `Nat` (they are non-negative in the code; the
  only signed index arithmetic, `(e + b) / 2` in `refine`, is on non-negative
  values where `/` on `int` and on `Nat` agree).  `cellBinX_/cellBinY_` are
  `List Int` because of the `-1` sentinel.
* `DensityGrid::fromIspdCircuit` multiplies a `float` by an `int`:
  `int margin = sideMargin * minCellHeight`, `binSize = sizeFactor * minCellHeight`.
  This is modelled *exactly* (`floatMulTrunc`): the exact product of the float
  (given as mantissa·2^exp) and the integer is rounded to a 24-bit significand,
  ties to even (IEEE-754 binary32 multiplication; the int→float conversion is
  exact for |h| < 2^24, which is the modelled domain), then truncated toward zero.
* float quantities that do not influence the allocation structure (`binX_`,
  `binY_`, group centres, costs) are not modelled: the redistribution steps are
  parametric in the permutation / split index / assignment vector that the float
  costs select (`rebisectSk`, `reoptimizeSk`, `improveXTransportSk`, …), all of
  them instances of `redistribute`.
* `binSize = 0` (division by zero in `updateBinsToSize`) is outside the domain
  (`RoughLegalizationParameters::check` demands `binSize ≥ 1` and there is a cell
  of positive height); `Int.tdiv _ 0 = 0` here.
-/
namespace ColoVerif.Grid

/-! ### `computeSubdivisions` -/

/-- `min + (i * (max - min) / number)` -/
def subdivAt (mn mx : Int) (number : Nat) (i : Nat) : Int :=
  mn + Int.tdiv ((i : Int) * (mx - mn)) (number : Int)

/-- `computeSubdivisions(min, max, number)` -/
def computeSubdivisions (mn mx : Int) (number : Nat) : List Int :=
  (List.range (number + 1)).map (subdivAt mn mx number)

/-! ### `DensityGrid` -/

structure DGrid where
  limX : List Int
  limY : List Int
  /-- `binCapacity_[x][y]` -/
  cap : List (List Int)
deriving Repr, DecidableEq, Inhabited

/-- one step of the min/max loop of `computePlacementArea` -/
def areaStep (a r : Rect) : Rect :=
  ⟨min r.minX a.minX, max r.maxX a.maxX, min r.minY a.minY, max r.maxY a.maxY⟩

/-- `DensityGrid::computePlacementArea` (the INT_MAX/INT_MIN start values are absorbed by
the first region) -/
def computePlacementArea : List Rect → Rect
  | [] => ⟨0, 0, 0, 0⟩
  | r :: rs => rs.foldl areaStep r

/-- `std::max(1, extent / maxSize)` of `updateBinsToSize` -/
def nbBinsFor (extent maxSize : Int) : Nat := (max 1 (Int.tdiv extent maxSize)).toNat

/-- `DensityGrid::region(i, j)` from the two limit vectors -/
def regionOf (limX limY : List Int) (i j : Nat) : Rect :=
  ⟨limX.getD i 0, limX.getD (i + 1) 0, limY.getD j 0, limY.getD (j + 1) 0⟩

/-- contribution of one region to one bin in `updateBinCapacity(regions)` -/
def interArea (reg bin : Rect) : Int :=
  if reg.intersects bin then (Rect.intersection reg bin).area else 0

/-- value of `binCapacity_[i][j]` after `updateBinCapacity(regions)` -/
def binCapOf (limX limY : List Int) (regions : List Rect) (i j : Nat) : Int :=
  (regions.map fun reg => interArea reg (regionOf limX limY i j)).sum

/-- `updateBinCapacity(regions)` -/
def capacities (limX limY : List Int) (regions : List Rect) : List (List Int) :=
  (List.range (limX.length - 1)).map fun i =>
    (List.range (limY.length - 1)).map fun j => binCapOf limX limY regions i j

namespace DGrid
def nbX (g : DGrid) : Nat := g.limX.length - 1
def nbY (g : DGrid) : Nat := g.limY.length - 1
def region (g : DGrid) (i j : Nat) : Rect := regionOf g.limX g.limY i j
def binCapacity (g : DGrid) (i j : Nat) : Int := (g.cap.getD i []).getD j 0
/-- `DensityGrid::placementArea()` -/
def placementArea (g : DGrid) : Rect :=
  ⟨g.limX.headD 0, g.limX.getLastD 0, g.limY.headD 0, g.limY.getLastD 0⟩
/-- `DensityGrid::totalCapacity` -/
def totalCapacity (g : DGrid) : Int := (g.cap.map List.sum).sum
/-- `DensityGrid::binCapacity(BinGroup)` -/
def groupCapacity (g : DGrid) (x0 x1 y0 y1 : Nat) : Int :=
  ((List.range (x1 - x0)).map fun di =>
    ((List.range (y1 - y0)).map fun dj => g.binCapacity (x0 + di) (y0 + dj)).sum).sum

/-- `DensityGrid(binSize, regions)` -/
def ofRegions (binSize : Int) (regions : List Rect) : DGrid :=
  let a := computePlacementArea regions
  let lx := computeSubdivisions a.minX a.maxX (nbBinsFor a.width binSize)
  let ly := computeSubdivisions a.minY a.maxY (nbBinsFor a.height binSize)
  ⟨lx, ly, capacities lx ly regions⟩
end DGrid

/-! ### `DensityGrid::fromIspdCircuit` -/

/-- minimum positive cell height (`INT_MAX` when there is none) -/
def minCellHeight (c : Circuit) : Int :=
  c.cells.foldl (fun m cl => if cl.h > 0 then min cl.h m else m) 2147483647

/-- round a positive integer to 24 significant bits, ties to even: returns `(q, s)` with value `q·2^s` -/
def round24 (m : Nat) : Nat × Nat :=
  let len := if m = 0 then 0 else Nat.log2 m + 1
  if len ≤ 24 then (m, 0)
  else
    let s := len - 24
    let q := m / 2 ^ s
    let r := m % 2 ^ s
    let half := 2 ^ (s - 1)
    if r > half || (r == half && q % 2 == 1) then (q + 1, s) else (q, s)

/-- `(int)(f * h)` for the binary32 value `f = mant · 2^e` and an `int` `h` with `|h| < 2^24` -/
def floatMulTrunc (mant e h : Int) : Int :=
  let p := mant * h
  let (q, s) := round24 p.natAbs
  let num : Int := (q : Int) * 2 ^ s
  -- |value| = num · 2^e
  let mag : Int := if e ≥ 0 then num * 2 ^ e.toNat else Int.tdiv num (2 ^ (-e).toNat)
  if p < 0 then -mag else mag

/-- the rows with the side margin removed; rows not wider than twice the margin are dropped -/
def clippedRows (rows : List Row) (margin : Int) : List Rect :=
  rows.filterMap fun r =>
    if r.rect.width ≤ 2 * margin then none
    else some ⟨r.rect.minX + margin, r.rect.maxX - margin, r.rect.minY, r.rect.maxY⟩

/-- the regions `fromIspdCircuit` hands to the constructor: the clipped free rows; when the margin removes
every row, the free rows themselves; when there is no free row at all but the circuit has rows, the
circuit's placement area (`Circuit::computePlacementArea`) -/
def ispdRegions (c : Circuit) (margin : Int) : List Rect :=
  if (clippedRows c.computeRows margin).isEmpty then
    (if c.computeRows.isEmpty then (if c.rows.isEmpty then [] else [c.placementArea])
     else c.computeRows.map fun r => r.rect)
  else clippedRows c.computeRows margin

/-- `DensityGrid::fromIspdCircuit(circuit, sizeFactor, sideMargin)`; the floats are given as mantissa/exponent -/
def DGrid.fromIspdCircuit (c : Circuit) (sfMant sfExp smMant smExp : Int) : DGrid :=
  DGrid.ofRegions (floatMulTrunc sfMant sfExp (minCellHeight c))
    (ispdRegions c (floatMulTrunc smMant smExp (minCellHeight c)))

/-- The rows part of the C01 domain (`C01.Dom`, conjuncts 1, 3 and the first half of 4, verbatim): a
uniform positive row height, rows pairwise non-intersecting, every row with a non-empty x-range.  The domain
of `C16.circuit_grid_capacity_is_free_area`; evaluated by the driver on every circuit case. -/
def RowsDom (c : Circuit) : Prop :=
  0 < (Circuit.rowHeight c).getD 0 ∧
  c.rows.Pairwise (fun r s => r.rect.intersects s.rect = false) ∧
  (∀ r ∈ c.rows, r.rect.minX < r.rect.maxX)

instance (c : Circuit) : Decidable (RowsDom c) := inferInstanceAs (Decidable (_ ∧ _ ∧ _))

/-- demands of `HierarchicalDensityPlacement::fromIspdCircuit` (`int` truncation of the `long long` area is
outside the domain: areas < 2^31) -/
def circuitDemands (c : Circuit) : List Int :=
  c.cells.map fun cl => if cl.fixed then 0 else cl.w * cl.h

/-! ### hierarchy (`canRefine`, `refine`, `setupHierarchyHelper`) -/

/-- `canRefine(limits)` -/
def canRefine : List Nat → Bool
  | b :: e :: rest => decide (e - b > 1) || canRefine (e :: rest)
  | _ => false

/-- the limits pushed by the loop of `refine` -/
def refineLimitsTail : List Nat → List Nat
  | b :: e :: rest =>
    if e - b ≥ 2 then (e + b) / 2 :: e :: refineLimitsTail (e :: rest)
    else e :: refineLimitsTail (e :: rest)
  | _ => []

/-- `limits` after `refine(oldLimits, limits, parents)` -/
def refineLimits (old : List Nat) : List Nat := 0 :: refineLimitsTail old

/-- `parents` after `refine`, the loop index starting at `i` -/
def refineParents : Nat → List Nat → List Nat
  | i, b :: e :: rest =>
    if e - b ≥ 2 then i :: i :: refineParents (i + 1) (e :: rest)
    else i :: refineParents (i + 1) (e :: rest)
  | _, _ => []

/-- the `while (canRefine(limits.back()))` loop, coarsest level first; the fuel `nbBins` is
enough (`hierarchy_wf`: the last level cannot be refined) -/
def chain : Nat → List Nat → List Nat → List (List Nat × List Nat)
  | 0, l, p => [(l, p)]
  | f + 1, l, p =>
    if canRefine l then (l, p) :: chain f (refineLimits l) (refineParents 0 l) else [(l, p)]

structure Hier where
  /-- `xLimits_` : level 0 is the finest -/
  limits : List (List Nat)
  /-- `parentX_` -/
  parents : List (List Nat)
deriving Repr, DecidableEq, Inhabited

/-- `setupHierarchyHelper(nbBins, limits, parents)` -/
def setupHierarchy (nbBins : Nat) : Hier :=
  let c := (chain nbBins [0, nbBins] [0]).reverse
  ⟨c.map Prod.fst, c.map Prod.snd⟩

namespace Hier
def nbLevels (h : Hier) : Nat := h.limits.length
def lim (h : Hier) (lvl : Nat) : List Nat := h.limits.getD lvl []
def par (h : Hier) (lvl : Nat) : List Nat := h.parents.getD lvl []
/-- `nbBinsX(lvl)` -/
def nbBins (h : Hier) (lvl : Nat) : Nat := (h.lim lvl).length - 1
/-- `parentX(lvl, x)` -/
def parent (h : Hier) (lvl x : Nat) : Nat := (h.par lvl).getD x 0
end Hier

/-! ### `HierarchicalDensityPlacement` -/

abbrev Bins := List (List (List Nat))

/-- `binCells_[x][y]` (empty outside the table) -/
def cellsAt (b : Bins) (x y : Nat) : List Nat := (b.getD x []).getD y []

/-- a table given by a function -/
def tab (nx ny : Nat) (f : Nat → Nat → List Nat) : Bins :=
  (List.range nx).map fun i => (List.range ny).map fun j => f i j

/-- sequence of writes `cellBin[c] = v` -/
def applyW (cb : List Int) (ws : List (Nat × Int)) : List Int :=
  ws.foldl (fun acc w => acc.set w.1 w.2) cb

/-- the writes of `updateCellToBin`, in loop order: `(cell, i, j)` -/
def writesOf (nx ny : Nat) (b : Bins) : List (Nat × Nat × Nat) :=
  (List.range nx).flatMap fun i => (List.range ny).flatMap fun j => (cellsAt b i j).map fun c => (c, i, j)

structure HState where
  grid : DGrid
  hx : Hier
  hy : Hier
  /-- `cellDemand_` -/
  demand : List Int
  levelX : Nat
  levelY : Nat
  bins : Bins
  cbx : List Int
  cby : List Int
deriving Repr, DecidableEq, Inhabited

namespace HState
def nbCells (s : HState) : Nat := s.demand.length
def nbX (s : HState) : Nat := s.hx.nbBins s.levelX
def nbY (s : HState) : Nat := s.hy.nbBins s.levelY
def cells (s : HState) (x y : Nat) : List Nat := cellsAt s.bins x y
def parentX (s : HState) (x : Nat) : Nat := s.hx.parent s.levelX x
def parentY (s : HState) (y : Nat) : Nat := s.hy.parent s.levelY y
def cellDemand (s : HState) (c : Nat) : Int := s.demand.getD c 0

/-- `binLimitX(x)` in the current view -/
def binLimitX (s : HState) (x : Nat) : Int := s.grid.limX.getD ((s.hx.lim s.levelX).getD x 0) 0
def binLimitY (s : HState) (y : Nat) : Int := s.grid.limY.getD ((s.hy.lim s.levelY).getD y 0) 0

/-- `binCapacity(x, y)` in the current view (`getGroup` + `DensityGrid::binCapacity(BinGroup)`) -/
def binCapacity (s : HState) (x y : Nat) : Int :=
  s.grid.groupCapacity ((s.hx.lim s.levelX).getD x 0) ((s.hx.lim s.levelX).getD (x + 1) 0)
    ((s.hy.lim s.levelY).getD y 0) ((s.hy.lim s.levelY).getD (y + 1) 0)

/-- `binUsage(x, y)` -/
def binUsage (s : HState) (x y : Nat) : Int := ((s.cells x y).map s.cellDemand).sum

/-- `updateCellToBin` for the current level and `bins` -/
def updateCellToBin (s : HState) : HState :=
  let ws := writesOf s.nbX s.nbY s.bins
  { s with
    cbx := applyW (List.replicate s.nbCells (-1)) (ws.map fun w => (w.1, (w.2.1 : Int)))
    cby := applyW (List.replicate s.nbCells (-1)) (ws.map fun w => (w.1, (w.2.2 : Int))) }

/-- cells with positive demand, in index order (`allCells` of the constructor) -/
def activeCells (demand : List Int) : List Nat :=
  (List.range demand.length).filter fun c => demand.getD c 0 > 0

/-- `HierarchicalDensityPlacement(grid, cellDemand)` -/
def init (g : DGrid) (demand : List Int) : HState :=
  let hx := setupHierarchy g.nbX
  let hy := setupHierarchy g.nbY
  updateCellToBin
    { grid := g, hx := hx, hy := hy, demand := demand, levelX := hx.nbLevels - 1, levelY := hy.nbLevels - 1,
      bins := [[activeCells demand]], cbx := [], cby := [] }

/-- `setBinCells(x, y, cells)` -/
def setBinCells (s : HState) (x y : Nat) (cs : List Nat) : HState :=
  { s with
    bins := s.bins.set x ((s.bins.getD x []).set y cs)
    cbx := applyW s.cbx (cs.map fun c => (c, (x : Int)))
    cby := applyW s.cby (cs.map fun c => (c, (y : Int))) }

/-- is `i` the first child of its parent (`!(i != 0 && parent(i) == parent(i-1))`) -/
def firstChild (par : List Nat) (i : Nat) : Bool :=
  !(i != 0 && par.getD i 0 == par.getD (i - 1) 0)

/-- `refineX()` (no-op where the C++ asserts `levelX_ >= 1`) -/
def refineX (s : HState) : HState :=
  if s.levelX = 0 then s else
  let par := s.hx.par (s.levelX - 1)
  updateCellToBin
    { s with
      levelX := s.levelX - 1
      bins := tab (s.hx.nbBins (s.levelX - 1)) s.nbY fun i j =>
        if firstChild par i then cellsAt s.bins (par.getD i 0) j else [] }

/-- `refineY()` -/
def refineY (s : HState) : HState :=
  if s.levelY = 0 then s else
  let par := s.hy.par (s.levelY - 1)
  updateCellToBin
    { s with
      levelY := s.levelY - 1
      bins := tab s.nbX (s.hy.nbBins (s.levelY - 1)) fun i j =>
        if firstChild par j then cellsAt s.bins i (par.getD j 0) else [] }

/-- `coarsenX()` (no-op where the C++ asserts `levelX_ + 1 < nbLevelX()`) -/
def coarsenX (s : HState) : HState :=
  if s.levelX + 1 < s.hx.nbLevels then
    let par := s.hx.par s.levelX
    updateCellToBin
      { s with
        levelX := s.levelX + 1
        bins := tab (s.hx.nbBins (s.levelX + 1)) s.nbY fun p j =>
          (List.range s.nbX).flatMap fun i => if par.getD i 0 = p then cellsAt s.bins i j else [] }
  else s

/-- `coarsenY()` -/
def coarsenY (s : HState) : HState :=
  if s.levelY + 1 < s.hy.nbLevels then
    let par := s.hy.par s.levelY
    updateCellToBin
      { s with
        levelY := s.levelY + 1
        bins := tab s.nbX (s.hy.nbBins (s.levelY + 1)) fun i p =>
          (List.range s.nbY).flatMap fun j => if par.getD j 0 = p then cellsAt s.bins i j else [] }
  else s

/-! ### redistribution skeletons -/

/-- cells of a list of bins, concatenated in order -/
def gather (s : HState) (G : List (Nat × Nat)) : List Nat := G.flatMap fun p => s.cells p.1 p.2

/-- admissibility of a redistribution: distinct bins of the current view, one new content per bin, the new
contents are a rearrangement of the cells the bins held -/
def redistOk (s : HState) (G : List (Nat × Nat)) (contents : List (List Nat)) : Bool :=
  decide G.Nodup && G.all (fun p => decide (p.1 < s.nbX) && decide (p.2 < s.nbY)) &&
    decide (contents.length = G.length) && contents.flatten.isPerm (s.gather G)

/-- The common skeleton of every rough-legalization step: the bins `G` get the new contents
(`setBinCells` one after the other); anything else is left alone.  Inadmissible arguments leave
the state unchanged. -/
def redistribute (s : HState) (G : List (Nat × Nat)) (contents : List (List Nat)) : HState :=
  if redistOk s G contents then
    (G.zip contents).foldl (fun st pc => st.setBinCells pc.1.1 pc.1.2 pc.2) s
  else s

/-- `rebisect(x1, y1, x2, y2)`: the cells of the two bins, permuted (`order`, chosen by the sorted float
costs), split at `split` (chosen by `findConstrainedSplitPos`). -/
def rebisectSk (s : HState) (x1 y1 x2 y2 : Nat) (order : List Nat) (split : Nat) : HState :=
  if x1 = x2 ∧ y1 = y2 then s
  else redistribute s [(x1, y1), (x2, y2)] [order.take split, order.drop split]

/-- cells whose assignment is `b`, in order (`binCells[assignment[i]].push_back(cells[i])`) -/
def pick (cs : List Nat) (assign : List Nat) (b : Nat) : List Nat :=
  ((cs.zip assign).filter fun ca => ca.2 == b).map Prod.fst

/-- index of candidate `k` among the candidates with positive capacity -/
def rankPos (s : HState) (cands : List (Nat × Nat)) (k : Nat) : Nat :=
  ((cands.take k).filter fun p => decide (s.binCapacity p.1 p.2 > 0)).length

/-- `reoptimize(binCandidates)`: two candidates → `rebisect`; otherwise the cells of the candidates are
distributed over the candidates of positive capacity by an arbitrary assignment vector (one entry per cell,
values index the positive-capacity candidates in order); candidates without capacity end up empty; with a
single positive-capacity candidate everything goes there. -/
def reoptimizeSk (s : HState) (cands : List (Nat × Nat)) (order : List Nat) (split : Nat)
    (assign : List Nat) : HState :=
  match cands with
  | [(x1, y1), (x2, y2)] => rebisectSk s x1 y1 x2 y2 order split
  | _ =>
    let bins := cands.filter fun p => decide (s.binCapacity p.1 p.2 > 0)
    let cs := s.gather cands
    if bins.isEmpty || cs.isEmpty then s
    else
      let asg := if bins.length = 1 then List.replicate cs.length 0 else assign
      redistribute s cands
        ((List.range cands.length).map fun k =>
          let p := cands.getD k (0, 0)
          if s.binCapacity p.1 p.2 > 0 then pick cs asg (rankPos s cands k) else [])

/-- one row `j` of `improveXTransport`: arbitrary assignment of the row's cells to its bins -/
def xTransportRow (s : HState) (j : Nat) (assign : List Nat) : HState :=
  let G := (List.range s.nbX).map fun i => (i, j)
  redistribute s G ((List.range s.nbX).map fun i => pick (s.gather G) assign i)

/-- one column `i` of `improveYTransport` -/
def yTransportCol (s : HState) (i : Nat) (assign : List Nat) : HState :=
  let G := (List.range s.nbY).map fun j => (i, j)
  redistribute s G ((List.range s.nbY).map fun j => pick (s.gather G) assign j)

/-- `improveXTransport()` with one assignment vector per row -/
def improveXTransportSk (s : HState) (assigns : List (List Nat)) : HState :=
  (List.range s.nbY).foldl (fun st j => xTransportRow st j (assigns.getD j [])) s

/-- `improveYTransport()` -/
def improveYTransportSk (s : HState) (assigns : List (List Nat)) : HState :=
  (List.range s.nbX).foldl (fun st i => yTransportCol st i (assigns.getD i [])) s

end HState

/-- operations on the hierarchical placement; every parameter of a skeleton step is arbitrary -/
inductive Op
  | refineX | refineY | coarsenX | coarsenY
  | rebisect (x1 y1 x2 y2 : Nat) (order : List Nat) (split : Nat)
  | reoptimize (cands : List (Nat × Nat)) (order : List Nat) (split : Nat) (assign : List Nat)
  | xTransport (assigns : List (List Nat))
  | yTransport (assigns : List (List Nat))
  | redistribute (G : List (Nat × Nat)) (contents : List (List Nat))
deriving Repr

def HState.apply (s : HState) : Op → HState
  | .refineX => s.refineX
  | .refineY => s.refineY
  | .coarsenX => s.coarsenX
  | .coarsenY => s.coarsenY
  | .rebisect x1 y1 x2 y2 o k => s.rebisectSk x1 y1 x2 y2 o k
  | .reoptimize c o k a => s.reoptimizeSk c o k a
  | .xTransport a => s.improveXTransportSk a
  | .yTransport a => s.improveYTransportSk a
  | .redistribute G c => s.redistribute G c

def HState.run (s : HState) (ops : List Op) : HState := ops.foldl HState.apply s

/-! ### the allocation invariant as a decidable check (used by the driver on snapshots) -/

/-- all cells of the current view, bin after bin -/
def HState.flat (s : HState) : List Nat :=
  (List.range s.nbX).flatMap fun i => (List.range s.nbY).flatMap fun j => s.cells i j

/-- `HierarchicalDensityPlacement::check()`'s allocation part, as a Boolean: table of the right shape, the
cells present are exactly the positive-demand cells, each once; `cellBinX/Y` agree with the table -/
def HState.allocOkB (s : HState) : Bool :=
  decide (s.bins.length = s.nbX) && s.bins.all (fun col => decide (col.length = s.nbY)) &&
    s.flat.isPerm (HState.activeCells s.demand) &&
    s == s.updateCellToBin

end ColoVerif.Grid
