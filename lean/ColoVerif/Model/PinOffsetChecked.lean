import ColoVerif.Model.Circuit
import ColoVerif.Model.Checked
/-
Checked `Circuit::pinXOffset` / `pinYOffset` (src/coloquinte.cpp): the only arithmetic is
`placedWidth(cell) - offs` / `placedHeight(cell) - offs` (`int - int`) for flipped orientations.
-/
namespace ColoVerif.Checked
open ColoVerif

def pinXOffsetC (cl : Cell) (p : Pin) : Except Fault Int :=
  if Circuit.xFlipped cl.orient then
    subI32 "pinXOffset: placedWidth(cell) - offs" cl.placedWidth (if cl.orient.isTurn then p.yo else p.xo)
  else .ok (if cl.orient.isTurn then p.yo else p.xo)

def pinYOffsetC (cl : Cell) (p : Pin) : Except Fault Int :=
  if Circuit.yFlipped cl.orient then
    subI32 "pinYOffset: placedHeight(cell) - offs" cl.placedHeight (if cl.orient.isTurn then p.xo else p.yo)
  else .ok (if cl.orient.isTurn then p.xo else p.yo)

end ColoVerif.Checked
