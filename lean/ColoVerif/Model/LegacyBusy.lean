import ColoVerif.Model.Busy
/-
Pre-fix shapes of the API (findings F6, F13, F14 of DESIGN.md section 7), kept as separately named
definitions with machine-checked witnesses of what was wrong.  The main model follows the working
tree through `Gen/Api.lean` / `Gen/Params.lean`; nothing here is used by the property theorems.
-/
namespace ColoVerif.LegacyBusy
open ColoVerif.ApiIR ColoVerif.Busy

/-- F6: `Circuit::placeGlobal` before the fix: `isInUse_ = true; GlobalPlacer::place(...); isInUse_ = false;` -/
def placeGlobal : List Stmt := [.setInUse true, .call "GlobalPlacer::place", .setInUse false]

/-- A stage that throws (no callback needed) leaves the circuit marked in use for ever. -/
theorem flag_stays_set_after_exception :
    execPlacement [] [] placeGlobal (.done true) ⟨false, []⟩ = ⟨.thrown, ⟨true, []⟩, []⟩ := by decide

/-- The pre-fix body is not guarded. -/
theorem not_guarded : guardedFirst placeGlobal = false := by decide

/-- The first repair of F6 used a guard whose destructor *clears* the flag (`~InUseGuard() { flag_ = false; }`):
correct for a single call, but not re-entrant. -/
def clearingCalls : List FnDef := [
  { name := "placeDetailed", params := [], body := [.scopeGuard, .call "DetailedPlacer::place"] },
  { name := "legalize", params := [], body := [.scopeGuard, .call "DetailedPlacer::legalize"] }]

def setRowsSkeleton : List FnDef := [{ name := "setRows", params := ["r"], body := [.checkNotInUse, .assign "rows_"] }]

/-- With the clearing guard, a callback of `placeDetailed` that calls `legalize` on the same circuit
(nested call ends: `inuse=0`) finds the circuit modifiable although the outer call is still
running: the following `setRows` is accepted and writes `rows_`. -/
theorem nested_call_releases_outer_flag :
    execPlacement setRowsSkeleton clearingCalls [.scopeGuard, .call "DetailedPlacer::place"]
      (.nested "legalize" (.done false) (.setter ⟨"setRows", ⟨3, 0, [⟨2, [], 0⟩]⟩⟩ (.cbEnd false (.done false)))) ⟨false, []⟩
      = ⟨.normal, ⟨false, ["rows_"]⟩, ["end ok inuse=0", "set setRows ok"]⟩ := by decide

/-- F14: `Circuit::setNets` before the fix validated with `assert` only. -/
def setNets : List Stmt := [
  .checkNotInUse,
  .assertC (.not (.empty 0)),
  .assertC (.eq (.front 0) (.lit 0)),
  .assertC (.eq (.back 0) (.size 1)),
  .assertC (.eq (.back 0) (.size 2)),
  .assertC (.eq (.back 0) (.size 3)),
  .assertC (.or (.eq (.size 0) (.add (.size 4) (.lit 1))) (.empty 4)),
  .assign "netLimits_", .assign "pinCells_", .assign "pinXOffsets_", .assign "pinYOffsets_",
  .assign "netWeights_", .assign "netWeights_", .assign "hasNetUpdate_"]

/-- Empty limits abort the process in the assertion-enabled build … -/
theorem setNets_aborts_on_empty_limits :
    (exec noCall ⟨1, 0, [⟨0, [], 0⟩, ⟨0, [], 0⟩, ⟨0, [], 0⟩, ⟨0, [], 0⟩, ⟨0, [], 0⟩]⟩ setNets ⟨false, []⟩).out = .aborted := by
  decide

/-- … and a pin cell outside the circuit (cell 7 of 1) is stored without complaint. -/
theorem setNets_accepts_foreign_pin :
    (exec noCall ⟨1, 0, [⟨2, [0, 1], 0⟩, ⟨1, [7], 0⟩, ⟨1, [], 0⟩, ⟨1, [], 0⟩, ⟨0, [], 0⟩]⟩ setNets ⟨false, []⟩).out = .normal := by
  decide

/-- F14: `Circuit::addNet` before the fix: lengths only. -/
def addNet : List Stmt := [
  .throwIf (.or (.not (.eq (.size 0) (.size 1))) (.not (.eq (.size 0) (.size 2)))),
  .checkNotInUse,
  .returnIf (.empty 0),
  .assign "netLimits_", .assign "netWeights_", .assign "pinCells_", .assign "pinXOffsets_", .assign "pinYOffsets_"]

theorem addNet_accepts_negative_pin :
    (exec noCall ⟨3, 0, [⟨1, [-1], 0⟩, ⟨1, [], 0⟩, ⟨1, [], 0⟩, ⟨0, [], 0⟩]⟩ addNet ⟨false, []⟩).out = .normal := by decide

/-- F13: `ColoquinteParameters(effort)` before the fix: the members are built (indexing the
9-element tables with `effort-1`) before the range check in the constructor body. -/
def coloquinteParametersCtor : List CtorEv := [
  .enter "GlobalPlacerParameters", .enter "ContinuousModelParameters", .leave "ContinuousModelParameters",
  .enter "RoughLegalizationParameters", .arrayIndex "squareSizeArray" 9 (-1), .leave "RoughLegalizationParameters",
  .enter "PenaltyParameters", .arrayIndex "updateFactorArray" 9 (-1), .leave "PenaltyParameters",
  .arrayIndex "gapToleranceArray" 9 (-1), .leave "GlobalPlacerParameters",
  .enter "LegalizationParameters", .leave "LegalizationParameters",
  .enter "DetailedPlacerParameters", .assertRange 1 9, .assertRange 1 9, .assertRange 1 9, .assertRange 1 9,
  .leave "DetailedPlacerParameters", .effortCheck 1 9]

theorem effort_zero_reads_out_of_bounds : runCtor 0 coloquinteParametersCtor = .ub := by decide
theorem effort_forty_reads_out_of_bounds : runCtor 40 coloquinteParametersCtor = .ub := by decide
theorem legacy_ctor_not_safe : safeFrom none coloquinteParametersCtor = false := by decide

end ColoVerif.LegacyBusy
