import ColoVerif.Model.Transp1d
/-
`Transportation1dSorter::convertAssignmentBack` as it was before the repair of F10:
the result was sized by the number of sources the *solver* saw (`a.size()`, the sources of
non-zero supply) but indexed by original source index.
-/
namespace ColoVerif.Transp1d

instance decEqExcept {ε α : Type} [DecidableEq ε] [DecidableEq α] : DecidableEq (Except ε α) :=
  fun a b => match a, b with
    | .ok x, .ok y => if h : x = y then isTrue (by rw [h]) else isFalse (fun e => h (Except.ok.inj e))
    | .error x, .error y => if h : x = y then isTrue (by rw [h]) else isFalse (fun e => h (Except.error.inj e))
    | .ok _, .error _ => isFalse (fun e => by cases e)
    | .error _, .ok _ => isFalse (fun e => by cases e)

/-- pre-F10: `ret.resize(a.size()); for (i < a.size()) ret[srcOrder[i]] = snkOrder[a[i]]` -/
def convertAssignmentBackLegacy (so : Sorter) (a : List Nat) : M (List Nat) :=
  backLoop so a 0 (List.replicate a.length 0)

def assignLegacy (pb : Problem) : M (List Nat) := do
  check pb
  let so ← mkSorter pb
  let sv ← convert so pb
  let p ← run sv
  let a ← computeAssignment sv p
  convertAssignmentBackLegacy so a

end ColoVerif.Transp1d
