/-
Model of the one-dimensional transportation solver
(src/place_global/transportation_1d.{hpp,cpp}: `Transportation1d`,
`Transportation1dSorter`, `Transportation1dSolver`), *after* the repairs F10
(`convertAssignmentBack` sizes its result by all sources) and F11 (no effect on
results).  The pre-F10 function is kept in `Model/LegacyTransp1d.lean`.

Conventions
* C++ `long long`/`int` are unbounded `Int`; vector indices (never negative in
  this code: the only `- 1` is clamped by `std::max(b - 1, 0)`) are `Nat`.
* every `operator[]` of the C++ is a bounds-checked `get`/`setAt` here and
  reports `Err.indexOutOfRange`; `throw std::runtime_error` of
  `Transportation1d::check()` is `Err.invalid`; the integer division by
  `nbSinks()` in `balanceDemand` reports `Err.divByZero`.
* the only unbounded loop (`while` in `Transportation1dSolver::push`) takes
  `fuel`; running out reports `Err.outOfFuel`.  `push` passes
  `loopFuel = 2 * nbSinks + events.size() + 3`, which is proved sufficient on
  the whole domain (`Proofs/Transp1dTerm.lean`: each iteration either occupies
  a new sink or strictly lowers `lastPosition` onto the next event), so
  `outOfFuel` never happens.  All other loops have natural bounds and are
  structural.
* `std::priority_queue<pair<ll,ll>>` is a list sorted in descending
  (lexicographic) order, head = `top()`; equal pairs are indistinguishable.
* `std::sort` on the distinct pairs `(position, index)` is an insertion sort
  with the same (total, strict on distinct pairs) order.
* `std::upper_bound`/`std::lower_bound` on the sorted `v` are the counts of
  elements `≤ x` / `< x` in the sorted prefix (`takeWhile`).
* `solver.check()`, `checkSolutionValid`, `checkSolutionOptimal` (self-checks
  in `solve()` that throw on an internal error) are not modelled; a throw
  would show up as a correspondence mismatch.
-/
namespace ColoVerif.Transp1d

inductive Err where
  | indexOutOfRange
  | invalid
  | divByZero
  | outOfFuel
deriving Repr, DecidableEq, Inhabited

abbrev M := Except Err

/-- bounds-checked `operator[]` -/
def get {α : Type} (l : List α) (i : Nat) : M α :=
  match l[i]? with
  | some x => pure x
  | none => throw Err.indexOutOfRange

/-- bounds-checked `l[i] = x` -/
def setAt {α : Type} (l : List α) (i : Nat) (x : α) : M (List α) :=
  if i < l.length then pure (l.set i x) else throw Err.indexOutOfRange

structure Problem where
  u : List Int
  v : List Int
  s : List Int
  d : List Int
deriving Repr, DecidableEq, Inhabited

def Problem.nbSources (pb : Problem) : Nat := pb.u.length
def Problem.nbSinks (pb : Problem) : Nat := pb.v.length

/-- `for (i = 0; i < k; ++i) ret += l[i]` -/
def sumFirst : Nat → List Int → M Int
  | 0, _ => pure 0
  | _ + 1, [] => throw Err.indexOutOfRange
  | k + 1, x :: xs => do
    let r ← sumFirst k xs
    pure (x + r)

def totalSupply (pb : Problem) : M Int := sumFirst pb.nbSources pb.s
def totalDemand (pb : Problem) : M Int := sumFirst pb.nbSinks pb.d

/-- `Transportation1d::check()` as a predicate (sizes first, so the totals are in range). -/
def checkOk (pb : Problem) : Bool :=
  pb.s.length == pb.u.length && pb.d.length == pb.v.length &&
  pb.s.all (fun c => decide (0 ≤ c)) && pb.d.all (fun c => decide (0 ≤ c)) &&
  decide (pb.s.sum ≤ pb.d.sum)

def check (pb : Problem) : M Unit :=
  if checkOk pb then pure () else throw Err.invalid

/-! ### balanceDemand -/

/-- `for (i = 0; i < k; ++i) d[i] += x` -/
def incrFirst : Nat → Int → List Int → M (List Int)
  | 0, _, l => pure l
  | _ + 1, _, [] => throw Err.indexOutOfRange
  | k + 1, x, y :: ys => do
    let r ← incrFirst k x ys
    pure ((y + x) :: r)

def balanceDemand (pb : Problem) : M Problem := do
  let ts ← totalSupply pb
  let td ← totalDemand pb
  let missing := ts - td
  if missing ≤ 0 then pure pb
  else if pb.nbSinks = 0 then throw Err.divByZero
  else do
    let added := Int.tdiv missing pb.nbSinks
    let d1 ← incrFirst pb.nbSinks added pb.d
    let rest := missing - added * pb.nbSinks
    let d2 ← incrFirst rest.toNat 1 d1
    pure { pb with d := d2 }

/-! ### Transportation1dSorter -/

/-- `std::pair` comparison `a < b` -/
def keyLt (a b : Int × Nat) : Bool :=
  decide (a.1 < b.1) || (decide (a.1 = b.1) && decide (a.2 < b.2))

def insertKey (x : Int × Nat) : List (Int × Nat) → List (Int × Nat)
  | [] => [x]
  | y :: ys => if keyLt x y then x :: y :: ys else y :: insertKey x ys

def sortKeys : List (Int × Nat) → List (Int × Nat)
  | [] => []
  | x :: xs => insertKey x (sortKeys xs)

/-- the loop `for i < pos.size(): if (cap[i] > 0) emplace_back(pos[i], i)`, over the index list `is` -/
def keyed (pos cap : List Int) : List Nat → M (List (Int × Nat))
  | [] => pure []
  | i :: is => do
    let c ← get cap i
    if 0 < c then do
      let x ← get pos i
      let r ← keyed pos cap is
      pure ((x, i) :: r)
    else keyed pos cap is

structure Sorter where
  srcOrder : List Nat
  snkOrder : List Nat
deriving Repr, DecidableEq, Inhabited

def mkSorter (pb : Problem) : M Sorter := do
  let ks ← keyed pb.u pb.s (List.range pb.u.length)
  let kd ← keyed pb.v pb.d (List.range pb.v.length)
  pure ⟨(sortKeys ks).map (·.2), (sortKeys kd).map (·.2)⟩

/-- `for (int i : order) out.push_back(l[i])` -/
def gather (l : List Int) : List Nat → M (List Int)
  | [] => pure []
  | i :: is => do
    let x ← get l i
    let r ← gather l is
    pure (x :: r)

/-- `D.push_back(D.back() + c)` starting from `acc` -/
def prefixFrom (acc : Int) : List Int → List Int
  | [] => [acc]
  | c :: cs => acc :: prefixFrom (acc + c) cs

/-- The data of a `Transportation1dSolver` (after `setupData`). -/
structure Solver where
  u : List Int
  v : List Int
  s : List Int
  d : List Int
  S : List Int
  D : List Int
deriving Repr, DecidableEq, Inhabited

def mkSolver (u v s d : List Int) : Solver := ⟨u, v, s, d, prefixFrom 0 s, prefixFrom 0 d⟩

def convert (so : Sorter) (pb : Problem) : M Solver := do
  let su ← gather pb.u so.srcOrder
  let ss ← gather pb.s so.srcOrder
  let sv ← gather pb.v so.snkOrder
  let sd ← gather pb.d so.snkOrder
  pure (mkSolver su sv ss sd)

/-! ### Transportation1dSolver -/

def Solver.nbSources (sv : Solver) : Nat := sv.u.length
def Solver.nbSinks (sv : Solver) : Nat := sv.v.length

def iabs (x : Int) : Int := if x < 0 then -x else x

def cost (sv : Solver) (i j : Nat) : M Int := do
  let a ← get sv.u i
  let b ← get sv.v j
  pure (iabs (a - b))

/-- `delta(i, j)` -/
def delta (sv : Solver) (i j : Nat) : M Int := do
  let a ← cost sv i (j + 1)
  let b ← cost sv (i + 1) j
  let c ← cost sv (i + 1) (j + 1)
  let e ← cost sv i j
  pure (a + b - c - e)

abbrev Event := Int × Int

def evLt (a b : Event) : Bool :=
  decide (a.1 < b.1) || (decide (a.1 = b.1) && decide (a.2 < b.2))

/-- `events.emplace(x)` -/
def evInsert (x : Event) : List Event → List Event
  | [] => [x]
  | y :: ys => if evLt y x then x :: y :: ys else y :: evInsert x ys

structure St where
  /-- `p`, most recent first -/
  pRev : List Int
  events : List Event
  lastPosition : Int
  lastOcc : Nat
  optSink : Nat
deriving Repr, DecidableEq, Inhabited

def St.init : St := ⟨[], [], 0, 0, 0⟩

/-- `updateOptimalSink`: `while (j + 1 < nbSinks() && cost(i,j) >= cost(i,j+1)) ++j`
(at most `nbSinks` iterations; `k` counts them down). -/
def updOpt (sv : Solver) (i : Nat) : Nat → Nat → M Nat
  | 0, j => pure j
  | k + 1, j =>
    if j + 1 < sv.nbSinks then do
      let c0 ← cost sv i j
      let c1 ← cost sv i (j + 1)
      if c1 ≤ c0 then updOpt sv i k (j + 1) else pure j
    else pure j

def upperBound (v : List Int) (x : Int) : Nat := (v.takeWhile (fun y => decide (y ≤ x))).length
def lowerBound (v : List Int) (x : Int) : Nat := (v.takeWhile (fun y => decide (y < x))).length

/-- emplace only when `pos > 0` -/
def emplacePos (ev : List Event) (pos sl : Int) : List Event :=
  if 0 < pos then evInsert (pos, sl) ev else ev

/-- body of the `for (j = b; j < e; ++j)` loop of `pushNewSourceEvents`, `cnt = e - j` -/
def srcEvLoop (sv : Solver) (i : Nat) : Nat → Nat → List Event → M (List Event)
  | 0, _, ev => pure ev
  | cnt + 1, j, ev => do
    let a ← get sv.D (j + 1)
    let b ← get sv.S i
    let dl ← delta sv (i - 1) j
    srcEvLoop sv i cnt (j + 1) (emplacePos ev (a - b) dl)

def pushNewSourceEvents (sv : Solver) (i : Nat) (st : St) : M St :=
  if i = 0 then pure st
  else do
    let up ← get sv.u (i - 1)
    let b := upperBound sv.v up - 1
    let ui ← get sv.u i
    let e := min (lowerBound sv.v ui) st.lastOcc
    let ev ← srcEvLoop sv i (e - b) b st.events
    pure { st with events := ev }

/-- body of the `for (l = lastOccupiedSink; l < j; ++l)` loop of `pushNewSinkEvents` -/
def snkEvLoop (sv : Solver) (i : Nat) (lastPos : Int) : Nat → Nat → List Event → M (List Event)
  | 0, _, ev => pure ev
  | cnt + 1, l, ev => do
    let a ← get sv.D (l + 1)
    let b ← get sv.S i
    let c0 ← cost sv i l
    let c1 ← cost sv i (l + 1)
    snkEvLoop sv i lastPos cnt (l + 1) (emplacePos ev (min (a - b) lastPos) (c0 - c1))

def pushNewSinkEvents (sv : Solver) (i j : Nat) (st : St) : M St :=
  if j ≤ st.lastOcc then pure st
  else do
    let ev ← snkEvLoop sv i st.lastPosition (j - st.lastOcc) st.lastOcc st.events
    pure { st with events := ev, lastOcc := j }

/-- the `while` of `getSlope`: pops the events at position `L`, returns their slope sum -/
def popAt (L : Int) : List Event → Int × List Event
  | [] => (0, [])
  | e :: es => if e.1 = L then ((popAt L es).1 + e.2, (popAt L es).2) else (0, e :: es)

/-- `getSlope(false)` -/
def getSlopeKeep (st : St) : Int × St :=
  let r := popAt st.lastPosition st.events
  (r.1, { st with events := if r.1 ≠ 0 then evInsert (st.lastPosition, r.1) r.2 else r.2 })

/-- `events.empty() ? minPos : std::max(minPos, events.top().first)` -/
def topOr (minPos : Int) : List Event → Int
  | [] => minPos
  | e :: _ => max minPos e.1

def pushToLastSink (sv : Solver) (i : Nat) (st : St) : M St := do
  let a ← get sv.D (st.lastOcc + 1)
  let b ← get sv.S (i + 1)
  let minPos := max (a - b) 0
  let r := popAt st.lastPosition st.events
  let lp := topOr minPos r.2
  pure { st with lastPosition := lp, events := emplacePos r.2 lp r.1 }

def pushToNewSink (sv : Solver) (i : Nat) (st : St) : M St :=
  pushNewSinkEvents sv i (st.lastOcc + 1) st

def pushOnce (sv : Solver) (i : Nat) (st : St) : M St :=
  if st.lastOcc + 1 = sv.nbSinks then pushToLastSink sv i st
  else if st.lastPosition = 0 then pushToNewSink sv i st
  else do
    let right ← cost sv i (st.lastOcc + 1)
    let sl := getSlopeKeep st
    let c ← cost sv i st.lastOcc
    if right ≤ sl.1 + c then pushToNewSink sv i sl.2 else pushToLastSink sv i sl.2

/-- `while (lastPosition > D[lastOccupiedSink + 1] - S[i + 1]) pushOnce(i)` -/
def pushLoop (sv : Solver) (i : Nat) : Nat → St → M St
  | 0, _ => throw Err.outOfFuel
  | fuel + 1, st => do
    let a ← get sv.D (st.lastOcc + 1)
    let b ← get sv.S (i + 1)
    if a - b < st.lastPosition then do
      let st' ← pushOnce sv i st
      pushLoop sv i fuel st'
    else pure st

/-- fuel handed to the `while` of `push`: every iteration either increments `lastOccupiedSink`
(at most `nbSinks` times, adding one event each time) or moves `lastPosition` strictly down onto
the next event (or onto its lower bound, which ends the loop). -/
def loopFuel (sv : Solver) (st : St) : Nat := 2 * sv.nbSinks + st.events.length + 3

def push (sv : Solver) (i : Nat) (st : St) : M St := do
  let o ← updOpt sv i sv.nbSinks st.optSink
  let st1 ← pushNewSourceEvents sv i { st with optSink := o }
  let a ← get sv.D o
  let b ← get sv.S i
  let st2 ← pushNewSinkEvents sv i o { st1 with lastPosition := max st1.lastPosition (a - b) }
  let st3 ← pushLoop sv i (loopFuel sv st2) st2
  pure { st3 with pRev := st3.lastPosition :: st3.pRev }

/-- `for (i = 0; i < nbSources(); ++i) push(i)`, `cnt` sources left -/
def pushAll (sv : Solver) : Nat → Nat → St → M St
  | 0, _, st => pure st
  | cnt + 1, i, st => do
    let st' ← push sv i st
    pushAll sv cnt (i + 1) st'

def runMin (mx : Int) : List Int → Int
  | [] => mx
  | x :: xs => min x (runMin mx xs)

/-- the right-to-left loop of `flushPositions` -/
def flush (mx : Int) : List Int → List Int
  | [] => []
  | x :: xs => runMin mx (x :: xs) :: flush mx xs

/-- `D.back()` -/
def lastD (sv : Solver) : M Int := get sv.D (sv.D.length - 1)

/-- `run()`: returns the final `p` -/
def run (sv : Solver) : M (List Int) := do
  let st ← pushAll sv sv.nbSources 0 St.init
  let p := st.pRev.reverse
  let td ← lastD sv
  let sn ← get sv.S p.length
  pure (flush (td - sn) p)

abbrev Plan := List (Nat × Nat × Int)

/-- the `while (i < p.size() && j < nbSinks())` loop of `computeSolution` (each iteration
advances `i` or `j`, so `p.size() + nbSinks()` iterations suffice; `k` counts them down). -/
def solLoop (sv : Solver) (p : List Int) : Nat → Nat → Nat → M Plan
  | 0, _, _ => pure []
  | k + 1, i, j =>
    if i < p.length ∧ j < sv.nbSinks then do
      let pi ← get p i
      let si ← get sv.S i
      let si1 ← get sv.S (i + 1)
      let bj ← get sv.D j
      let ej ← get sv.D (j + 1)
      let b := max (si + pi) bj
      let e := min (si1 + pi) ej
      let rest ← if si1 + pi < ej then solLoop sv p k (i + 1) j else solLoop sv p k i (j + 1)
      pure (if 0 < e - b then (i, j, e - b) :: rest else rest)
    else pure []

def computeSolution (sv : Solver) (p : List Int) : M Plan :=
  solLoop sv p (p.length + sv.nbSinks) 0 0

/-- `while (D[currentSink + 1] <= assignPos) ++currentSink`; `rest = D.drop (currentSink + 1)`,
so `D[currentSink + 1]` is out of range exactly when `rest = []`. -/
def walk (pos : Int) : List Int → Nat → M (Nat × List Int)
  | [], _ => throw Err.indexOutOfRange
  | x :: rest, cs => if x ≤ pos then walk pos rest (cs + 1) else pure (cs, x :: rest)

/-- the `for (i < p.size())` loop of `computeAssignment`; `ps = p.drop i` -/
def assignLoop (sv : Solver) : List Int → Nat → Nat → List Int → M (List Nat)
  | [], _, _, _ => pure []
  | pi :: ps, i, cs, rest => do
    let si ← get sv.S i
    let ci ← get sv.s i
    let r ← walk (pi + si + Int.tdiv ci 2) rest cs
    let tl ← assignLoop sv ps (i + 1) r.1 r.2
    pure (r.1 :: tl)

def computeAssignment (sv : Solver) (p : List Int) : M (List Nat) :=
  assignLoop sv p 0 0 (sv.D.drop 1)

/-! ### mapping back -/

def convertSolutionBack (so : Sorter) : Plan → M Plan
  | [] => pure []
  | (i, j, a) :: es => do
    let i' ← get so.srcOrder i
    let j' ← get so.snkOrder j
    let r ← convertSolutionBack so es
    pure ((i', j', a) :: r)

/-- the loop `for (i < a.size()) ret[srcOrder[i]] = snkOrder[a[i]]`; `as = a.drop i` -/
def backLoop (so : Sorter) : List Nat → Nat → List Nat → M (List Nat)
  | [], _, ret => pure ret
  | ai :: as, i, ret => do
    let k ← get so.srcOrder i
    let j ← get so.snkOrder ai
    let ret' ← setAt ret k j
    backLoop so as (i + 1) ret'

/-- `convertAssignmentBack(a, nbSources)` (after F10) -/
def convertAssignmentBack (so : Sorter) (a : List Nat) (nbSources : Nat) : M (List Nat) :=
  backLoop so a 0 (List.replicate nbSources (so.snkOrder.headD 0))

/-! ### Transportation1d::solve / assign -/

def solve (pb : Problem) : M Plan := do
  check pb
  let so ← mkSorter pb
  let sv ← convert so pb
  let p ← run sv
  let sol ← computeSolution sv p
  convertSolutionBack so sol

def assign (pb : Problem) : M (List Nat) := do
  check pb
  let so ← mkSorter pb
  let sv ← convert so pb
  let p ← run sv
  let a ← computeAssignment sv p
  convertAssignmentBack so a pb.nbSources


/-! ### plans, validity and the optimality certificate (decidable checkers) -/

def rowSum : Plan → Nat → Int
  | [], _ => 0
  | (i, _, a) :: es, k => (if i = k then a else 0) + rowSum es k

def colSum : Plan → Nat → Int
  | [], _ => 0
  | (_, j, a) :: es, k => (if j = k then a else 0) + colSum es k

/-- `∀ k < n, f k` as a Bool -/
def allBelow : Nat → (Nat → Bool) → Bool
  | 0, _ => true
  | n + 1, f => f n && allBelow n f

/-- entries in range and positive -/
def entriesOk (n m : Nat) (plan : Plan) : Bool :=
  plan.all fun e => decide (e.1 < n) && decide (e.2.1 < m) && decide (0 < e.2.2)

/-- the plan meets every supply exactly, exceeds no demand, and has positive entries in range -/
def validPlan (pb : Problem) (plan : Plan) : Bool :=
  entriesOk pb.u.length pb.v.length plan &&
  allBelow pb.u.length (fun i => decide (rowSum plan i = pb.s.getD i 0)) &&
  allBelow pb.v.length (fun j => decide (colSum plan j ≤ pb.d.getD j 0))

def cst (pb : Problem) (i j : Nat) : Int := iabs (pb.u.getD i 0 - pb.v.getD j 0)

/-- dual certificate: potentials `al` (sources) and `be` (sinks, non-negative) with
`al i - be j ≤ |u i - v j|` everywhere, equality on the support of the plan, and every sink
with positive potential saturated. -/
def certOk (pb : Problem) (plan : Plan) (al be : List Int) : Bool :=
  validPlan pb plan &&
  allBelow pb.v.length (fun j => decide (0 ≤ be.getD j 0)) &&
  allBelow pb.u.length (fun i => allBelow pb.v.length fun j =>
    decide (al.getD i 0 - be.getD j 0 ≤ cst pb i j)) &&
  plan.all (fun e => decide (al.getD e.1 0 - be.getD e.2.1 0 = cst pb e.1 e.2.1)) &&
  allBelow pb.v.length (fun j => decide (0 < be.getD j 0 → colSum plan j = pb.d.getD j 0))

/-- `cost(sol)` of the original problem (total: `getD`), used by the certificate. -/
def planCost (pb : Problem) : Plan → Int
  | [] => 0
  | (i, j, a) :: es => a * iabs (pb.u.getD i 0 - pb.v.getD j 0) + planCost pb es

end ColoVerif.Transp1d
