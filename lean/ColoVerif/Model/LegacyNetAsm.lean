import ColoVerif.Model.NetAsm
/-
C17 — the pre-fix behaviour of `NetModel` (finding F12): `netWeight_` was declared
`std::vector<int>`, so `netWeight_.push_back(weight)` truncated every weight toward zero.
Kept as a separately named definition with machine-checked witnesses; the main model
(`NetAsm.assemble`) follows the working tree through `Gen.NetWeightType.store`.
-/
namespace ColoVerif.NetAsm.Legacy
open ColoVerif.NetAsm

/-- C++ `float → int → float` round trip of the pre-fix container: truncation toward zero. -/
def storeInt (w : Rat) : Rat := ((Int.tdiv w.num (w.den : Int) : Int) : Rat)

/-- The assembly with the pre-fix storage type. -/
def assembleLegacy (m : Mode) (nbCells : Nat) (raws : List RawNet) (pl : List Rat) (ε : Rat)
    (pen : Option Penalty) : Sys :=
  assembleWith storeInt m nbCells raws pl ε pen

/-- One cell tied to a fixed pin at position 10 by a net of weight ½. -/
def halfNet : List RawNet := [⟨1 / 2, [((0 : Int), (0 : Rat)), ((-1 : Int), (10 : Rat))], none⟩]

/-- With `int` storage a net of weight ½ assembles the zero matrix and the zero right-hand side
(the real-valued assembly gives the entry ½ and the right-hand side 5). -/
theorem weights_truncated_witness :
    (assembleLegacy .star0 1 halfNet [] 1 none).triplets = [(0, 0, 0)]
      ∧ (assembleLegacy .star0 1 halfNet [] 1 none).rhs = [0]
      ∧ (assembleWith (fun w => w) .star0 1 halfNet [] 1 none).triplets = [(0, 0, 1 / 2)]
      ∧ (assembleWith (fun w => w) .star0 1 halfNet [] 1 none).rhs = [5] := by
  decide +kernel

/-- With `int` storage the assembly is not homogeneous: doubling the weight ½ does not double
the (zero) system. -/
theorem legacy_not_homogeneous :
    (assembleLegacy .star0 1 (halfNet.map (RawNet.scale 2)) [] 1 none).triplets
      ≠ ((assembleLegacy .star0 1 halfNet [] 1 none).scale 2).triplets := by
  decide +kernel

end ColoVerif.NetAsm.Legacy
