import ColoVerif.Model.CoresChecked
/-
Pre-fix arithmetic, kept for the witnesses of `Properties/C07.lean`
(the tree violated C07 at these sites before the fixes).
-/
namespace ColoVerif.Checked.Legacy

/-- `min + (i * (max - min) / number)` with `int` arithmetic throughout
(src/utils/helpers.hpp before fixes/c07-subdivisions-int-overflow.diff) -/
def subdivAtC (mn mx number i : Int) : Except Fault Int := do
  let ext ← subI32 "computeSubdivisions: max - min" mx mn
  let prod ← mulI32 "computeSubdivisions: i * (max - min)" i ext
  let q ← divI32 "computeSubdivisions: … / number" prod number
  addI32 "computeSubdivisions: min + …" mn q

/-- `int dist = rowLegalizers_[row].getCost(…)`
(src/place_detailed/abacus_legalizer.cpp before fixes/c11-abacus-cost-narrowing.diff) -/
def evalPlacementC (asr : Bool) (s : RowLeg.State) (width target : Int) :
    Except Fault ((Bool × Int) × RowLeg.State) := do
  let rem ← remainingC s
  if rem < width then pure ((false, 0), s)
  else
    let r ← RowLeg.getCostC asr s width target
    let d ← narrowI32 "evaluatePlacement: int dist = getCost()" r.1
    pure ((true, d), r.2)

/-- `(cur_pos - finalAbsPos) * (slope + width)` and `width * abs(…)` as `int * int`
(RowLegalizer::getDisplacement before commit 6923697, finding F9): the final cost term -/
def retC (width fin tgt : Int) : Except Fault Int := do
  let df ← subI32 "getDisplacement: finalAbsPos - targetAbsPos" fin tgt
  let ad ← absI32 "getDisplacement: std::abs" df
  mulI32 "getDisplacement: width * abs (int)" width ad

end ColoVerif.Checked.Legacy
