import ColoVerif.Model.Transp1d
import ColoVerif.Model.Checked
/-
Checked twin of the 1-D transportation solver (src/place_global/transportation_1d.{hpp,cpp}) as
`DensityLegalizer::improveXTransport / improveYTransport` call it:

    Transportation1d pb(u, v, s, d);  pb.balanceDemand();  pb.assign();

Every arithmetic sub-expression whose C++ static type is `long long` goes through an `…I64`
primitive of `Model/Checked.lean`, in the order the C++ evaluates it:

  Transportation1d::totalSupply/totalDemand   ret += s[i]                       (prefix sums from 0)
  Transportation1d::balanceDemand             totalSupply() - totalDemand();  missing / nbSinks();
                                              d[i] += added;  added * nbSinks();  missing - …;  d[i] += 1LL
  Transportation1dSolver::setupData           D.back() + c;  S.back() + c
  Transportation1d::cost                      u[i] - v[j];  std::abs(…)   (std::abs(LLONG_MIN) is UB)
  Transportation1dSolver::delta               ((cost + cost) - cost) - cost, left to right
  pushNewSourceEvents / pushNewSinkEvents     D[j+1] - S[i];  cost(i,l) - cost(i,l+1)
  push                                        D[optimalSink] - S[i];  D[lastOccupiedSink+1] - S[i+1]
  pushToLastSink                              D[j+1] - S[i+1]
  getSlope                                    slope += events.top().second  (running sum from 0, top first)
  pushOnce                                    getSlope() + cost(i, j)
  flushPositions                              totalDemand() - S[p.size()]
  computeAssignment                           (p[i] + S[i]) + s[i] / 2

A value that does not fit is a `Fault` (the C++ has undefined behaviour there); otherwise it is
the mathematical value, so a run without fault computes exactly what the unbounded model
`Model/Transp1d.lean` computes.  The result type `C α = Except Fault (Except Err α)` keeps the two
kinds of outcome apart: `.error f` = a fault, `.ok (.error Err.invalid)` = `check()` throws
`std::runtime_error`, `.ok (.error Err.indexOutOfRange)` = out-of-range `operator[]` (excluded by
C14's `assign_total`), `.ok (.ok a)` = normal return.  Division by zero in `missing / nbSinks()`
(no sink, positive supply) is `Fault.divByZero` here and `Err.divByZero` in the unbounded model.

`int` arithmetic.  The only `int` operations are index computations (`j + 1`, `i - 1`, `b - 1`,
`lastOccupiedSink + 1`, `currentSink + 1`, `i + 1`, `nbSinks() - 1`, loop counters) and the
narrowings `int nbSources() = u.size()`, `(int) p.size()`, `int b = upper_bound(…) - v.begin()`.
All of them are bounded by `max(nbSources, nbSinks) + 1`; they are modelled as `Nat` and argued
once: the domain predicate of `Proofs/CheckedTransp1d.lean` demands
`nbSources, nbSinks < 2^31 - 1`, under which none of them can leave `int`.  (`for (int i = 0;
i < missing; ++i)` compares an `int` with a `long long` `missing < nbSinks()`.)

Functions without typed arithmetic (`Transportation1dSorter`, `std::upper_bound`, the priority
queue, `flush`, `walk`, `convertAssignmentBack`) are the unbounded model's.
-/
namespace ColoVerif.Transp1d
open ColoVerif.Checked

/-- a fault, or the outcome of the unbounded model -/
def C (α : Type) : Type := Except Fault (Except Err α)

def C.bind {α β : Type} (x : C α) (f : α → C β) : C β :=
  match x with
  | .error e => .error e
  | .ok (.error e) => .ok (.error e)
  | .ok (.ok a) => f a

instance : Monad C where
  pure a := .ok (.ok a)
  bind := C.bind

/-- a step of the unbounded model (bounds-checked access, untyped function) -/
def liftE {α : Type} (x : M α) : C α := Except.ok x

/-- a typed arithmetic step -/
def liftF {α : Type} (x : Except Fault α) : C α :=
  match x with
  | .ok a => .ok (.ok a)
  | .error e => .error e

/-- `std::abs(long long)`; `std::abs(LLONG_MIN)` is undefined -/
def absI64 (site : String) (a : Int) : Except Fault Int := chk64 site (iabs a)

/-! ### totals, check, balanceDemand -/

/-- `long long ret = 0; for (i < k) ret += l[i]` with `ret = acc` so far -/
def sumFirstC (site : String) : Int → Nat → List Int → C Int
  | acc, 0, _ => pure acc
  | _, _ + 1, [] => liftE (throw Err.indexOutOfRange)
  | acc, k + 1, x :: xs => do
    let a ← liftF (addI64 site acc x)
    sumFirstC site a k xs

def totalSupplyC (pb : Problem) : C Int := sumFirstC "totalSupply: ret += s[i]" 0 pb.nbSources pb.s
def totalDemandC (pb : Problem) : C Int := sumFirstC "totalDemand: ret += d[i]" 0 pb.nbSinks pb.d

/-- the part of `Transportation1d::check()` before the totals -/
def checkShape (pb : Problem) : Bool :=
  pb.s.length == pb.u.length && pb.d.length == pb.v.length &&
  pb.s.all (fun c => decide (0 ≤ c)) && pb.d.all (fun c => decide (0 ≤ c))

/-- `Transportation1d::check()` -/
def checkC (pb : Problem) : C Unit :=
  if checkShape pb then do
    let ts ← totalSupplyC pb
    let td ← totalDemandC pb
    if ts ≤ td then pure () else liftE (throw Err.invalid)
  else liftE (throw Err.invalid)

/-- `for (i < k) d[i] += x` -/
def incrFirstC (site : String) : Nat → Int → List Int → C (List Int)
  | 0, _, l => pure l
  | _ + 1, _, [] => liftE (throw Err.indexOutOfRange)
  | k + 1, x, y :: ys => do
    let z ← liftF (addI64 site y x)
    let r ← incrFirstC site k x ys
    pure (z :: r)

def balanceDemandC (pb : Problem) : C Problem := do
  let ts ← totalSupplyC pb
  let td ← totalDemandC pb
  let missing ← liftF (subI64 "balanceDemand: totalSupply() - totalDemand()" ts td)
  if missing ≤ 0 then pure pb
  else do
    let added ← liftF (divI64 "balanceDemand: missing / nbSinks()" missing pb.nbSinks)
    let d1 ← incrFirstC "balanceDemand: d[i] += added" pb.nbSinks added pb.d
    let prod ← liftF (mulI64 "balanceDemand: added * nbSinks()" added pb.nbSinks)
    let rest ← liftF (subI64 "balanceDemand: missing - added * nbSinks()" missing prod)
    let d2 ← incrFirstC "balanceDemand: d[i] += 1LL" rest.toNat 1 d1
    pure { pb with d := d2 }

/-! ### setupData -/

/-- `D.push_back(D.back() + c)` starting from `acc` -/
def prefixFromC (site : String) (acc : Int) : List Int → Except Fault (List Int)
  | [] => .ok [acc]
  | c :: cs =>
    andThen (addI64 site acc c) fun a =>
    andThen (prefixFromC site a cs) fun r => .ok (acc :: r)

def mkSolverC (u v s d : List Int) : Except Fault Solver :=
  andThen (prefixFromC "setupData: D.back() + c" 0 d) fun D =>
  andThen (prefixFromC "setupData: S.back() + c" 0 s) fun S => .ok ⟨u, v, s, d, S, D⟩

def convertC (so : Sorter) (pb : Problem) : C Solver := do
  let su ← liftE (gather pb.u so.srcOrder)
  let ss ← liftE (gather pb.s so.srcOrder)
  let sv ← liftE (gather pb.v so.snkOrder)
  let sd ← liftE (gather pb.d so.snkOrder)
  liftF (mkSolverC su sv ss sd)

/-! ### the sweep -/

def costC (sv : Solver) (i j : Nat) : C Int := do
  let a ← liftE (get sv.u i)
  let b ← liftE (get sv.v j)
  let d ← liftF (subI64 "cost: u[i] - v[j]" a b)
  liftF (absI64 "cost: std::abs(u[i] - v[j])" d)

/-- `delta(i, j)`: `((cost(i,j+1) + cost(i+1,j)) - cost(i+1,j+1)) - cost(i,j)` -/
def deltaC (sv : Solver) (i j : Nat) : C Int := do
  let a ← costC sv i (j + 1)
  let b ← costC sv (i + 1) j
  let c ← costC sv (i + 1) (j + 1)
  let e ← costC sv i j
  let ab ← liftF (addI64 "delta: cost(i,j+1) + cost(i+1,j)" a b)
  let abc ← liftF (subI64 "delta: … - cost(i+1,j+1)" ab c)
  liftF (subI64 "delta: … - cost(i,j)" abc e)

def updOptC (sv : Solver) (i : Nat) : Nat → Nat → C Nat
  | 0, j => pure j
  | k + 1, j =>
    if j + 1 < sv.nbSinks then do
      let c0 ← costC sv i j
      let c1 ← costC sv i (j + 1)
      if c1 ≤ c0 then updOptC sv i k (j + 1) else pure j
    else pure j

def srcEvLoopC (sv : Solver) (i : Nat) : Nat → Nat → List Event → C (List Event)
  | 0, _, ev => pure ev
  | cnt + 1, j, ev => do
    let a ← liftE (get sv.D (j + 1))
    let b ← liftE (get sv.S i)
    let dl ← deltaC sv (i - 1) j
    let pos ← liftF (subI64 "pushNewSourceEvents: D[j+1] - S[i]" a b)
    srcEvLoopC sv i cnt (j + 1) (emplacePos ev pos dl)

def pushNewSourceEventsC (sv : Solver) (i : Nat) (st : St) : C St :=
  if i = 0 then pure st
  else do
    let up ← liftE (get sv.u (i - 1))
    let ui ← liftE (get sv.u i)
    let ev ← srcEvLoopC sv i (min (lowerBound sv.v ui) st.lastOcc - (upperBound sv.v up - 1))
      (upperBound sv.v up - 1) st.events
    pure { st with events := ev }

def snkEvLoopC (sv : Solver) (i : Nat) (lastPos : Int) : Nat → Nat → List Event → C (List Event)
  | 0, _, ev => pure ev
  | cnt + 1, l, ev => do
    let a ← liftE (get sv.D (l + 1))
    let b ← liftE (get sv.S i)
    let c0 ← costC sv i l
    let c1 ← costC sv i (l + 1)
    let pos ← liftF (subI64 "pushNewSinkEvents: D[l+1] - S[i]" a b)
    let dl ← liftF (subI64 "pushNewSinkEvents: cost(i,l) - cost(i,l+1)" c0 c1)
    snkEvLoopC sv i lastPos cnt (l + 1) (emplacePos ev (min pos lastPos) dl)

def pushNewSinkEventsC (sv : Solver) (i j : Nat) (st : St) : C St :=
  if j ≤ st.lastOcc then pure st
  else do
    let ev ← snkEvLoopC sv i st.lastPosition (j - st.lastOcc) st.lastOcc st.events
    pure { st with events := ev, lastOcc := j }

/-- the `while` of `getSlope`: `slope += events.top().second` with `slope = acc` so far -/
def popAtC (L : Int) : Int → List Event → Except Fault (Int × List Event)
  | acc, [] => .ok (acc, [])
  | acc, e :: es =>
    if e.1 = L then
      andThen (addI64 "getSlope: slope += events.top().second" acc e.2) fun a => popAtC L a es
    else .ok (acc, e :: es)

/-- `getSlope(false)` -/
def getSlopeKeepC (st : St) : Except Fault (Int × St) :=
  andThen (popAtC st.lastPosition 0 st.events) fun r =>
    .ok (r.1, { st with events := if r.1 ≠ 0 then evInsert (st.lastPosition, r.1) r.2 else r.2 })

def pushToLastSinkC (sv : Solver) (i : Nat) (st : St) : C St := do
  let a ← liftE (get sv.D (st.lastOcc + 1))
  let b ← liftE (get sv.S (i + 1))
  let df ← liftF (subI64 "pushToLastSink: D[j+1] - S[i+1]" a b)
  let r ← liftF (popAtC st.lastPosition 0 st.events)
  pure { st with lastPosition := topOr (max df 0) r.2,
                 events := emplacePos r.2 (topOr (max df 0) r.2) r.1 }

def pushToNewSinkC (sv : Solver) (i : Nat) (st : St) : C St :=
  pushNewSinkEventsC sv i (st.lastOcc + 1) st

def pushOnceC (sv : Solver) (i : Nat) (st : St) : C St :=
  if st.lastOcc + 1 = sv.nbSinks then pushToLastSinkC sv i st
  else if st.lastPosition = 0 then pushToNewSinkC sv i st
  else do
    let right ← costC sv i (st.lastOcc + 1)
    let sl ← liftF (getSlopeKeepC st)
    let c ← costC sv i st.lastOcc
    let left ← liftF (addI64 "pushOnce: getSlope() + cost(i, j)" sl.1 c)
    if right ≤ left then pushToNewSinkC sv i sl.2 else pushToLastSinkC sv i sl.2

def pushLoopC (sv : Solver) (i : Nat) : Nat → St → C St
  | 0, _ => liftE (throw Err.outOfFuel)
  | fuel + 1, st => do
    let a ← liftE (get sv.D (st.lastOcc + 1))
    let b ← liftE (get sv.S (i + 1))
    let df ← liftF (subI64 "push: D[lastOccupiedSink+1] - S[i+1]" a b)
    if df < st.lastPosition then do
      let st' ← pushOnceC sv i st
      pushLoopC sv i fuel st'
    else pure st

def pushC (sv : Solver) (i : Nat) (st : St) : C St := do
  let o ← updOptC sv i sv.nbSinks st.optSink
  let st1 ← pushNewSourceEventsC sv i { st with optSink := o }
  let a ← liftE (get sv.D o)
  let b ← liftE (get sv.S i)
  let df ← liftF (subI64 "push: D[optimalSink] - S[i]" a b)
  let st2 ← pushNewSinkEventsC sv i o { st1 with lastPosition := max st1.lastPosition df }
  let st3 ← pushLoopC sv i (loopFuel sv st2) st2
  pure { st3 with pRev := st3.lastPosition :: st3.pRev }

def pushAllC (sv : Solver) : Nat → Nat → St → C St
  | 0, _, st => pure st
  | cnt + 1, i, st => do
    let st' ← pushC sv i st
    pushAllC sv cnt (i + 1) st'

/-- `run()` -/
def runC (sv : Solver) : C (List Int) := do
  let st ← pushAllC sv sv.nbSources 0 St.init
  let td ← liftE (lastD sv)
  let sn ← liftE (get sv.S st.pRev.reverse.length)
  let mx ← liftF (subI64 "flushPositions: totalDemand() - S[p.size()]" td sn)
  pure (flush mx st.pRev.reverse)

/-! ### computeAssignment -/

def assignLoopC (sv : Solver) : List Int → Nat → Nat → List Int → C (List Nat)
  | [], _, _, _ => pure []
  | pi :: ps, i, cs, rest => do
    let si ← liftE (get sv.S i)
    let ci ← liftE (get sv.s i)
    let t ← liftF (addI64 "computeAssignment: p[i] + S[i]" pi si)
    let h ← liftF (divI64 "computeAssignment: s[i] / 2" ci 2)
    let pos ← liftF (addI64 "computeAssignment: … + s[i] / 2" t h)
    let r ← liftE (walk pos rest cs)
    let tl ← assignLoopC sv ps (i + 1) r.1 r.2
    pure (r.1 :: tl)

def computeAssignmentC (sv : Solver) (p : List Int) : C (List Nat) :=
  assignLoopC sv p 0 0 (sv.D.drop 1)

/-! ### Transportation1d::assign and the call sequence of improveX/YTransport -/

def assignC (pb : Problem) : C (List Nat) := do
  checkC pb
  let so ← liftE (mkSorter pb)
  let sv ← convertC so pb
  let p ← runC sv
  let a ← computeAssignmentC sv p
  liftE (convertAssignmentBack so a pb.nbSources)

/-- unbounded model of `pb.balanceDemand(); pb.assign();` -/
def balanceThenAssign (pb : Problem) : M (List Nat) := do
  let pb' ← balanceDemand pb
  assign pb'

/-- checked model of `Transportation1d pb(u, v, s, d); pb.balanceDemand(); pb.assign();` -/
def balanceThenAssignC (pb : Problem) : Except Fault (M (List Nat)) :=
  C.bind (balanceDemandC pb) assignC

end ColoVerif.Transp1d
