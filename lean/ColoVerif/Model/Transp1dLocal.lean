import ColoVerif.Model.Transp1d
/-
Local optimality certificate for the positions returned by `Transportation1dSolver::run`
on the sorted, zero-free instance handed to the solver (C14, slack case).

`locCertOk sv p be` is a decidable check on the solver instance `sv`, the positions `p` and
sink prices `be`: prices are non-negative, a sink with a positive price is completely covered by
the sources' intervals, and every source is (weakly) cheaper, prices included, in each sink it
overlaps than in the two neighbouring sinks.  `Proofs/Transp1dOptLocal.lean` proves that on a
sorted instance this local check implies the global dual certificate (Monge property of
`|u i - v j|`), and `Proofs/Transp1dOptBack.lean` transfers it to `certOk` on the original problem.
Core Lean only (the driver evaluates `locCertOk`).
-/
namespace ColoVerif.Transp1d

/-- `cost(i, j)` on the solver's instance, total (`getD`) -/
def cs (sv : Solver) (i j : Nat) : Int := iabs (sv.u.getD i 0 - sv.v.getD j 0)

/-- start of source `i` on the cumulative-demand axis -/
def loP (sv : Solver) (p : List Int) (i : Nat) : Int := sv.S.getD i 0 + p.getD i 0
/-- end of source `i` on the cumulative-demand axis -/
def hiP (sv : Solver) (p : List Int) (i : Nat) : Int := sv.S.getD (i + 1) 0 + p.getD i 0
/-- length of the overlap of source `i` with sink `j` -/
def ovP (sv : Solver) (p : List Int) (i j : Nat) : Int :=
  max 0 (min (hiP sv p i) (sv.D.getD (j + 1) 0) - max (loP sv p i) (sv.D.getD j 0))

/-- amount received by sink `j` from the sources `0..n-1` -/
def fillP (sv : Solver) (p : List Int) (j : Nat) : Nat → Int
  | 0 => 0
  | n + 1 => fillP sv p j n + ovP sv p n j

/-- the local certificate (see the header) -/
def locCertOk (sv : Solver) (p : List Int) (be : List Int) : Bool :=
  allBelow sv.v.length (fun j => decide (0 ≤ be.getD j 0)) &&
  allBelow sv.v.length (fun j => decide (0 < be.getD j 0 →
    fillP sv p j sv.u.length = sv.D.getD (j + 1) 0 - sv.D.getD j 0)) &&
  allBelow sv.u.length (fun i => allBelow (sv.v.length - 1) fun j =>
    decide (0 < ovP sv p i j → cs sv i j + be.getD j 0 ≤ cs sv i (j + 1) + be.getD (j + 1) 0) &&
    decide (0 < ovP sv p i (j + 1) → cs sv i (j + 1) + be.getD (j + 1) 0 ≤ cs sv i j + be.getD j 0))

end ColoVerif.Transp1d
