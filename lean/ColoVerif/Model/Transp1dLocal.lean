import ColoVerif.Model.Transp1d
/-
Local optimality certificate for the positions returned by `Transportation1dSolver::run`
on the sorted, zero-free instance handed to the solver (C14, slack case).

`ivCertOk sv p be` is a decidable O(n·m) check on the solver instance `sv`, the positions `p` and
sink prices `be` (see its docstring).  `Proofs/Transp1dOptLocal.lean` proves that it implies the
global dual certificate `GlobCert` (`ivCert_glob`), and `Proofs/Transp1dOptBack.lean` transfers
that to `certOk` on the original problem.  `locCertOk` is the weaker neighbour-overlap check, kept
with its counterexample (`localCert_not_glob`) and its soundness for strictly increasing sink
positions (`localCert_glob_strict`).  Core Lean only (the driver evaluates `ivCertOk`).
-/
namespace ColoVerif.Transp1d

/-- `cost(i, j)` on the solver's instance, total (`getD`) -/
def cs (sv : Solver) (i j : Nat) : Int := iabs (sv.u.getD i 0 - sv.v.getD j 0)

/-- start of source `i` on the cumulative-demand axis -/
def loP (sv : Solver) (p : List Int) (i : Nat) : Int := sv.S.getD i 0 + p.getD i 0
/-- end of source `i` on the cumulative-demand axis -/
def hiP (sv : Solver) (p : List Int) (i : Nat) : Int := sv.S.getD (i + 1) 0 + p.getD i 0
/-- length of the overlap of source `i` with sink `j` -/
def ovP (sv : Solver) (p : List Int) (i j : Nat) : Int :=
  max 0 (min (hiP sv p i) (sv.D.getD (j + 1) 0) - max (loP sv p i) (sv.D.getD j 0))

/-- amount received by sink `j` from the sources `0..n-1` -/
def fillP (sv : Solver) (p : List Int) (j : Nat) : Nat → Int
  | 0 => 0
  | n + 1 => fillP sv p j n + ovP sv p n j

/-- the local certificate (see the header) -/
def locCertOk (sv : Solver) (p : List Int) (be : List Int) : Bool :=
  allBelow sv.v.length (fun j => decide (0 ≤ be.getD j 0)) &&
  allBelow sv.v.length (fun j => decide (0 < be.getD j 0 →
    fillP sv p j sv.u.length = sv.D.getD (j + 1) 0 - sv.D.getD j 0)) &&
  allBelow sv.u.length (fun i => allBelow (sv.v.length - 1) fun j =>
    decide (0 < ovP sv p i j → cs sv i j + be.getD j 0 ≤ cs sv i (j + 1) + be.getD (j + 1) 0) &&
    decide (0 < ovP sv p i (j + 1) → cs sv i (j + 1) + be.getD (j + 1) 0 ≤ cs sv i j + be.getD j 0))

/-- the interval-guarded local certificate: prices are non-negative, a sink with a positive price
is completely covered, and for every source `i` the priced cost `c i j + be j` does not decrease
from sink `j` to `j+1` once the end of sink `j` lies right of the start of the source, and does not
decrease from `j+1` to `j` once the start of sink `j+1` lies left of the end of the source.
(`locCertOk`, which guards by the overlap with the neighbouring sink only, is NOT sufficient when
neighbouring sinks share a position: `localCert_not_glob`.) -/
def ivCertOk (sv : Solver) (p : List Int) (be : List Int) : Bool :=
  allBelow sv.v.length (fun j => decide (0 ≤ be.getD j 0)) &&
  allBelow sv.v.length (fun j => decide (0 < be.getD j 0 →
    fillP sv p j sv.u.length = sv.D.getD (j + 1) 0 - sv.D.getD j 0)) &&
  allBelow sv.u.length (fun i => allBelow (sv.v.length - 1) fun j =>
    decide (loP sv p i < sv.D.getD (j + 1) 0 →
      cs sv i j + be.getD j 0 ≤ cs sv i (j + 1) + be.getD (j + 1) 0) &&
    decide (sv.D.getD (j + 1) 0 < hiP sv p i →
      cs sv i (j + 1) + be.getD (j + 1) 0 ≤ cs sv i j + be.getD j 0))

end ColoVerif.Transp1d
