import ColoVerif.Gen.Async
/-
C08 — the two-task protocol of `GlobalPlacer::runLB`:

    std::future x = std::async(policy, &NetModel::solveWithPenalty, &xtopo_, xPlacementLB_, xTarget, penalty, params);
    std::future y = std::async(policy, &NetModel::solveWithPenalty, &ytopo_, yPlacementLB_, yTarget, penalty, params);
    xPlacementLB_ = x.get();  yPlacementLB_ = y.get();  callback(LowerBound, xPlacementLB_, yPlacementLB_);

Three threads: the launching thread executes the events listed in `Gen.Async.facts.main`
(launch / get / callback / other), each task executes `runRead t ; runWrite t` (it first reads
everything it reads, then publishes everything it writes).  A task step is enabled once its
`launch` has executed; `get t` is enabled once task `t` has finished (the join).  Which memory
locations a step reads and writes is *derived from the extracted facts* (`access`): by-value
arguments are copied by `launch` into private copies, reference/pointer arguments are accessed by
the task directly, a non-const callee writes its bound object, every mutable static / `mutable`
member is read and written by both tasks.

Values are abstract: a step writes `f step location (values read)` for an arbitrary `f`, so
"same final state" below means: the same for every possible meaning of the computation.
Core Lean only (the driver links this file).
-/
namespace ColoVerif.Sched
open ColoVerif.Gen.Async

inductive Task where
  | X | Y
deriving DecidableEq, Repr

inductive Loc where
  /-- a variable of `runLB` / member of `GlobalPlacer` (index into `facts.varNames`) -/
  | var (n : Nat)
  /-- std::async's decay-copy of by-value argument `i` of task `t` -/
  | copy (t : Task) (i : Nat)
  /-- what task `t` has read (thread-private) -/
  | tmp (t : Task)
  /-- the shared state of the future of task `t` -/
  | res (t : Task)
  /-- a mutable static-storage object or `mutable` member of the library -/
  | static (n : Nat)
deriving DecidableEq, Repr

inductive Step where
  | launch (t : Task)
  | runRead (t : Task)
  | runWrite (t : Task)
  | get (t : Task)
  | callback
  | other
deriving DecidableEq, Repr

inductive Tid where
  | main
  | task (t : Task)
deriving DecidableEq, Repr

def call (F : Facts) : Task → AsyncCall
  | .X => F.callX
  | .Y => F.callY

def taskOfNat : Nat → Option Task
  | 0 => some .X
  | 1 => some .Y
  | _ => none

def stepOfEvent : MainEvent → Step
  | .launch n => match taskOfNat n with
    | some t => .launch t
    | none => .other
  | .get n _ => match taskOfNat n with
    | some t => .get t
    | none => .other
  | .callback _ => .callback
  | .other => .other

/-- the program of the launching thread -/
def mainProg (F : Facts) : List Step := F.main.map stepOfEvent

def taskProg (t : Task) : List Step := [.runRead t, .runWrite t]

def getTargets (F : Facts) (t : Task) : List Loc :=
  F.main.filterMap fun e => match e with
    | .get n v => if taskOfNat n = some t then some (Loc.var v) else none
    | _ => none

def callbackReads (F : Facts) : List Loc :=
  F.main.flatMap fun e => match e with
    | .callback rs => rs.map Loc.var
    | _ => []

def statics (F : Facts) : List Loc :=
  (List.range (F.mutableStatics.length + F.mutableMembers.length)).map Loc.static

def allVars (F : Facts) : List Loc := (List.range F.varNames.length).map Loc.var

/-- arguments with their positions -/
def idxArgs (c : AsyncCall) : List (Nat × Arg) := (List.range c.args.length).zip c.args

def valueArgs (c : AsyncCall) : List (Nat × Arg) := (idxArgs c).filter fun ia => ia.2.mode == .byValue
def sharedArgs (c : AsyncCall) : List (Nat × Arg) := (idxArgs c).filter fun ia => ia.2.mode != .byValue
/-- shared arguments the callee could write through (`std::ref`, pointers) -/
def writableArgs (c : AsyncCall) : List (Nat × Arg) :=
  (idxArgs c).filter fun ia => ia.2.mode == .byRef || ia.2.mode == .pointer

structure Access where
  reads : List Loc
  writes : List Loc
deriving Repr

/-- locations read / written by each step, derived from the extracted facts -/
def access (F : Facts) : Step → Access
  | .launch t =>
    ⟨(valueArgs (call F t)).map (fun ia => Loc.var ia.2.var), (valueArgs (call F t)).map (fun ia => Loc.copy t ia.1)⟩
  | .runRead t =>
    ⟨[Loc.var (call F t).boundVar] ++ (valueArgs (call F t)).map (fun ia => Loc.copy t ia.1)
       ++ (sharedArgs (call F t)).map (fun ia => Loc.var ia.2.var) ++ statics F,
     [Loc.tmp t]⟩
  | .runWrite t =>
    ⟨[Loc.tmp t],
     [Loc.res t] ++ (if (call F t).calleeConst then [] else [Loc.var (call F t).boundVar])
       ++ (writableArgs (call F t)).map (fun ia => Loc.var ia.2.var) ++ statics F⟩
  | .get t => ⟨[Loc.res t], getTargets F t⟩
  | .callback => ⟨callbackReads F, []⟩
  | .other => ⟨allVars F, allVars F⟩

def copies (F : Facts) (t : Task) : List Loc := (List.range (call F t).args.length).map (Loc.copy t)

/-- every location of the model -/
def allLocs (F : Facts) : List Loc :=
  allVars F ++ copies F .X ++ copies F .Y ++ [.tmp .X, .tmp .Y, .res .X, .res .Y] ++ statics F

/-! ### Scheduler -/

structure Pcs where
  m : Nat
  x : Nat
  y : Nat
deriving DecidableEq, Repr

def Pcs.task (p : Pcs) : Task → Nat
  | .X => p.x
  | .Y => p.y

def Pcs.bump (p : Pcs) : Task → Pcs
  | .X => { p with x := p.x + 1 }
  | .Y => { p with y := p.y + 1 }

def launched (F : Facts) (p : Pcs) (t : Task) : Bool := ((mainProg F).take p.m).contains (.launch t)

/-- `get t` blocks until task `t` has finished -/
def joinOk (p : Pcs) : Step → Bool
  | .get t => p.task t == 2
  | _ => true

/-- the step thread `tid` would execute next, if it is enabled, and the new program counters -/
def nextStep (F : Facts) (p : Pcs) : Tid → Option (Step × Pcs)
  | .main => match (mainProg F)[p.m]? with
    | none => none
    | some s => if joinOk p s then some (s, { p with m := p.m + 1 }) else none
  | .task t =>
    if launched F p t then
      match (taskProg t)[p.task t]? with
      | none => none
      | some s => some (s, p.bump t)
    else none

def terminated (F : Facts) (p : Pcs) : Bool := p.m == (mainProg F).length && p.x == 2 && p.y == 2

/-! ### Execution over an arbitrary value domain -/

section exec
variable {V : Type} [Inhabited V]

/-- value of location `l` in a state stored as a list aligned with `locs` -/
def rd (locs : List Loc) (st : List V) (l : Loc) : V := st.getD (locs.idxOf l) default

/-- a step writes `f step location (values it read)` to every location it writes -/
def applyStep (f : Step → Loc → List V → V) (locs : List Loc) (A : Access) (s : Step) (st : List V) : List V :=
  (locs.zip st).map fun lv => if A.writes.contains lv.1 then f s lv.1 (A.reads.map (rd locs st)) else lv.2

structure Cfg (V : Type) where
  p : Pcs
  st : List V
  /-- steps executed so far, most recent first -/
  tr : List Step

def stepCfg (F : Facts) (f : Step → Loc → List V → V) (c : Cfg V) (tid : Tid) : Option (Cfg V) :=
  match nextStep F c.p tid with
  | none => none
  | some sp => some ⟨sp.2, applyStep f (allLocs F) (access F sp.1) sp.1 c.st, sp.1 :: c.tr⟩

/-- run a schedule (a sequence of thread choices); `none` if some choice is not enabled -/
def runSched (F : Facts) (f : Step → Loc → List V → V) : List Tid → Cfg V → Option (Cfg V)
  | [], c => some c
  | t :: ts, c => match stepCfg F f c t with
    | none => none
    | some c' => runSched F f ts c'

def initCfg (F : Facts) (σ : Loc → V) : Cfg V := ⟨⟨0, 0, 0⟩, (allLocs F).map σ, []⟩

end exec

section lb
variable {V : Type} [Inhabited V]

/-- one lower-bound step under a given schedule: the state it leaves, as a function of the
location; `none` if the schedule is not a complete linearisation -/
def lbStep (F : Facts) (f : Step → Loc → List V → V) (sched : List Tid) (σ : Loc → V) : Option (Loc → V) :=
  match runSched F f sched (initCfg F σ) with
  | some c => if terminated F c.p then some (rd (allLocs F) c.st) else none
  | none => none

/-- consecutive lower-bound steps, each under its own schedule -/
def lbSteps (F : Facts) (f : Step → Loc → List V → V) : List (List Tid) → (Loc → V) → Option (Loc → V)
  | [], σ => some σ
  | s :: ss, σ => match lbStep F f s σ with
    | some τ => lbSteps F f ss τ
    | none => none

end lb

/-- the sequential schedule: each task runs to completion right after its launch -/
def canonSched (F : Facts) : List Tid :=
  (mainProg F).flatMap fun s => match s with
    | .launch t => [.main, .task t, .task t]
    | _ => [.main]

def tids : List Tid := [.main, .task .X, .task .Y]

/-! ### Symbolic values -/

inductive Val where
  | init (l : Loc)
  | nil
  | cons (a : Val) (rest : Val)
  | out (s : Step) (l : Loc) (args : Val)
deriving DecidableEq, Repr

instance : Inhabited Val := ⟨.nil⟩

def Val.enc : List Val → Val
  | [] => .nil
  | a :: r => .cons a (Val.enc r)

def symF (s : Step) (l : Loc) (args : List Val) : Val := .out s l (Val.enc args)

/-- every configuration reachable in at most `n` steps (a tree walk over all enabled choices) -/
def explore (F : Facts) : Nat → Cfg Val → List (Cfg Val)
  | 0, c => [c]
  | n + 1, c => c :: tids.flatMap fun t => match stepCfg F symF c t with
    | none => []
    | some c' => explore F n c'

def totalSteps (F : Facts) : Nat := (mainProg F).length + 4

def symInit (F : Facts) : Cfg Val := initCfg F Val.init

/-- all complete executions of the protocol -/
def completeRuns (F : Facts) : List (Cfg Val) :=
  (explore F (totalSteps F) (symInit F)).filter fun c => terminated F c.p

def canonSymState (F : Facts) : List Val :=
  match runSched F symF (canonSched F) (symInit F) with
  | some c => c.st
  | none => []

section canon
variable {V : Type} [Inhabited V]

/-- final state of the sequential schedule -/
def canonState (F : Facts) (f : Step → Loc → List V → V) (σ : Loc → V) : List V :=
  match runSched F f (canonSched F) (initCfg F σ) with
  | some c => c.st
  | none => []

def canonStep (F : Facts) (f : Step → Loc → List V → V) (σ : Loc → V) : Loc → V :=
  rd (allLocs F) (canonState F f σ)

def canonIter (F : Facts) (f : Step → Loc → List V → V) : Nat → (Loc → V) → (Loc → V)
  | 0, σ => σ
  | n + 1, σ => canonIter F f n (canonStep F f σ)

end canon

/-- position (in the program of the launching thread) of the later of the two joins: from there on no task is
running -/
def lastJoin (F : Facts) : Nat :=
  max ((mainProg F).idxOf (.get .X)) ((mainProg F).idxOf (.get .Y))

/-- the launching thread joins both tasks before the callback and does nothing unknown while a task may be
running, i.e. before the later of the two joins.  Statements after both joins (e.g. the finiteness checks of
the two results in `runLB`) stay in the program as `other` steps - modelled as reading and writing every
variable - and are covered by `no_conflicting_access` like every other step. -/
def getsPrecedeCallback (F : Facts) : Bool :=
  (mainProg F).contains (.get .X) && (mainProg F).contains (.get .Y) &&
    !((mainProg F).take (lastJoin F)).contains .other &&
    decide ((mainProg F).idxOf (.get .X) < (mainProg F).idxOf .callback) &&
    decide ((mainProg F).idxOf (.get .Y) < (mainProg F).idxOf .callback)

/-! ### Happens-before -/

def allSteps (F : Facts) : List Step := mainProg F ++ taskProg .X ++ taskProg .Y

def adjacent : List Step → List (Step × Step)
  | a :: b :: r => (a, b) :: adjacent (b :: r)
  | _ => []

def hbEdges (F : Facts) : List (Step × Step) :=
  adjacent (mainProg F) ++
    [(.launch .X, .runRead .X), (.runRead .X, .runWrite .X), (.runWrite .X, .get .X),
     (.launch .Y, .runRead .Y), (.runRead .Y, .runWrite .Y), (.runWrite .Y, .get .Y)]

def reach (E : List (Step × Step)) : Nat → Step → Step → Bool
  | 0, _, _ => false
  | n + 1, a, b => E.any fun e => e.1 == a && (e.2 == b || reach E n e.2 b)

/-- `a` happens before `b` (transitive closure of program order, launch and join edges) -/
def hb (F : Facts) (a b : Step) : Bool := reach (hbEdges F) (allSteps F).length a b

def conflict (A B : Access) : Bool :=
  A.writes.any (fun l => B.writes.contains l || B.reads.contains l) || B.writes.any (fun l => A.reads.contains l)

/-- position of a step in a trace (traces are stored most recent first) -/
def beforeIn (tr : List Step) (a b : Step) : Bool := tr.reverse.idxOf a < tr.reverse.idxOf b

end ColoVerif.Sched
