import ColoVerif.Model.Expand
import ColoVerif.Model.F64
/-
Cell expansion AS COMPILED (src/coloquinte.cpp, x86-64/SSE2, no contraction, FLT_EVAL_METHOD = 0):
`Circuit::computeRowPlacementArea`, `expandCellsToDensity`, `expandCellsByFactor`, `computeCellExpansion`
with every `double` operation `f64 (exact op)` and every `float` operation `f32' (exact op)`
(`Model/F64.lean`: IEEE-754 round-to-nearest-even over exact rationals), and the usual arithmetic
conversions applied literally:

* `2 * rowSideMargin * h`      = `f64 (f64 (2·m) · f64 h)`            (`int`→`double`, `long long`→`double`)
* `w -= <double>` on a `long long` = `(long long) f64 (f64 w − …)`    (truncation toward zero)
* `(double)cellArea / (double)rowArea`, `targetDensity / density`, `maxRowWidth * maxExpandedWidth`
* `w * expansionFactor` (`int`·`double`), `(int)fracW`, `h * (fracW - newW)`, `missingArea += …`,
  `while (missingArea >= h) { ++newW; missingArea -= h; }`
* `expandedArea += (double)e * (double)area(i)`; `e = 1.0 + (e - 1.0) * ratio` in `double`, narrowed to `float`
* `int newW = w * expansion[i]` = `(int) f32' (f32' w · e)` (`int`→`float`, `float` product), then
  `if (expansion[i] >= 1.0f) newW = std::max(newW, w)` (the unrepaired `cellWidth_[i] *= expansion[i]` is in
  `Model/LegacyExpandF.lean`)
* `(c - 1.0f) * penaltyFactor + fixedPenalty + 1.0` = `f32' (f64 (f32' (f32' (f32' (c−1)·pf) + fp) + 1))`
* `e < 0.999f`, `c > 1.0f`, `fixedPenalty < 0.0f`, `penaltyFactor < 1.0f` compare the values
* `std::sort` of the expansion map by `(minX, minY)` is `List.mergeSort` (any order gives the same result,
  `Proofs/ExpandF.lean`: `regionMax_perm`).

`f64`/`f32'` have an unbounded exponent range above, and C++ conversions to `int`/`long long` are
undefined out of range: the model is the code exactly on the inputs that satisfy the decidable *guards*
(`rowGuard`, `densityGuard`, `byFactorGuard`, `cellExpansionGuard`: every floating-point result finite,
every conversion in range, no division by a zero, the carry loop finished within its fuel); the driver
answers `out-of-domain` elsewhere.  The functions themselves are total, and most theorems of
`Properties/C18.lean` need no guard.  Integers stay unbounded `Int` (as in `Model/Expand.lean`).
Core Lean only.
-/
namespace ColoVerif
namespace ExpandF
open Expand F64

/-! ### guards -/

def two (n : Nat) : Rat := ((2 ^ n : Nat) : Rat)

/-- finite as a `double` (after rounding) -/
def fin64 (q : Rat) : Bool := decide (-(two 1024) < q) && decide (q < two 1024)
/-- finite as a `float` (after rounding) -/
def fin32 (q : Rat) : Bool := decide (-(two 128) < q) && decide (q < two 128)
/-- `(long long) q` is defined -/
def inI64 (q : Rat) : Bool := decide (-(two 63) - 1 < q) && decide (q < two 63)
/-- `(int) q` is defined -/
def inI32 (q : Rat) : Bool := decide (-(two 31) - 1 < q) && decide (q < two 31)
/-- the value fits an `int` -/
def isI32 (n : Int) : Bool := decide (-(2 ^ 31 : Int) ≤ n) && decide (n < 2 ^ 31)

/-- the value fits a `long long` -/
def isI64 (n : Int) : Bool := decide (-(2 ^ 63 : Int) ≤ n) && decide (n < 2 ^ 63)

/-- `(double) n` for an integer `n` -/
def d (n : Int) : Rat := f64 (n : Rat)

/-! ### `computeRowPlacementArea` -/

/-- `2 * rowSideMargin * h` -/
def marginTerm (margin : Rat) (h : Int) : Rat := f64 (f64 (2 * margin) * d h)

/-- the `double` that `w -= 2 * rowSideMargin * h` converts back to `long long` -/
def segWidthD (margin : Rat) (r : Row) : Rat := f64 (d r.rect.width - marginTerm margin r.rect.height)

/-- `w` after `w -= 2 * rowSideMargin * h` -/
def segWidth (margin : Rat) (r : Row) : Int := truncRat (segWidthD margin r)

/-- the loop body of `computeRowPlacementArea` for one free row segment -/
def segArea (margin : Rat) (r : Row) : Int :=
  if 0 < segWidth margin r then segWidth margin r * r.rect.height else 0

/-- `Circuit::computeRowPlacementArea(rowSideMargin)` -/
def rowPlacementArea (c : Circuit) (margin : Rat) : Int :=
  ((c.computeRows []).map (segArea margin)).sum

/-- every `w -= …` is defined: the `double` is finite and in the range of `long long`
(a non-finite `2 * rowSideMargin * h` makes the difference non-finite as well) -/
def rowGuard (c : Circuit) (margin : Rat) : Bool :=
  fin64 margin && fin64 (f64 (2 * margin)) && (c.computeRows []).all fun r => inI64 (segWidthD margin r)

/-! ### `expandCellsToDensity` -/

/-- `density = (double)cellArea / (double)rowArea` -/
def densityOf (A R : Int) : Rat := f64 (d A / d R)

def density (c : Circuit) (margin : Rat) : Rat := densityOf (movableArea c.cells) (rowPlacementArea c margin)

/-- does `expandCellsToDensity` / `expandCellsByFactor` return early? (`A` = movable area, `R` = row area,
`t` = target or maximum density) -/
def noopOf (A R : Int) (t : Rat) : Prop := A = 0 ∨ R = 0 ∨ densityOf A R ≥ t

instance (A R : Int) (t : Rat) : Decidable (noopOf A R t) := by unfold noopOf; exact inferInstance

def densityNoop (c : Circuit) (target margin : Rat) : Prop :=
  noopOf (movableArea c.cells) (rowPlacementArea c margin) target

instance (c : Circuit) (target margin : Rat) : Decidable (densityNoop c target margin) := by
  unfold densityNoop; exact inferInstance

/-- `expansionFactor = targetDensity / density` -/
def factorOf (A R : Int) (target : Rat) : Rat := f64 (target / densityOf A R)

def densityFactor (c : Circuit) (target margin : Rat) : Rat :=
  factorOf (movableArea c.cells) (rowPlacementArea c margin) target

/-- `maxCellWidth = maxRowWidth * maxExpandedWidth` -/
def widthCap (c : Circuit) (maxExpandedWidth : Rat) : Rat := f64 (d (maxRowWidth c.rows) * maxExpandedWidth)

/-- `w * expansionFactor` -/
def scaledW (factor : Rat) (cl : Cell) : Rat := f64 (d cl.w * factor)

/-- `fracW` after the cap (`sw` = `w * expansionFactor`) -/
def capTo (cap sw : Rat) : Rat := if sw > cap then cap else sw

def fracW (factor cap : Rat) (cl : Cell) : Rat := capTo cap (scaledW factor cl)

/-- `h * (fracW - newW)` with `newW = (int)fracW` -/
def missingTermOf (h : Int) (fw : Rat) : Rat := f64 (d h * f64 (fw - d (truncRat fw)))

def missingTerm (factor cap : Rat) (cl : Cell) : Rat := missingTermOf cl.h (fracW factor cap cl)

/-- `missingArea` right after `missingArea += h * (fracW - newW)` -/
def missingAdd (factor cap missing : Rat) (cl : Cell) : Rat :=
  f64 (missing + missingTerm factor cap cl)

/-- `while (missingArea >= h) { ++newW; missingArea -= h; }` (`h` already converted to `double`);
the state is returned as it is when the fuel runs out -/
def carryLoop (h : Rat) : Nat → Int → Rat → Int × Rat
  | 0, w, m => (w, m)
  | fuel + 1, w, m => if m ≥ h then carryLoop h fuel (w + 1) (f64 (m - h)) else (w, m)

/-- enough iterations: the subtractions are exact below `2^53`, so the loop runs `⌊m/h⌋` times -/
def carryFuel (h m : Rat) : Nat := (m / h).floor.toNat + 2

/-- the carry loop from `newW = (int)fw`, `missingArea = m` -/
def carryFrom (h : Rat) (fw m : Rat) : Int × Rat := carryLoop h (carryFuel h m) (truncRat fw) m

/-- `(newW, missingArea)` after the carry loop of an active cell -/
def carryOf (h : Int) (fw missing : Rat) : Int × Rat :=
  carryFrom (d h) fw (f64 (missing + missingTermOf h fw))

def carry (factor cap missing : Rat) (cl : Cell) : Int × Rat := carryOf cl.h (fracW factor cap cl) missing

/-- one iteration of the expansion loop: carried missing area afterwards -/
def stepMissing (factor cap missing : Rat) (cl : Cell) : Rat :=
  if active cl then (carry factor cap missing cl).2 else missing

def stepCell (factor cap missing : Rat) (cl : Cell) : Cell :=
  if active cl then { cl with w := (carry factor cap missing cl).1 } else cl

/-- the expansion loop of `expandCellsToDensity` -/
def expandCells (factor cap : Rat) : Rat → List Cell → List Cell
  | _, [] => []
  | m, cl :: rest => stepCell factor cap m cl :: expandCells factor cap (stepMissing factor cap m cl) rest

/-- carried missing area after the whole loop -/
def finalMissing (factor cap : Rat) : Rat → List Cell → Rat
  | m, [] => m
  | m, cl :: rest => finalMissing factor cap (stepMissing factor cap m cl) rest

/-- guard of one iteration: `(int)fracW` defined (hence `w * expansionFactor` finite unless capped — checked
separately), carried area below `2^53`, the carry loop finished (`missingArea < h`), the new width fits an `int` -/
def carryGuard (h : Int) (fw missing : Rat) : Bool :=
  inI32 fw && decide (f64 (missing + missingTermOf h fw) < two 53) &&
  (fun r : Int × Rat => decide (r.2 < d h) && isI32 r.1) (carryOf h fw missing)

def cellGuard (factor cap missing : Rat) (cl : Cell) : Bool :=
  !active cl || (fin64 (scaledW factor cl) && carryGuard cl.h (fracW factor cap cl) missing)

def cellsGuard (factor cap : Rat) : Rat → List Cell → Bool
  | _, [] => true
  | m, cl :: rest => cellGuard factor cap m cl && cellsGuard factor cap (stepMissing factor cap m cl) rest

/-- all sizes fit an `int` (true of every `Circuit` object) -/
def sizesI32 (cells : List Cell) : Bool := cells.all fun cl => isI32 cl.w && isI32 cl.h

/-- `expandCellsToDensity` given the movable area `A` and the row area `R` -/
def toDensityWith (c : Circuit) (A R : Int) (target maxExpandedWidth : Rat) : Circuit :=
  if noopOf A R target then c
  else { c with cells := expandCells (factorOf A R target) (widthCap c maxExpandedWidth) 0 c.cells }

/-- `Circuit::expandCellsToDensity(targetDensity, rowSideMargin, maxExpandedWidth)` -/
def expandCellsToDensity (c : Circuit) (target margin maxExpandedWidth : Rat) : Circuit :=
  toDensityWith c (movableArea c.cells) (rowPlacementArea c margin) target maxExpandedWidth

def toDensityGuardWith (c : Circuit) (A R : Int) (target maxExpandedWidth : Rat) : Bool :=
  isI64 A && isI64 R &&
  (decide (noopOf A R target) ||
   (decide (densityOf A R ≠ 0) && fin64 (factorOf A R target) && fin64 (widthCap c maxExpandedWidth) &&
    cellsGuard (factorOf A R target) (widthCap c maxExpandedWidth) 0 c.cells))

/-- the inputs on which `expandCellsToDensity` above is the compiled code -/
def densityGuard (c : Circuit) (target margin maxExpandedWidth : Rat) : Bool :=
  sizesI32 c.cells && rowGuard c margin && fin64 target && fin64 maxExpandedWidth &&
  toDensityGuardWith c (movableArea c.cells) (rowPlacementArea c margin) target maxExpandedWidth

/-! ### `expandCellsByFactor` -/

/-- `0.999f` -/
def minFactor : Rat := 16760439 / 16777216

/-- `expandedArea` after the loop `expandedArea += (double)expansionFactor[i] * (double)area(i)` -/
def expandedArea : Rat → List Cell → List Rat → Rat
  | acc, cl :: cells, e :: es =>
    expandedArea (if cl.fixed then acc else f64 (acc + f64 (f64 e * d (cellArea cl)))) cells es
  | acc, _, _ => acc

/-- `expandedDensity = expandedArea / (double)rowArea` -/
def expandedDensityOf (E : Rat) (R : Int) : Rat := f64 (E / d R)

/-- `ratio = (maxDensity - density) / (expandedDensity - density)` (`dn` = density, `ed` = expanded density) -/
def ratioOf (maxDensity dn ed : Rat) : Rat := f64 (f64 (maxDensity - dn) / f64 (ed - dn))

/-- `e = 1.0 + (e - 1.0) * ratio`: computed in `double`, stored in a `float` -/
def adjust (ratio e : Rat) : Rat := f32' (f64 (1 + f64 (f64 (f64 e - 1) * ratio)))

/-- the vector `expansion` that is finally applied -/
def effectiveOf (efs : List Rat) (maxDensity dn ed : Rat) : List Rat :=
  if ed > maxDensity then efs.map (adjust (ratioOf maxDensity dn ed)) else efs

def expandedDensity (c : Circuit) (efs : List Rat) (margin : Rat) : Rat :=
  expandedDensityOf (expandedArea 0 c.cells efs) (rowPlacementArea c margin)

def effectiveFactors (c : Circuit) (efs : List Rat) (maxDensity margin : Rat) : List Rat :=
  effectiveOf efs maxDensity (density c margin) (expandedDensity c efs margin)

/-- `(float)w * e` of `cellWidth_[i] *= expansion[i]`, before the conversion to `int` -/
def scaledF (w : Int) (e : Rat) : Rat := f32' (f32' (w : Rat) * e)

/-- the new width of a movable cell (after `fixes/c18-byfactor-wide-cells.diff`):
`int newW = w * expansion[i]; if (expansion[i] >= 1.0f) newW = std::max(newW, w);` — the float product as
before, but a cell that is asked to expand never shrinks (a width above `2^24` is not an exact `float`) -/
def applyOne (w : Int) (e : Rat) : Int :=
  if e ≥ 1 then max (truncRat (scaledF w e)) w else truncRat (scaledF w e)

/-- the width update loop over the movable cells -/
def applyFactors : List Cell → List Rat → List Cell
  | cl :: cells, e :: es =>
    (if cl.fixed then cl else { cl with w := applyOne cl.w e }) :: applyFactors cells es
  | cells, _ => cells

def applyGuard : List Cell → List Rat → Bool
  | cl :: cells, e :: es => (cl.fixed || inI32 (scaledF cl.w e)) && applyGuard cells es
  | _, _ => true

/-- does `expandCellsByFactor` throw? -/
def factorsRejected (c : Circuit) (efs : List Rat) : Bool :=
  decide (efs.length ≠ c.cells.length) || efs.any (fun e => decide (e < minFactor))

/-- `expandCellsByFactor` after the argument checks, given the movable area `A`, the row area `R` and the
accumulated `expandedArea` `E`: new circuit and returned ratio -/
def byFactorWith (c : Circuit) (efs : List Rat) (A R : Int) (E maxDensity : Rat) : Circuit × Rat :=
  if noopOf A R maxDensity then (c, 1)
  else ({ c with cells := (applyFactors c.cells
            (effectiveOf efs maxDensity (densityOf A R) (expandedDensityOf E R))) },
        f64 (expandedDensityOf E R / densityOf A R))

/-- `Circuit::expandCellsByFactor(expansionFactor, maxDensity, rowSideMargin)`; `none` = throws -/
def expandCellsByFactor (c : Circuit) (efs : List Rat) (maxDensity margin : Rat) : Option (Circuit × Rat) :=
  if factorsRejected c efs then none
  else some (byFactorWith c efs (movableArea c.cells) (rowPlacementArea c margin) (expandedArea 0 c.cells efs)
               maxDensity)

def appliedGuard (cells : List Cell) (es : List Rat) : Bool := es.all fin32 && applyGuard cells es

def byFactorGuardWith (c : Circuit) (efs : List Rat) (A R : Int) (E maxDensity : Rat) : Bool :=
  fin64 E && isI64 A && isI64 R &&
  (decide (noopOf A R maxDensity) ||
    (decide (densityOf A R ≠ 0) && fin64 (expandedDensityOf E R) &&
     (!decide (expandedDensityOf E R > maxDensity) ||
       (decide (f64 (expandedDensityOf E R - densityOf A R) ≠ 0) &&
        fin64 (ratioOf maxDensity (densityOf A R) (expandedDensityOf E R)))) &&
     appliedGuard c.cells (effectiveOf efs maxDensity (densityOf A R) (expandedDensityOf E R)) &&
     fin64 (f64 (expandedDensityOf E R / densityOf A R))))

/-- the inputs on which `expandCellsByFactor` above is the compiled code -/
def byFactorGuard (c : Circuit) (efs : List Rat) (maxDensity margin : Rat) : Bool :=
  sizesI32 c.cells && efs.all fin32 && fin64 maxDensity &&
  (factorsRejected c efs ||
   (rowGuard c margin &&
    byFactorGuardWith c efs (movableArea c.cells) (rowPlacementArea c margin) (expandedArea 0 c.cells efs)
      maxDensity))

/-! ### `computeCellExpansion` -/

/-- `(c - 1.0f) * penaltyFactor + fixedPenalty + 1.0`, stored in a `float` -/
def regionFactor (fixedPenalty penaltyFactor cg : Rat) : Rat :=
  f32' (f64 (f32' (f32' (f32' (cg - 1) * penaltyFactor) + fixedPenalty) + 1))

/-- the expansion map before the sort: congested regions (`c > 1.0f`) with their factor -/
def expansionMap (cmap : List (Rect × Rat)) (fixedPenalty penaltyFactor : Rat) : List (Rect × Rat) :=
  (cmap.filter fun rc => decide (rc.2 > 1)).map fun rc => (rc.1, regionFactor fixedPenalty penaltyFactor rc.2)

/-- the comparison of the `std::sort`, as a total preorder `¬ (b < a)` -/
def regionLe (a b : Rect × Rat) : Bool :=
  !(decide (b.1.minX < a.1.minX) || (decide (b.1.minX = a.1.minX) && decide (b.1.minY < a.1.minY)))

/-- the expansion map after `std::sort` (up to the order of regions with equal `(minX, minY)`, which the
maximum below does not see) -/
def sortedMap (cmap : List (Rect × Rat)) (fixedPenalty penaltyFactor : Rat) : List (Rect × Rat) :=
  (expansionMap cmap fixedPenalty penaltyFactor).mergeSort regionLe

/-- `Circuit::computeCellExpansion(congestionMap, fixedPenalty, penaltyFactor)`; `none` = throws -/
def computeCellExpansion (c : Circuit) (cmap : List (Rect × Rat)) (fixedPenalty penaltyFactor : Rat) :
    Option (List Rat) :=
  if fixedPenalty < 0 ∨ penaltyFactor < 1 then none
  else some (c.cells.map fun cl =>
    if cl.fixed then 1 else regionMax cl.placement 1 (sortedMap cmap fixedPenalty penaltyFactor))

def cellExpansionGuard (cmap : List (Rect × Rat)) (fixedPenalty penaltyFactor : Rat) : Bool :=
  fin32 fixedPenalty && fin32 penaltyFactor &&
  cmap.all fun rc =>
    fin32 rc.2 &&
    (!decide (rc.2 > 1) ||
      (fin32 (f32' (f32' (rc.2 - 1) * penaltyFactor)) &&
       fin32 (f32' (f32' (f32' (rc.2 - 1) * penaltyFactor) + fixedPenalty)) &&
       fin32 (regionFactor fixedPenalty penaltyFactor rc.2)))

end ExpandF
end ColoVerif
