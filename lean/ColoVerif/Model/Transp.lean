/-
Model of `coloquinte::TransportationProblem` and of the solver
`TransportationSuccessiveShortestPath` (src/place_global/transportation.{hpp,cpp}).

* `DemandType = long long`, `CostType = int` are unbounded `Int` here; the sentinel
  `std::numeric_limits<int>::max()` is the constant `intMax`, compared exactly as in the code.
  (Absence of `int` overflow on the explored domain is observed under UBSan by the harness.)
* Matrices are `costs[sink][source]`, `allocations[sink][source]` as in the C++.
* `std::priority_queue<CostElt>` is modelled *exactly* as libstdc++ 12 implements it
  (`std::make_heap`, `std::push_heap`, `std::pop_heap` of `bits/stl_heap.h` on a vector) because
  which of several equal-cost sources sits at `top()` decides which source is moved, i.e. the
  returned allocation.  `comp a b := a < b := a.cost > b.cost` (a min-heap on cost).
* `assert`s of the code (the harness builds with assertions on) and undefined behaviour that the
  code could run into (`top()` of an empty queue, a cycle in `sinkParent_`) are `Except.error`s.
* `while` loops: `sendSource` uses `remaining` itself as fuel (every round sends ≥ 1 or an assert
  fails); the two walks along `sinkParent_` use `nbSinks + 1` (a longer walk is a cycle, on which
  the C++ would not terminate); `updateTree`'s `while (true)` uses `treeFuel` (see there; proved sufficient).
* `costsFromIntegers` (float costs → fixed point) is in `Model/TranspFloat.lean`: the very operations of
  the C++ over exact rationals with explicit binary64 rounding (`costsFromFloats`); the solver theorems are
  about the resulting integer costs, `C13.costsFromFloats_bound` shows that they satisfy the cost bound.
-/
namespace ColoVerif.Transp

abbrev Mat := List (List Int)

/-- `m[i][j]` (0 outside) -/
def get2 (m : Mat) (i j : Nat) : Int := (m.getD i []).getD j 0

def updAt {α : Type} : List α → Nat → (α → α) → List α
  | [], _, _ => []
  | a :: as, 0, f => f a :: as
  | a :: as, i + 1, f => a :: updAt as i f

def addAt (r : List Int) (j : Nat) (d : Int) : List Int := updAt r j (· + d)

/-- `m[i][j] += d` -/
def add2 (m : Mat) (i j : Nat) (d : Int) : Mat := updAt m i (fun r => addAt r j d)

/-- `m[i][j] += d` with the vector accesses bounds-checked (`none` = out of range, undefined behaviour in C++) -/
def add2? (n m : Nat) (a : Mat) (i j : Nat) (d : Int) : Option Mat :=
  if i < n ∧ j < m ∧ j < (a.getD i []).length then some (add2 a i j d) else none

/-- Σ_{i<n} f i -/
def sumTo : Nat → (Nat → Int) → Int
  | 0, _ => 0
  | n + 1, f => sumTo n f + f n

structure Problem where
  capacities : List Int
  demands : List Int
  costs : Mat
  allocations : Mat
deriving Repr, DecidableEq, Inhabited

namespace Problem
variable (p : Problem)
def nbSinks : Nat := p.capacities.length
def nbSources : Nat := p.demands.length
def demand (j : Nat) : Int := p.demands.getD j 0
def capacity (i : Nat) : Int := p.capacities.getD i 0
def cost (i j : Nat) : Int := get2 p.costs i j
def allocation (i j : Nat) : Int := get2 p.allocations i j
def totalDemand : Int := p.demands.sum
def totalCapacity : Int := p.capacities.sum
/-- `movingCost(src, snk1, snk2)` -/
def movingCost (src snk1 snk2 : Nat) : Int := p.cost snk2 src - p.cost snk1 src
def allocatedCapacity (i : Nat) : Int := sumTo p.nbSources (fun j => p.allocation i j)
def allocatedDemand (j : Nat) : Int := sumTo p.nbSinks (fun i => p.allocation i j)

def zeroAlloc : Mat := List.replicate p.nbSinks (List.replicate p.nbSources 0)

/-- `check()`: `true` iff it does not throw. -/
def check : Bool :=
  p.demands.all (fun d => 0 < d) && p.capacities.all (fun c => 0 < c) &&
  p.costs.length == p.nbSinks && p.costs.all (fun r => r.length == p.nbSources) &&
  p.allocations.length == p.nbSinks && p.allocations.all (fun r => r.length == p.nbSources)

/-- the constructor (integer costs): `resetAllocations(); check();` -/
def make (caps dems : List Int) (costs : Mat) : Problem :=
  { capacities := caps, demands := dems, costs := costs,
    allocations := List.replicate caps.length (List.replicate dems.length 0) }

/-- the loop `for i < k: capacities[i] += 1` after `+= added` everywhere, as one pass -/
def incCaps (added rest : Int) : Nat → List Int → List Int
  | _, [] => []
  | i, c :: cs => (c + added + (if (i : Int) < rest then 1 else 0)) :: incCaps added rest (i + 1) cs

/-- `missing = totalDemand() - totalCapacity()` -/
def missing : Int := p.totalDemand - p.totalCapacity

/-- `added = missing / nbSinks()` (C++ division truncates) -/
def added : Int := Int.tdiv p.missing (p.nbSinks : Int)

def increaseCapacity : Problem :=
  if p.missing ≤ 0 then p
  else { p with capacities := incCaps p.added (p.missing - p.added * (p.nbSinks : Int)) 0 p.capacities }

/-- inner loop of `toAssignment`: scan sinks `i, i+1, …` keeping the first strict maximum -/
def argmaxFrom (alloc : Mat) (src : Nat) : Nat → Nat → Nat → Int → Nat
  | 0, _, best, _ => best
  | k + 1, i, best, bestAlloc =>
    if get2 alloc i src > bestAlloc then argmaxFrom alloc src k (i + 1) i (get2 alloc i src)
    else argmaxFrom alloc src k (i + 1) best bestAlloc

def toAssignmentOf (alloc : Mat) (nSinks nSources : Nat) : List Nat :=
  (List.range nSources).map (fun src => argmaxFrom alloc src nSinks 0 0 (-1))

def toAssignment : List Nat := toAssignmentOf p.allocations p.nbSinks p.nbSources

end Problem

/-! ### `std::priority_queue<CostElt>` as libstdc++ implements it -/

structure CostElt where
  cost : Int
  elt : Nat
deriving Repr, DecidableEq, Inhabited

/-- `std::less<CostElt>` i.e. `CostElt::operator<` : `cost > o.cost` -/
def comp (a b : CostElt) : Bool := decide (a.cost > b.cost)

abbrev Heap := Array CostElt

def hget (a : Heap) (i : Nat) : CostElt := a.getD i default

/-- `std::__push_heap(first, holeIndex, topIndex, value, comp)` -/
def pushHeapLoop (a : Heap) (hole top : Nat) (v : CostElt) : Heap :=
  if h : hole > top ∧ comp (hget a ((hole - 1) / 2)) v = true then
    pushHeapLoop (a.setIfInBounds hole (hget a ((hole - 1) / 2))) ((hole - 1) / 2) top v
  else a.setIfInBounds hole v
termination_by hole
decreasing_by omega

/-- the `while (secondChild < (len - 1) / 2)` loop of `std::__adjust_heap`; returns (array, hole, secondChild) -/
def adjustLoop (len : Nat) : Nat → Heap → Nat → Nat → Heap × Nat × Nat
  | 0, a, hole, second => (a, hole, second)
  | fuel + 1, a, hole, second =>
    if second < (len - 1) / 2 then
      let s2 := 2 * (second + 1)
      let s3 := if comp (hget a s2) (hget a (s2 - 1)) then s2 - 1 else s2
      adjustLoop len fuel (a.setIfInBounds hole (hget a s3)) s3 s3
    else (a, hole, second)

/-- `std::__adjust_heap(first, holeIndex, len, value, comp)` -/
def adjustHeap (a : Heap) (hole len : Nat) (v : CostElt) : Heap :=
  let (a1, hole1, second1) := adjustLoop len (len + 1) a hole hole
  if len % 2 == 0 && second1 == (len - 2) / 2 then
    let s2 := 2 * (second1 + 1)
    pushHeapLoop (a1.setIfInBounds hole1 (hget a1 (s2 - 1))) (s2 - 1) hole v
  else pushHeapLoop a1 hole1 hole v

def makeHeapLoop (len : Nat) : Nat → Heap → Heap
  | 0, a => adjustHeap a 0 len (hget a 0)
  | parent + 1, a => makeHeapLoop len parent (adjustHeap a (parent + 1) len (hget a (parent + 1)))

/-- `std::make_heap` (the `priority_queue(comp, vector&&)` constructor) -/
def makeHeap (a : Heap) : Heap :=
  if a.size < 2 then a else makeHeapLoop a.size ((a.size - 2) / 2) a

/-- `priority_queue::emplace` : `push_back` + `std::push_heap` -/
def heapPush (a : Heap) (v : CostElt) : Heap :=
  pushHeapLoop (a.push v) a.size 0 v

/-- `priority_queue::pop` : `std::pop_heap` + `pop_back` -/
def heapPop (a : Heap) : Heap :=
  if a.size > 1 then
    let last := a.size - 1
    let v := hget a last
    (adjustHeap (a.setIfInBounds last (hget a 0)) 0 last v).pop
  else a.pop

/-! ### the successive-shortest-path solver -/

def intMax : Int := 2147483647

abbrev Queues := Array (Array Heap)

def qget (qs : Queues) (snk dst : Nat) : Heap := (qs.getD snk #[]).getD dst #[]

def qset (qs : Queues) (snk dst : Nat) (h : Heap) : Queues :=
  qs.setIfInBounds snk ((qs.getD snk #[]).setIfInBounds dst h)

/-- solver state: `pb_.allocations_`, `queues_`, `remainingCapa_`, `sendingCost_`, `sinkParent_` (`none` = -1) -/
structure St where
  alloc : Mat
  queues : Queues
  remCapa : List Int
  sendCost : List Int
  parent : List (Option Nat)
deriving Inhabited

/-- `queues_[snk1][snk2].top()`; `top()` of an empty queue is undefined behaviour -/
def qtop (qs : Queues) (snk1 snk2 : Nat) : Except String CostElt :=
  if (qget qs snk1 snk2).size == 0 then .error "ub: top() of an empty queue" else .ok (hget (qget qs snk1 snk2) 0)

/-- solver's `movingCost(snk1, snk2)` -/
def movingCostQ (qs : Queues) (snk1 snk2 : Nat) : Except String Int :=
  if snk1 == snk2 then .ok 0 else (qtop qs snk1 snk2).map (·.cost)

/-- `sentSource(snk1, snk2)` -/
def sentSourceQ (qs : Queues) (snk1 snk2 : Nat) : Except String Nat :=
  (qtop qs snk1 snk2).map (·.elt)

/-- `sortedSourcesByDemand`: `std::sort` of the distinct pairs `(-demand, index)` -/
def sortedSourcesByDemand (p : Problem) : List Nat :=
  ((List.range p.nbSources).mergeSort
    (fun a b => decide (p.demand a > p.demand b) || (p.demand a == p.demand b && decide (a ≤ b))))

/-- `bestSink(src)` scanning sinks `i = n - k, …`: first strict minimum of `sendingCost_[i] + cost(i, src)` -/
def bestSinkFrom (p : Problem) (sendCost : List Int) (src : Nat) : Nat → Nat → Nat → Int → Nat
  | 0, _, ret, _ => ret
  | k + 1, i, ret, bestCost =>
    if sendCost.getD i 0 + p.cost i src < bestCost then
      bestSinkFrom p sendCost src k (i + 1) i (sendCost.getD i 0 + p.cost i src)
    else bestSinkFrom p sendCost src k (i + 1) ret bestCost

def bestSink (p : Problem) (sendCost : List Int) (src : Nat) : Nat :=
  bestSinkFrom p sendCost src p.nbSinks 0 0 intMax

/-- `initQueues(sink)`: the new `queues_[sink]` -/
def initQueues (p : Problem) (alloc : Mat) (sink : Nat) : Array Heap :=
  let sources := (List.range p.nbSources).filter (fun src => get2 alloc sink src != 0)
  (Array.range p.nbSinks).map (fun dest =>
    if sink == dest then #[]
    else makeHeap (sources.map (fun src => CostElt.mk (p.movingCost src sink dest) src)).toArray)

/-- the `while (true)` of `updateSinkQueues` for one destination: pop while the top has a zero allocation -/
def popZeros (alloc : Mat) (sink : Nat) : Nat → Heap → Heap
  | 0, h => h
  | fuel + 1, h =>
    if h.size == 0 then h
    else if get2 alloc sink (hget h 0).elt != 0 then h
    else popZeros alloc sink fuel (heapPop h)

/-- `updateSinkQueues(sink, src)` -/
def updateSinkQueues (p : Problem) (alloc : Mat) (qs : Queues) (sink src : Nat) : Queues :=
  if get2 alloc sink src != 0 then qs
  else
    (List.range p.nbSinks).foldl (fun qs dst =>
      if dst == sink then qs
      else qset qs sink dst (popZeros alloc sink ((qget qs sink dst).size + 1) (qget qs sink dst))) qs

/-- `updateDestQueues(sink, src)` (before the allocation is increased) -/
def updateDestQueues (p : Problem) (alloc : Mat) (qs : Queues) (sink src : Nat) : Except String Queues :=
  if get2 alloc sink src != 0 then .ok qs
  else
    (List.range p.nbSinks).foldlM (fun qs dst =>
      if dst == sink then pure qs
      else if (qget qs sink dst).size == 0 then .error "assert: !queues_[sink][dst].empty()"
      else pure (qset qs sink dst (heapPush (qget qs sink dst) ⟨p.movingCost src sink dst, src⟩))) qs

/-! #### `updateTree` -/

structure Tree where
  sendCost : List Int
  parent : List (Option Nat)
  toVisit : List Bool

/-- selection loop: first strict minimum of `sendingCost_` among `toVisit` -/
def pickVisit (t : Tree) : Nat → Nat → Option Nat → Int → Option Nat
  | 0, _, best, _ => best
  | k + 1, i, best, bestCost =>
    if t.toVisit.getD i false && decide (t.sendCost.getD i 0 < bestCost) then
      pickVisit t k (i + 1) (some i) (t.sendCost.getD i 0)
    else pickVisit t k (i + 1) best bestCost

/-- relaxation loop over the full sinks `i` -/
def relax (qs : Queues) (remCapa : List Int) (bv : Nat) : Nat → Nat → Tree → Except String Tree
  | 0, _, t => .ok t
  | k + 1, i, t =>
    if remCapa.getD i 0 > 0 then relax qs remCapa bv k (i + 1) t
    else
      match movingCostQ qs i bv with
      | .error e => .error e
      | .ok mc =>
        if mc + t.sendCost.getD bv 0 < t.sendCost.getD i 0 then
          relax qs remCapa bv k (i + 1)
            { sendCost := t.sendCost.set i (mc + t.sendCost.getD bv 0),
              parent := t.parent.set i (some bv),
              toVisit := t.toVisit.set i true }
        else relax qs remCapa bv k (i + 1) t

def treeLoop (n : Nat) (qs : Queues) (remCapa : List Int) : Nat → Tree → Except String Tree
  | 0, _ => .error "fuel: updateTree"
  | fuel + 1, t =>
    match pickVisit t n 0 none intMax with
    | none => .ok t
    | some bv =>
      match relax qs remCapa bv n 0 t with
      | .error e => .error e
      | .ok t' => treeLoop n qs remCapa fuel { t' with toVisit := t'.toVisit.set bv false }

/-- Fuel of `updateTree`'s `while (true)`.  The loop is a label-correcting shortest-path search that
always settles the smallest open label.  Every round closes one open sink and every successful
relaxation lowers an integer label by at least 1 while opening at most one sink, so
`#open + Σ labels` drops by at least 1 per round; labels stay in `[0, intMax]` (they are bounded
below by the previous potentials), hence at most `n·(intMax+1) = n·2³¹` rounds
(`Proofs/TranspSsp2Tree.lean`; in practice a few more than `n`).  Exhaustion is reported as an
error, never hidden. -/
def treeFuel (n : Nat) : Nat := n * 2147483648 + 1

def updateTree (p : Problem) (qs : Queues) (remCapa : List Int) : Except String Tree :=
  treeLoop p.nbSinks qs remCapa (treeFuel p.nbSinks)
    { sendCost := remCapa.map (fun c => if c > 0 then 0 else intMax),
      parent := remCapa.map (fun _ => none),
      toVisit := remCapa.map (fun c => decide (c > 0)) }

/-! #### `sendSource(src, sink, quantity)` -/

/-- first walk along `sinkParent_`: the bottleneck and the root -/
def maxSentLoop (alloc : Mat) (qs : Queues) (parent : List (Option Nat)) :
    Nat → Nat → Int → Except String (Int × Nat)
  | 0, _, _ => .error "cycle in sinkParent_"
  | fuel + 1, snk1, maxSent =>
    match parent.getD snk1 none with
    | none => .ok (maxSent, snk1)
    | some snk2 =>
      match sentSourceQ qs snk1 snk2 with
      | .error e => .error e
      | .ok src =>
        if min maxSent (get2 alloc snk1 src) > 0 then
          maxSentLoop alloc qs parent fuel snk2 (min maxSent (get2 alloc snk1 src))
        else .error "assert: maxSent > 0 (chain)"

/-- what one round of the second walk produces -/
structure Step where
  alloc : Mat
  queues : Queues
  newSrc : Nat
  costUp : Bool

/-- one round of the second `while` of `sendSource`: push `sentSrc` into `snk1`, take the top of
`queues_[snk1][snk2]` out -/
def sendStep (p : Problem) (m : Int) (alloc : Mat) (qs : Queues) (snk1 snk2 sentSrc : Nat) : Except String Step :=
  match movingCostQ qs snk1 snk2 with
  | .error e => .error e
  | .ok oldCost =>
    match updateDestQueues p alloc qs snk1 sentSrc with
    | .error e => .error e
    | .ok qs1 =>
      match sentSourceQ qs1 snk1 snk2 with
      | .error e => .error e
      | .ok newSrc =>
        match add2? p.nbSinks p.nbSources alloc snk1 sentSrc m with
        | none => .error "ub: index out of range"
        | some a1 =>
          match add2? p.nbSinks p.nbSources a1 snk1 newSrc (-m) with
          | none => .error "ub: index out of range"
          | some a2 =>
            match movingCostQ (updateSinkQueues p a2 qs1 snk1 newSrc) snk1 snk2 with
            | .error e => .error e
            | .ok newCost =>
              .ok { alloc := a2,
                    queues := updateSinkQueues p a2 qs1 snk1 newSrc,
                    newSrc := newSrc,
                    costUp := decide (newCost > oldCost) }

/-- result of the second walk: allocations, queues, root, source arriving at the root, needUpdate -/
structure Walk where
  alloc : Mat
  queues : Queues
  root : Nat
  src : Nat
  needUpdate : Bool

def sendLoop (p : Problem) (remCapa : List Int) (parent : List (Option Nat)) (m : Int) :
    Nat → Mat → Queues → Nat → Nat → Bool → Except String Walk
  | 0, _, _, _, _, _ => .error "cycle in sinkParent_"
  | fuel + 1, alloc, qs, snk1, sentSrc, nu =>
    match parent.getD snk1 none with
    | none => .ok ⟨alloc, qs, snk1, sentSrc, nu⟩
    | some snk2 =>
      if remCapa.getD snk1 0 != 0 then .error "assert: remainingCapa_[snk1] == 0"
      else
        match sendStep p m alloc qs snk1 snk2 sentSrc with
        | .error e => .error e
        | .ok st => sendLoop p remCapa parent m fuel st.alloc st.queues snk2 st.newSrc (nu || st.costUp)

/-- tail of `sendSource(src, sink, quantity)`: `initQueues` if the root became full, `updateTree` if needed -/
def finishSend (p : Problem) (s : St) (queues : Queues) (root : Nat) (needUpdate : Bool) (alloc : Mat)
    (remCapa : List Int) (m : Int) : Except String (St × Int) :=
  let full := remCapa.getD root 0 == 0
  let qs := if full then queues.setIfInBounds root (initQueues p alloc root) else queues
  if needUpdate || full then
    match updateTree p qs remCapa with
    | .error e => .error e
    | .ok t => .ok ({ alloc := alloc, queues := qs, remCapa := remCapa, sendCost := t.sendCost, parent := t.parent }, m)
  else .ok ({ alloc := alloc, queues := qs, remCapa := remCapa, sendCost := s.sendCost, parent := s.parent }, m)

/-- `sendSource(src, sink, quantity)`; returns the new state and the quantity sent -/
def sendSource3 (p : Problem) (s : St) (src sink : Nat) (quantity : Int) : Except String (St × Int) :=
  match maxSentLoop s.alloc s.queues s.parent (p.nbSinks + 1) sink quantity with
  | .error e => .error e
  | .ok (ms, root) =>
    if min ms (s.remCapa.getD root 0) > 0 then
      match sendLoop p s.remCapa s.parent (min ms (s.remCapa.getD root 0)) (p.nbSinks + 1)
              s.alloc s.queues sink src false with
      | .error e => .error e
      | .ok w =>
        -- allocations_[snk1][sentSrc] += maxSent; remainingCapa_[snk1] -= maxSent
        match add2? p.nbSinks p.nbSources w.alloc w.root w.src (min ms (s.remCapa.getD root 0)) with
        | none => .error "ub: index out of range"
        | some alloc =>
          if w.root < s.remCapa.length then
            finishSend p s w.queues w.root w.needUpdate alloc
              (s.remCapa.set w.root (s.remCapa.getD w.root 0 - min ms (s.remCapa.getD root 0)))
              (min ms (s.remCapa.getD root 0))
          else .error "ub: index out of range"
    else .error "assert: maxSent > 0 (root)"

/-- `sendSource(src)`: the `while (remaining > 0)` loop; `fuel ≥ remaining` always suffices because
each round sends at least 1 (or an assertion fails) -/
def sendSourceLoop (p : Problem) (src : Nat) : Nat → St → Int → Except String St
  | 0, s, remaining => if remaining > 0 then .error "fuel: sendSource" else .ok s
  | fuel + 1, s, remaining =>
    if remaining > 0 then
      match sendSource3 p s src (bestSink p s.sendCost src) remaining with
      | .error e => .error e
      | .ok (s', sent) =>
        if sent > 0 then sendSourceLoop p src fuel s' (remaining - sent)
        else .error "assert: sent > 0"
    else .ok s

def sendSource (p : Problem) (s : St) (src : Nat) : Except String St :=
  sendSourceLoop p src (p.demand src).toNat s (p.demand src)

/-- the solver's constructor followed by `resetAllocations()` -/
def initSt (p : Problem) : St :=
  { alloc := p.zeroAlloc,
    queues := Array.replicate p.nbSinks #[],
    remCapa := p.capacities,
    sendCost := List.replicate p.nbSinks 0,
    parent := List.replicate p.nbSinks none }

def runSources (p : Problem) : List Nat → St → Except String St
  | [], s => .ok s
  | src :: rest, s =>
    match sendSource p s src with
    | .error e => .error e
    | .ok s' => runSources p rest s'

/-- `TransportationSuccessiveShortestPath::run()` -/
def run (p : Problem) : Except String St := runSources p (sortedSourcesByDemand p) (initSt p)

/-- `TransportationProblem::solve()`: the problem with its new allocations -/
def solve (p : Problem) : Except String Problem :=
  match run p with
  | .error e => .error e
  | .ok s => .ok { p with allocations := s.alloc }

end ColoVerif.Transp
