import ColoVerif.Model.DetIncr
import ColoVerif.Model.RowNbh
/-
Model of the candidate enumeration of the local search of `DetailedPlacer`
(src/place_detailed/place_detailed.cpp): `runSwaps`, `runInserts`, `runSwapsOneRow`,
`runInsertsOneRow`, `runSwapsTwoRows`, `runSwapsTwoRowsAmplify`, `runInsertsTwoRows`, `bestSwap`,
`bestInsert`, `bestSwapUpdate`, `findCellAfter`, `findCellBefore`, `computeClosestIndexInRow`, and
`DetailedPlacement::rowCells(const std::vector<int>&)`.

Every pass works on the whole object `Placer` (Model/DetIncr.lean) and returns
`Except Err (Placer × List Op)`: the placer after the pass and the primitive moves (`doSwap` /
`doInsert`) performed, in order — the ghost list is what hook H3 logs.  The candidate loops are the
existing `Placer.bestSwapChoice` / `Placer.bestInsertChoice` ("last improving candidate wins");
the chosen move is performed with `Placer.step` (= `doSwap` / `doInsert` + the model's contract
guards); errors are propagated.

`Err.guard` is also returned where the C++ has undefined behaviour or where a model-only fuel runs
out (never silently):
* the slice `std::vector<int>(cells.begin() + b, cells.begin() + e)` with `b > e` (only possible
  with `nbNeighbours < 0`);
* the `while (bestSwapUpdate(...));` loop after `value().toNat + 1` rounds (each success strictly
  decreases `value() ≥ 0` on synchronised placers) and the walk over the cells of `r1` after
  `nbCells + 1` rounds.

Quirks copied from the code:
* `bestSwapUpdate` evaluates `from` twice (first candidate of the forward and of the backward walk);
* `computeClosestIndexInRow` stops at the first cell of row 2 whose x is *smaller* than the cell's x
  (or at the last index): on a row sorted by x the answer is the current index or the last one;
* `runSwaps(int nbRows, int nbNeighbours)` is called by `run()` as
  `runSwaps(localSearchNbNeighbours, localSearchNbRows)`; the model keeps the parameter order of
  `runSwaps` itself;
* the second sweep of `runSwaps` goes from the last row down to row 1 (not 0);
* `run()` never calls `runInserts`.
-/
namespace ColoVerif.DetPlace
open ColoVerif

/-! ### `rowCells(const std::vector<int>&)` -/

namespace State

/-- `std::pair<int,int>::operator<` -/
def pairLt (a b : Int × Int) : Bool := decide (a.1 < b.1) || (decide (a.1 = b.1) && decide (a.2 < b.2))

/-- stable insertion: before the first element that is not strictly smaller -/
def insertPair (a : Int × Int) : List (Int × Int) → List (Int × Int)
  | [] => [a]
  | b :: bs => if pairLt b a then b :: insertPair a bs else a :: b :: bs

/-- `std::stable_sort(sortedCells)` -/
def sortPairs (l : List (Int × Int)) : List (Int × Int) := l.foldr insertPair []

/-- `rowCells(rows)`: the cells of the rows sorted by `(x, cell)` -/
def rowCellsSorted (s : State) (rows : List Int) : List Int :=
  (sortPairs ((rows.flatMap s.rowCells).map fun c => (s.x c, c))).map (·.2)

/-- the `while (true)` of `findCellAfter` -/
def findAfterGo (s : State) (tx : Int) : Nat → Int → Int
  | 0, c => c
  | k + 1, c =>
    if s.next c = -1 then c
    else if s.x (s.next c) > tx then c
    else findAfterGo s tx k (s.next c)

/-- `findCellAfter(target, fromCell)` (fuel: a row has at most `nCells` cells) -/
def findCellAfter (s : State) (target from_ : Int) : Int :=
  if from_ = -1 then -1 else s.findAfterGo (s.x target) (s.nCells + 1) from_

/-- the `while (true)` of `findCellBefore` -/
def findBeforeGo (s : State) (tend : Int) : Nat → Int → Int
  | 0, c => c
  | k + 1, c =>
    if s.pred c = -1 then c
    else if s.x (s.pred c) + s.width (s.pred c) < tend then c
    else findBeforeGo s tend k (s.pred c)

/-- `findCellBefore(target, fromCell)` -/
def findCellBefore (s : State) (target from_ : Int) : Int :=
  if from_ = -1 then -1 else s.findBeforeGo (s.x target + s.width target) (s.nCells + 1) from_

/-- the `while (true)` of `computeClosestIndexInRow`: `closest` only grows, up to `size - 1` -/
def closestGo (s : State) (row2 : List Int) (x : Int) : Nat → Nat → Nat
  | 0, k => k
  | f + 1, k =>
    if k + 1 = row2.length then k
    else if row2.getD k (-1) ≠ -1 ∧ s.x (row2.getD k (-1)) < x then k
    else closestGo s row2 x f (k + 1)

/-- the `for (int row1Cell : row1Cells)` loop: `closest` is carried from one cell to the next -/
def closestAll (s : State) (row2 : List Int) : Nat → List Int → List Int
  | _, [] => []
  | k, c1 :: rest =>
    Int.ofNat (closestGo s row2 (s.x c1) row2.length k) ::
      closestAll s row2 (closestGo s row2 (s.x c1) row2.length k) rest

/-- `computeClosestIndexInRow(row1Cells, row2Cells)` -/
def computeClosestIndexInRow (s : State) (row1 row2 : List Int) : List Int :=
  if row2 = [] then List.replicate row1.length 0 else closestAll s row2 0 row1

end State

/-! ### sequencing -/

/-- the result of a pass: the placer after it and the primitive moves performed -/
abbrev Pass := Except Err (Placer × List Op)

/-- `x; f` -/
def Pass.andThen (x : Pass) (f : Placer → Pass) : Pass :=
  match x with
  | .error e => .error e
  | .ok r =>
    match f r.1 with
    | .error e => .error e
    | .ok r' => .ok (r'.1, r.2 ++ r'.2)

/-- `for (a : as) body(a);` -/
def loopOps {α : Type} (body : Placer → α → Pass) : Placer → List α → Pass
  | p, [] => .ok (p, [])
  | p, a :: as =>
    match body p a with
    | .error e => .error e
    | .ok r =>
      match loopOps body r.1 as with
      | .error e => .error e
      | .ok r' => .ok (r'.1, r.2 ++ r'.2)

/-- `std::vector<int>(cells.begin() + b, cells.begin() + e)`; `b > e` is undefined behaviour in the
C++ (the callers guarantee `0 ≤ b` and `e ≤ cells.size()`) -/
def slice (cells : List Int) (b e : Int) : Except Err (List Int) :=
  if b > e then .error .guard else .ok ((cells.drop b.toNat).take (e.toNat - b.toNat))

/-- `(i, cells[i])` for every index -/
def indexed (cells : List Int) : List (Int × Int) := cells.zipIdx.map fun ci => (Int.ofNat ci.2, ci.1)

/-- `candidates` of the four windowed passes: `b = max(0, i - nb)`, `e = min(size, i + nb + 1)` -/
def window (cells : List Int) (i nb : Int) : Except Err (List Int) :=
  slice cells (max 0 (i - nb)) (min (cells.length : Int) (i + nb + 1))

namespace Placer

/-- `bestSwap(c, candidates)`: `found ? doSwap(c, bestCandidate) : nothing` -/
def bestSwap (p : Placer) (c : Int) (cands : List Int) : Pass :=
  match p.bestSwapChoice c cands with
  | none => .ok (p, [])
  | some b =>
    match p.step (.swap c b) with
    | .error e => .error e
    | .ok q => .ok (q, [.swap c b])

/-- `bestInsert(c, row, candidates)` -/
def bestInsert (p : Placer) (c r : Int) (cands : List Int) : Pass :=
  match p.bestInsertChoice c r cands with
  | none => .ok (p, [])
  | some b =>
    match p.step (.insert c r b) with
    | .error e => .error e
    | .ok q => .ok (q, [.insert c r b])

/-- `for (candidate = from, count = 0; candidate != -1 && count < nb; candidate = lnk(candidate), ++count)`:
the first argument is the number of rounds left (`nb - count`) -/
def walk (lnk : Int → Int) : Nat → Int → List Int
  | 0, _ => []
  | k + 1, cand => if cand = -1 then [] else cand :: walk lnk k (lnk cand)

/-- the candidates of `bestSwapUpdate` in evaluation order: forward walk from `from` via `cellNext`,
then backward walk from `from` via `cellPred` (`from` is evaluated twice) -/
def swapUpdateCands (p : Placer) (from_ nb : Int) : List Int :=
  walk p.pl.next nb.toNat from_ ++ walk p.pl.pred nb.toNat from_

/-- `bestSwapUpdate(c, from, nb)`: `none` = not found; `some (p', c', from', op)`: after the `doSwap`,
`if (bestCandidate == from) from = c;  c = bestCandidate` -/
def bestSwapUpdate (p : Placer) (c from_ nb : Int) : Except Err (Option (Placer × Int × Int × Op)) :=
  match p.bestSwapChoice c (p.swapUpdateCands from_ nb) with
  | none => .ok none
  | some b =>
    match p.step (.swap c b) with
    | .error e => .error e
    | .ok q => .ok (some (q, b, (if b = from_ then c else from_), .swap c b))

/-- `findCellAfter` -/
def findCellAfter (p : Placer) (target from_ : Int) : Int := p.pl.findCellAfter target from_

/-- `findCellBefore` -/
def findCellBefore (p : Placer) (target from_ : Int) : Int := p.pl.findCellBefore target from_

/-- body of the loop of `runSwapsOneRow` on the snapshot `cells`; `ic = (i, cells[i])` -/
def swapsOneRowBody (cells : List Int) (nb : Int) (p : Placer) (ic : Int × Int) : Pass :=
  match window cells ic.1 nb with
  | .error e => .error e
  | .ok cands => p.bestSwap ic.2 cands

/-- `runSwapsOneRow(row, nbNeighbours)` -/
def runSwapsOneRow (p : Placer) (row nb : Int) : Pass :=
  loopOps (swapsOneRowBody (p.pl.rowCells row) nb) p (indexed (p.pl.rowCells row))

/-- body of the loop of `runInsertsOneRow`; `cells` already starts with `-1` -/
def insertsOneRowBody (cells : List Int) (row nb : Int) (p : Placer) (ic : Int × Int) : Pass :=
  match window cells ic.1 nb with
  | .error e => .error e
  | .ok cands => p.bestInsert ic.2 row cands

/-- `runInsertsOneRow(row, nbNeighbours)`: `-1` is prepended and the loop starts at `i = 1` -/
def runInsertsOneRow (p : Placer) (row nb : Int) : Pass :=
  loopOps (insertsOneRowBody (-1 :: p.pl.rowCells row) row nb) p ((indexed (-1 :: p.pl.rowCells row)).drop 1)

/-- body of the loop of `runSwapsTwoRows`; `cc = (cells1[i], closestIndex[i])` -/
def swapsTwoRowsBody (cells2 : List Int) (nb : Int) (p : Placer) (cc : Int × Int) : Pass :=
  match window cells2 cc.2 nb with
  | .error e => .error e
  | .ok cands => p.bestSwap cc.1 cands

/-- `runSwapsTwoRows(r1, r2, nbNeighbours)` -/
def runSwapsTwoRows (p : Placer) (r1 r2 nb : Int) : Pass :=
  loopOps (swapsTwoRowsBody (p.pl.rowCells r2) nb) p
    ((p.pl.rowCells r1).zip (p.pl.computeClosestIndexInRow (p.pl.rowCells r1) (p.pl.rowCells r2)))

/-- body of the loop of `runInsertsTwoRows`; `cells2` already starts with `-1` -/
def insertsTwoRowsBody (cells2 : List Int) (r2 nb : Int) (p : Placer) (cc : Int × Int) : Pass :=
  match window cells2 cc.2 nb with
  | .error e => .error e
  | .ok cands => p.bestInsert cc.1 r2 cands

/-- `runInsertsTwoRows(r1, r2, nbNeighbours)` -/
def runInsertsTwoRows (p : Placer) (r1 r2 nb : Int) : Pass :=
  loopOps (insertsTwoRowsBody (-1 :: p.pl.rowCells r2) r2 nb) p
    ((p.pl.rowCells r1).zip
      (p.pl.computeClosestIndexInRow (p.pl.rowCells r1) (-1 :: p.pl.rowCells r2)))

/-- `while (bestSwapUpdate(c, from, nb));` with `c`, `from` by reference: the placer, `c`, `from` and
the swaps performed; `Err.guard` when the fuel runs out -/
def amplifyInner : Nat → Placer → Int → Int → Int → Except Err (Placer × Int × Int × List Op)
  | 0, _, _, _, _ => .error .guard
  | k + 1, p, c, from_, nb =>
    match p.bestSwapUpdate c from_ nb with
    | .error e => .error e
    | .ok none => .ok (p, c, from_, [])
    | .ok (some r) =>
      match amplifyInner k r.1 r.2.1 r.2.2.1 nb with
      | .error e => .error e
      | .ok r' => .ok (r'.1, r'.2.1, r'.2.2.1, r.2.2.2 :: r'.2.2.2)

/-- `for (c = …; c != -1; c = cellNext(c)) { while (…); from = findCellAfter(c, from); }`:
`cellNext(c)` and `findCellAfter` are read in the placement after the swaps, with the updated `c` -/
def amplifyOuter : Nat → Placer → Int → Int → Int → Pass
  | 0, _, _, _, _ => .error .guard
  | k + 1, p, c, from_, nb =>
    if c = -1 then .ok (p, [])
    else
      match amplifyInner (p.value.toNat + 1) p c from_ nb with
      | .error e => .error e
      | .ok r =>
        match amplifyOuter k r.1 (r.1.pl.next r.2.1) (r.1.findCellAfter r.2.1 r.2.2.1) nb with
        | .error e => .error e
        | .ok r' => .ok (r'.1, r.2.2.2 ++ r'.2)

/-- `runSwapsTwoRowsAmplify(r1, r2, nbNeighbours)` -/
def runSwapsTwoRowsAmplify (p : Placer) (r1 r2 nb : Int) : Pass :=
  amplifyOuter (p.pl.nCells + 1) p (p.pl.rowFirst r1) (p.pl.rowFirst r2) nb

/-- the calls `(i, j)` of the first two-row sweep of `runSwaps`: rows ascending, `rowsAbove(i)` then
`rowsRight(i)` -/
def swapPairsUp (nbh : RowNbh) (n : Nat) : List (Int × Int) :=
  (State.intsUpTo n).flatMap fun i => (nbh.rowsAbove i ++ nbh.rowsRight i).map fun j => (i, j)

/-- the calls of the second sweep: `i = nbRows - 1` down to `1`, `rowsBelow(i)` then `rowsLeft(i)` -/
def swapPairsDown (nbh : RowNbh) (n : Nat) : List (Int × Int) :=
  ((State.intsUpTo n).drop 1).reverse.flatMap fun i => (nbh.rowsBelow i ++ nbh.rowsLeft i).map fun j => (i, j)

/-- the two two-row sweeps of `runSwaps`, after `RowNeighbourhood rowsNeighbours(placement_.rows(), nbRows)` -/
def runSwapsTwoRowSweeps (p : Placer) (nbRows nbNeighbours : Int) : Pass :=
  loopOps (fun q ij => q.runSwapsTwoRowsAmplify ij.1 ij.2 nbNeighbours) p
    (swapPairsUp (RowNbh.ofRows p.pl.rows nbRows) p.pl.nRows ++
     swapPairsDown (RowNbh.ofRows p.pl.rows nbRows) p.pl.nRows)

/-- `runSwaps(nbRows, nbNeighbours)` -/
def runSwaps (p : Placer) (nbRows nbNeighbours : Int) : Pass :=
  Pass.andThen (loopOps (fun q i => q.runSwapsOneRow i nbNeighbours) p (State.intsUpTo p.pl.nRows))
    fun q => q.runSwapsTwoRowSweeps nbRows nbNeighbours

/-- `d = 1 .. nbRows` -/
def insertDists (nbRows : Int) : List Int := (List.range nbRows.toNat).map fun k => Int.ofNat k + 1

/-- `for d: for (i = 0; i + d < n; ++i) (i, i + d)` -/
def insertPairsUp (n : Nat) (nbRows : Int) : List (Int × Int) :=
  (insertDists nbRows).flatMap fun d =>
    ((State.intsUpTo n).filter fun i => decide (i + d < (n : Int))).map fun i => (i, i + d)

/-- `for d: for (i = n - 1; i - d >= 0; --i) (i, i - d)` -/
def insertPairsDown (n : Nat) (nbRows : Int) : List (Int × Int) :=
  (insertDists nbRows).flatMap fun d =>
    ((State.intsUpTo n).reverse.filter fun i => decide (i - d ≥ 0)).map fun i => (i, i - d)

/-- `runInserts(nbRows, nbNeighbours)` -/
def runInserts (p : Placer) (nbRows nbNeighbours : Int) : Pass :=
  Pass.andThen (loopOps (fun q i => q.runInsertsOneRow i nbNeighbours) p (State.intsUpTo p.pl.nRows))
    fun q => loopOps (fun q' ij => q'.runInsertsTwoRows ij.1 ij.2 nbNeighbours) q
      (insertPairsUp q.pl.nRows nbRows ++ insertPairsDown q.pl.nRows nbRows)

end Placer
end ColoVerif.DetPlace
