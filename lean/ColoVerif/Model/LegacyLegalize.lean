import ColoVerif.Model.Legalize
/-
Pre-fix behaviour of the legalizer, kept only to carry machine-checked witnesses of what was wrong
(the main model `Legalize` follows the working tree after the fixes).

* F1 (`fix: c01-tetris-turned`): `TetrisLegalizer::attemptPlacement` and `placeCell` swapped width
  and height for turned orientations although the legalizer already stores placed sizes.
* `fix: c11-abacus-cost-narrowing`: `int dist = rowLegalizers_[row].getCost(..)` narrowed the
  64-bit cost (`Legalize.wrap32`).
-/
namespace ColoVerif.LegacyLegalize
open ColoVerif ColoVerif.Legalize

/-- `if (isTurn(orient)) std::swap(width, height);` -/
def swapW (o : Orient) (c : LCell) : Int := if o.isTurn then c.h else c.w
def swapH (o : Orient) (c : LCell) : Int := if o.isTurn then c.w else c.h

/-- pre-fix `attemptPlacement` -/
def attempt (t : Tetris) (c : LCell) (y : Int) : Option Int :=
  if getOrientation t.rows c (startRow t.rows y) = Orient.INVALID then none
  else (possibleIvs t.rows t.rowH t.free (swapW (getOrientation t.rows c (startRow t.rows y)) c)
          ((swapH (getOrientation t.rows c (startRow t.rows y)) c).toNat + 1)
          (swapH (getOrientation t.rows c (startRow t.rows y)) c) y).foldl (closestStep c.tx) none

def tetrisTry (t : Tetris) (c : LCell) (row : Nat) (b : Option Best) : Option Best × Bool :=
  match b with
  | some bb =>
    if iabs (c.ty - (rowAt t.rows row).rect.minY) ≥ bb.dist then (b, true)
    else match attempt t c (rowAt t.rows row).rect.minY with
      | none => (b, false)
      | some x =>
        if iabs (c.tx - x) + iabs (c.ty - (rowAt t.rows row).rect.minY) < bb.dist then
          (some ⟨x, (rowAt t.rows row).rect.minY, iabs (c.tx - x) + iabs (c.ty - (rowAt t.rows row).rect.minY)⟩, false)
        else (b, false)
  | none =>
    match attempt t c (rowAt t.rows row).rect.minY with
    | none => (none, false)
    | some x => (some ⟨x, (rowAt t.rows row).rect.minY,
                       iabs (c.tx - x) + iabs (c.ty - (rowAt t.rows row).rect.minY)⟩, false)

/-- pre-fix `placeCell`: `instanciateCell` with the swapped sizes -/
def tetrisPlace (t : Tetris) (c : LCell) : Tetris × Pos :=
  match searchRows (tetrisTry t c) t.rows.length (startRow t.rows c.ty) none with
  | none => (t, initPos c)
  | some b =>
    ({ t with free := instanciate t.rows t.rowH b.x (swapW (getOrientation t.rows c (startRow t.rows b.y)) c)
                        ((swapH (getOrientation t.rows c (startRow t.rows b.y)) c).toNat + 1) b.y
                        (swapH (getOrientation t.rows c (startRow t.rows b.y)) c) t.free },
     ⟨b.x, b.y, getOrientation t.rows c (startRow t.rows b.y), true⟩)

def tetrisRun : Tetris → List LCell → List Pos
  | _, [] => []
  | t, c :: cs =>
    match tetrisPlace t c with
    | (t', p) => p :: tetrisRun t' cs

def runTetris (b : Base) (order : List Nat) : Except Err Base :=
  match rowHeight? b.rows with
  | none => if order.isEmpty then .ok b else .error .noRow
  | some rowH =>
    .ok { b with pos := importPos (tetrisSel b rowH order)
                          (tetrisRun (Tetris.init b.remainingRows) ((tetrisSel b rowH order).map (cellAt b.cells)))
                          b.pos }

/-- pre-fix `Circuit::legalize` (Tetris part; Abacus as in the main model) -/
def legalize (p : Params) (c : Circuit) : Except Err Circuit :=
  if !p.check then .error .params
  else match runTetris (fromCircuit c) (computeCellOrder f32 p.ow p.oy p.oh (fromCircuit c).cells) with
    | .error e => .error e
    | .ok b1 =>
      match runAbacus b1 (computeCellOrder f32 p.ow p.oy p.oh (fromCircuit c).cells) with
      | .error e => .error e
      | .ok b2 =>
        match checkAllPlaced b2 with
        | .error e => .error e
        | .ok _ => .ok (exportPlacement b2 c)

/-- witness of F1 (corpus/C01/case0.txt): three rows of height 2; cell 0 is stored 4×2 with
orientation E (placed 2×4, two rows), cell 1 is 2×4 unturned -/
def turnedCircuit : Circuit :=
  ⟨[⟨4, 2, 0, 0, .E, false, false, .ANY⟩, ⟨2, 4, 0, 2, .N, false, false, .ANY⟩], [],
   [⟨⟨0, 10, 0, 2⟩, .N⟩, ⟨⟨0, 10, 2, 4⟩, .N⟩, ⟨⟨0, 10, 4, 6⟩, .N⟩]⟩

def defaultParams : Params := ⟨0, (3602879701896397 : Rat) / 18014398509481984, -1, 0⟩

def placements : Except Err Circuit → List Rect
  | .ok c => c.cells.map Cell.placement
  | .error _ => []

/-- pre-fix narrowing of the Abacus cost: a cell of width 40000 displaced by 180000 gets a
negative cost (witness of `fix: c11-abacus-cost-narrowing`, seen as a moved cell by C11) -/
def narrowedCost : Int := wrap32 (40000 * 180000)

end ColoVerif.LegacyLegalize
