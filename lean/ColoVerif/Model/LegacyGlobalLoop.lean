import ColoVerif.Model.GlobalLoop
/-
`GlobalPlacer::run` before commit 0d89981 ("GlobalPlacer stops when the upper bound has no
wirelength left"): the stop test was

    float gap = (ub - lb) / ub;
    if (gap < params_.global.gapTolerance || dist < distanceTolerance()) break;

For a circuit without wirelength `ub = lb = 0`, the gap is `0/0 = nan`, `nan < tol` is false, and
unless the distance test fires the loop runs all `maxNbSteps` iterations, applying the three
geometric recurrences every time (the float penalty overflowed: NaN positions / exception).
-/
namespace ColoVerif.GlobalLoop

/-- the stop test without the `noWirelength` clause -/
def legacyStopTest (R : Rounding) (p : Params) (o : Oracle) (lb ub dist : Rat) : Option StopReason :=
  if gapLt R lb ub p.gapTolerance then some .gap
  else if dist < distTol R p o then some .distance
  else none

def legacyRun (R : Rounding) (p : Params) (o : Oracle) : Result := runWith (legacyStopTest R p o) R p o

end ColoVerif.GlobalLoop
