/-
C++ typed arithmetic for the C07 obligations (core Lean only).

A *checked* model evaluates the same expression tree as the C++ source, one
operation at a time, in `Except Fault`: every operation whose C++ static type
is `int` goes through an `…I32` primitive, every `long long` operation through
an `…I64` primitive, every `assert` through `assertC`, every `operator[]`
through `indexC`.  A primitive returns the mathematical value when it is
representable in the type and a `Fault` naming the source site otherwise — the
events the C07 statement forbids (signed overflow, failed assertion, out of
range access, division by zero).

`narrowI32` is the implicit conversion `long long → int`: converting a value that
does not fit is not undefined behaviour (it is implementation-defined before
C++20, modular after) but it silently changes the value; the checked models
treat it as an `intOverflow` fault so that "no fault" also means "no value was
lost".
-/
namespace ColoVerif.Checked

inductive Fault
  | intOverflow (site : String)
  | assertFailed (site : String)
  | indexOutOfRange (site : String)
  | divByZero (site : String)
deriving Repr, DecidableEq, Inhabited

def Fault.describe : Fault → String
  | .intOverflow s => "intOverflow " ++ s
  | .assertFailed s => "assertFailed " ++ s
  | .indexOutOfRange s => "indexOutOfRange " ++ s
  | .divByZero s => "divByZero " ++ s

instance {ε α : Type} [DecidableEq ε] [DecidableEq α] : DecidableEq (Except ε α)
  | .ok a, .ok b => if h : a = b then isTrue (by rw [h]) else isFalse (by intro h'; cases h'; exact h rfl)
  | .error a, .error b => if h : a = b then isTrue (by rw [h]) else isFalse (by intro h'; cases h'; exact h rfl)
  | .ok _, .error _ => isFalse (by intro h; cases h)
  | .error _, .ok _ => isFalse (by intro h; cases h)

/-- representable in a 32-bit `int` -/
def fitsInt32 (v : Int) : Prop := -2147483648 ≤ v ∧ v ≤ 2147483647
/-- representable in a 64-bit `long long` -/
def fitsInt64 (v : Int) : Prop := -9223372036854775808 ≤ v ∧ v ≤ 9223372036854775807

instance (v : Int) : Decidable (fitsInt32 v) := by unfold fitsInt32; exact inferInstance
instance (v : Int) : Decidable (fitsInt64 v) := by unfold fitsInt64; exact inferInstance

/-- the value, if an `int` can hold it -/
def chk32 (site : String) (v : Int) : Except Fault Int :=
  if fitsInt32 v then .ok v else .error (.intOverflow site)
/-- the value, if a `long long` can hold it -/
def chk64 (site : String) (v : Int) : Except Fault Int :=
  if fitsInt64 v then .ok v else .error (.intOverflow site)

def addI32 (site : String) (a b : Int) : Except Fault Int := chk32 site (a + b)
def subI32 (site : String) (a b : Int) : Except Fault Int := chk32 site (a - b)
def mulI32 (site : String) (a b : Int) : Except Fault Int := chk32 site (a * b)
def negI32 (site : String) (a : Int) : Except Fault Int := chk32 site (-a)
/-- `std::abs(int)` -/
def absI32 (site : String) (a : Int) : Except Fault Int := chk32 site (a.natAbs : Int)
/-- `int / int` (truncating; `INT_MIN / -1` overflows) -/
def divI32 (site : String) (a b : Int) : Except Fault Int :=
  if b = 0 then .error (.divByZero site) else chk32 site (Int.tdiv a b)
def addI64 (site : String) (a b : Int) : Except Fault Int := chk64 site (a + b)
def subI64 (site : String) (a b : Int) : Except Fault Int := chk64 site (a - b)
def mulI64 (site : String) (a b : Int) : Except Fault Int := chk64 site (a * b)
def divI64 (site : String) (a b : Int) : Except Fault Int :=
  if b = 0 then .error (.divByZero site) else chk64 site (Int.tdiv a b)
/-- implicit or explicit conversion `long long → int` -/
def narrowI32 (site : String) (v : Int) : Except Fault Int := chk32 site v

/-- `assert(c)`; `enabled = false` is a build with `NDEBUG` -/
def assertC (enabled : Bool) (site : String) (c : Bool) : Except Fault Unit :=
  if enabled && !c then .error (.assertFailed site) else .ok ()

/-- `v[i]` on a vector of `Int`s -/
def indexC (site : String) (l : List Int) (i : Int) : Except Fault Int :=
  if 0 ≤ i ∧ i.toNat < l.length then .ok (l.getD i.toNat 0) else .error (.indexOutOfRange site)

/-- sequencing, written out so that proofs do not depend on the `Monad` instance -/
def andThen {α β : Type} (x : Except Fault α) (f : α → Except Fault β) : Except Fault β :=
  match x with
  | .ok a => f a
  | .error e => .error e

end ColoVerif.Checked
