import ColoVerif.Model.RowLeg
import ColoVerif.Model.Checked
/-
Checked re-statement of `coloquinte::RowLegalizer`
(src/place_detailed/row_legalizer.cpp, after commit 6923697 "computes them in 64 bits").

Every sub-expression carries the C++ type it has in the source:

  int targetAbsPos = targetPos - usedSpace();                       int - int
  int slope = -width;                                               -int
  const int costLimit = end_ - usedSpace();                         int - int
  … bounds.top().absolutePos > end_ - usedSpace() - width           (int - int) - int
  cur_cost += static_cast<long long>(std::min(old_pos, costLimit)
                - std::min(cur_pos, costLimit)) * (slope + width);  (ll)(int - int) * (int + int) : ll ; ll + ll
  slope += bounds.top().weight;                                     int + int
  assert(cur_pos >= begin_);
  cur_cost += static_cast<long long>(std::min(cur_pos, costLimit)
                - finalAbsPos) * (slope + width);                   as above
  assert(finalAbsPos >= begin_); assert(finalAbsPos <= end_ - usedSpace() - width);
  cumWidth_.push_back(width + usedSpace());                         int + int
  Bound(2 * width + std::min(slope, 0), …)                          int * int, int + int
  return cur_cost + static_cast<long long>(width)
                      * std::abs(finalAbsPos - targetAbsPos);       ll + ll * abs(int - int)
  getPlacement:  ret[i] = finalAbsPos[i] + cumWidth_[i];            int + int
                 assert(finalAbsPos[i] >= begin_);
                 assert(finalAbsPos[i] + cumWidth_[i + 1] <= end_); int + int (only evaluated with asserts on)

`min`/`max`/comparisons cannot fault.  `asr = true` is an assertion-enabled build,
`asr = false` a build with `NDEBUG`.  The functions return exactly what the
unbounded model of `Model/RowLeg.lean` returns, or the first fault.
All recursion is structural (on the bound list / the cell lists): termination
of the C++ loops is the termination of these definitions (`priority_queue::pop`
shortens the queue at every iteration of the `while`).
-/
namespace ColoVerif.RowLeg
open ColoVerif.Checked

/-- one iteration of the `while` loop: the new slope and the new cost -/
def scanStepC (width climit slope curPos curCost : Int) (t : Bound) : Except Fault (Int × Int) := do
  let d ← subI32 "getDisplacement: min(old_pos,costLimit) - min(cur_pos,costLimit)" (min curPos climit) (min t.absPos climit)
  let sw ← addI32 "getDisplacement: slope + width" slope width
  let p ← mulI64 "getDisplacement: (long long)(…) * (slope + width)" d sw
  let c ← addI64 "getDisplacement: cur_cost +=" curCost p
  let s' ← addI32 "getDisplacement: slope += weight" slope t.weight
  pure (s', c)

/-- the `while` loop of `getDisplacement` -/
def scanC (width tgt lim climit : Int) : List Bound → Int → Int → Int → List Bound → Except Fault Scan
  | [], slope, curPos, curCost, passed => .ok ⟨[], passed.reverse, slope, curPos, curCost⟩
  | t :: rest, slope, curPos, curCost, passed =>
    if (slope < 0 && t.absPos > tgt) || t.absPos > lim then
      match scanStepC width climit slope curPos curCost t with
      | .error f => .error f
      | .ok sc => scanC width tgt lim climit rest sc.1 t.absPos sc.2 (t :: passed)
    else .ok ⟨t :: rest, passed.reverse, slope, curPos, curCost⟩

/-- what `getDisplacement` has computed when it reaches `if (update)` -/
structure Core where
  tgt : Int
  fin : Int
  cost1 : Int
  scan : Scan
deriving Repr, DecidableEq

/-- `getDisplacement` up to and including the three assertions -/
def coreC (asr : Bool) (s : State) (width target : Int) : Except Fault Core := do
  let tgt ← subI32 "getDisplacement: targetPos - usedSpace()" target s.used
  let slope0 ← negI32 "getDisplacement: -width" width
  let climit ← subI32 "getDisplacement: end_ - usedSpace()" s.e s.used
  let lim ← subI32 "getDisplacement: end_ - usedSpace() - width" climit width
  let sc ← scanC width tgt lim climit s.bounds slope0 s.e 0 []
  assertC asr "getDisplacement: cur_pos >= begin_" (decide (sc.curPos ≥ s.b))
  let fin := min lim (max s.b (if sc.slope ≥ 0 then sc.curPos else tgt))
  let d ← subI32 "getDisplacement: min(cur_pos,costLimit) - finalAbsPos" (min sc.curPos climit) fin
  let sw ← addI32 "getDisplacement: slope + width (final)" sc.slope width
  let p ← mulI64 "getDisplacement: (long long)(…) * (slope + width) (final)" d sw
  let cost1 ← addI64 "getDisplacement: cur_cost += (final)" sc.curCost p
  assertC asr "getDisplacement: finalAbsPos >= begin_" (decide (fin ≥ s.b))
  assertC asr "getDisplacement: finalAbsPos <= end_ - usedSpace() - width" (decide (fin ≤ lim))
  pure ⟨tgt, fin, cost1, sc⟩

/-- the `return` expression -/
def retC (width : Int) (c : Core) : Except Fault Int := do
  let df ← subI32 "getDisplacement: finalAbsPos - targetAbsPos" c.fin c.tgt
  let ad ← absI32 "getDisplacement: std::abs" df
  let q ← mulI64 "getDisplacement: (long long)width * abs" width ad
  addI64 "getDisplacement: cur_cost + width * abs" c.cost1 q

/-- `RowLegalizer::getCost` -/
def getCostC (asr : Bool) (s : State) (width target : Int) : Except Fault (Int × State) := do
  let c ← coreC asr s width target
  let r ← retC width c
  pure (r, { s with bounds := c.scan.passed.foldl (fun q x => pqInsert x q) c.scan.rest })

/-- `bounds.push(Bound(2 * width + std::min(slope, 0), std::min(targetAbsPos, finalAbsPos)))` -/
def newBoundC (width : Int) (c : Core) (q1 : List Bound) : Except Fault (List Bound) := do
  let w2 ← mulI32 "getDisplacement: 2 * width" 2 width
  let nw ← addI32 "getDisplacement: 2 * width + min(slope,0)" w2 (min c.scan.slope 0)
  pure (pqInsert ⟨min c.tgt c.fin, nw⟩ q1)

/-- `RowLegalizer::push` -/
def pushC (asr : Bool) (s : State) (width target : Int) : Except Fault (Int × State) := do
  let c ← coreC asr s width target
  let _ ← addI32 "getDisplacement: width + usedSpace()" width s.used
  let q1 := if c.scan.slope > 0 then pqInsert ⟨c.scan.curPos, c.scan.slope⟩ c.scan.rest else c.scan.rest
  -- `2 * width + std::min(slope, 0)` is only evaluated inside `if (targetAbsPos > begin_)`
  let q2 ← if c.tgt > s.b then newBoundC width c q1 else pure q1
  let r ← retC width c
  pure (r, { s with cposRev := c.fin :: s.cposRev, widthsRev := width :: s.widthsRev, bounds := q2 })

/-- the loop of `getPlacement` (most recent cell first; the C++ iterates oldest first, which
only changes which of several faults would be reported first).  `ms` are the running minima,
`ws` the widths: for the head cell `cumWidth_[i] = ws.tail.sum`, `cumWidth_[i+1] = ws.sum`. -/
def placeRevC (asr : Bool) (b e : Int) : List Int → List Int → Except Fault (List Int)
  | m :: ms, w :: ws => do
    let x ← addI32 "getPlacement: finalAbsPos[i] + cumWidth_[i]" m ws.sum
    assertC asr "getPlacement: finalAbsPos[i] >= begin_" (decide (m ≥ b))
    let y ← if asr then addI32 "getPlacement: finalAbsPos[i] + cumWidth_[i+1]" m (w + ws.sum) else pure 0
    assertC asr "getPlacement: finalAbsPos[i] + cumWidth_[i+1] <= end_" (decide (y ≤ e))
    let r ← placeRevC asr b e ms ws
    pure (x :: r)
  | _, _ => pure []

/-- `RowLegalizer::getPlacement` in push order -/
def placementC (asr : Bool) (s : State) : Except Fault (List Int) := do
  let r ← placeRevC asr s.b s.e (runMin none s.cposRev) s.widthsRev
  pure r.reverse

end ColoVerif.RowLeg
