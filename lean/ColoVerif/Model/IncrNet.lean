import ColoVerif.Model.Circuit
/-
`IncrNetModelBuilder` / `IncrNetModel` (src/place_detailed/incr_net_model.{hpp,cpp}):
incremental 1-D half-perimeter wirelength used by detailed placement.

The C++ stores the hypergraph twice in CSR form (net -> pins, cell -> pins); both
directions, `finalize` (counting sort), `updateCellPos`, `recomputeNet` and the two
`x/yTopology` builders (all cells, or a subset with the other cells folded into at most two
pseudo-pins of an extra fixed cell) are modelled here branch for branch.  C++ `int` is `Int`;
indices are `Nat`; vectors are lists read with `getD`.

Sentinels: the C++ min/max loops start from `INT_MAX`/`INT_MIN`.  As in `Circuit.hpwl` they are
modelled by `lmin/lmax` whose default is only returned for an empty list (where it is the
sentinel); on a non-empty list of in-range `int`s both agree.
-/
namespace ColoVerif.IncrNet
open ColoVerif

def intMax : Int := 2147483647
def intMin : Int := -2147483648

/-- a pin of the 1-D model: (cell index, offset) -/
abbrev Pin1 := Nat × Int

/-! ### IncrNetModelBuilder -/

structure Builder where
  nbCells : Nat
  netLimits : List Nat
  netCells : List Nat
  netPinOffsets : List Int
deriving Repr, DecidableEq

/-- `IncrNetModelBuilder(nbCells)` -/
def Builder.new (n : Nat) : Builder := ⟨n, [0], [], []⟩

/-- `addNet(cells, pinOffsets)`: nets with at most one pin are dropped -/
def Builder.addNet (b : Builder) (pins : List Pin1) : Builder :=
  if pins.length ≤ 1 then b
  else { b with netLimits := b.netLimits ++ [b.netLimits.getLastD 0 + pins.length]
                netCells := b.netCells ++ pins.map (·.1)
                netPinOffsets := b.netPinOffsets ++ pins.map (·.2) }

/-! ### IncrNetModel -/

structure Model where
  cellPos : List Int
  -- CSR from the nets
  netLimits : List Nat
  netCells : List Nat
  netPinOffsets : List Int
  -- CSR from the cells
  cellLimits : List Nat
  cellNets : List Nat
  cellPinOffsets : List Int
  netMinMaxPos : List (Int × Int)
  value : Int
deriving Repr, DecidableEq, Inhabited

namespace Model

def nbCells (m : Model) : Nat := m.cellPos.length
def nbNets (m : Model) : Nat := m.netLimits.length - 1
def nbPins (m : Model) : Nat := m.netLimits.getLastD 0
def nbNetPins (m : Model) (net : Nat) : Nat := m.netLimits.getD (net + 1) 0 - m.netLimits.getD net 0
def nbCellPins (m : Model) (cell : Nat) : Nat := m.cellLimits.getD (cell + 1) 0 - m.cellLimits.getD cell 0
def pinCell (m : Model) (net pin : Nat) : Nat := m.netCells.getD (m.netLimits.getD net 0 + pin) 0
def netPinOffset (m : Model) (net pin : Nat) : Int := m.netPinOffsets.getD (m.netLimits.getD net 0 + pin) 0
def pinNet (m : Model) (cell pin : Nat) : Nat := m.cellNets.getD (m.cellLimits.getD cell 0 + pin) 0
def cellPinOffset (m : Model) (cell pin : Nat) : Int := m.cellPinOffsets.getD (m.cellLimits.getD cell 0 + pin) 0

/-- the pins of a net, in order: `for j < nbNetPins(net): (pinCell(net,j), netPinOffset(net,j))` -/
def netPins (m : Model) (net : Nat) : List Pin1 :=
  (List.range (m.nbNetPins net)).map fun j => (m.pinCell net j, m.netPinOffset net j)

/-- the nets of a cell, in order: `for i < nbCellPins(cell): pinNet(cell,i)` -/
def cellNetList (m : Model) (cell : Nat) : List Nat :=
  (List.range (m.nbCellPins cell)).map fun i => m.pinNet cell i

/-- positions of the pins of a net -/
def netPinPositions (m : Model) (net : Nat) : List Int :=
  (m.netPins net).map fun p => m.cellPos.getD p.1 0 + p.2

/-- `computeNetMinMaxPos(net)` -/
def computeNetMinMaxPos (m : Model) (net : Nat) : Int × Int :=
  (Circuit.lmin intMax (m.netPinPositions net), Circuit.lmax intMin (m.netPinPositions net))

/-- `computeNetMinMaxPos()` -/
def computeAllMinMaxPos (m : Model) : List (Int × Int) :=
  (List.range m.nbNets).map m.computeNetMinMaxPos

/-- `computeValue()` (reads `netMinMaxPos_`) -/
def computeValue (m : Model) : Int :=
  ((List.range m.nbNets).map fun net => (m.netMinMaxPos.getD net (0, 0)).2 - (m.netMinMaxPos.getD net (0, 0)).1).sum

/-- `recomputeNet(net)` -/
def recomputeNet (m : Model) (net : Nat) : Model :=
  { m with netMinMaxPos := m.netMinMaxPos.set net (m.computeNetMinMaxPos net)
           value := m.value + (((m.computeNetMinMaxPos net).2 - (m.computeNetMinMaxPos net).1)
                               - ((m.netMinMaxPos.getD net (0, 0)).2 - (m.netMinMaxPos.getD net (0, 0)).1)) }

/-- `cellPos_[cell] = pos` -/
def setPos (m : Model) (cell : Nat) (pos : Int) : Model := { m with cellPos := m.cellPos.set cell pos }

/-- `updateCellPos(cell, pos)`: every net of the cell is recomputed (the loop reads only the
cell CSR, which `recomputeNet` does not touch) -/
def updateCellPos (m : Model) (cell : Nat) (pos : Int) : Model :=
  (m.cellNetList cell).foldl recomputeNet (m.setPos cell pos)

/-- all pins in net order: (net, cell, offset) -/
def allPins (m : Model) : List (Nat × Nat × Int) :=
  (List.range m.nbNets).flatMap fun net => (m.netPins net).map fun p => (net, p.1, p.2)

/-- `++cellLimits_[pinCell(i, j) + 1]` -/
def countStep (lims : List Nat) (p : Nat × Nat × Int) : List Nat := lims.modify (p.2.1 + 1) (· + 1)

/-- `std::partial_sum` (inclusive running sums), `acc` = sum so far -/
def partialSum (acc : Nat) : List Nat → List Nat
  | [] => []
  | x :: xs => (acc + x) :: partialSum (acc + x) xs

structure Fill where
  curIndex : List Nat
  cellNets : List Nat
  cellPinOffsets : List Int
deriving Repr, DecidableEq

/-- `ind = curIndex[cell]++; cellNets_[ind] = i; cellPinOffsets_[ind] = netPinOffset(i, j)` -/
def fillStep (f : Fill) (p : Nat × Nat × Int) : Fill :=
  { curIndex := f.curIndex.modify p.2.1 (· + 1)
    cellNets := f.cellNets.set (f.curIndex.getD p.2.1 0) p.1
    cellPinOffsets := f.cellPinOffsets.set (f.curIndex.getD p.2.1 0) p.2.2 }

/-- the cell limits computed by the first half of `finalize` -/
def computeCellLimits (m : Model) : List Nat :=
  partialSum 0 (m.allPins.foldl countStep (List.replicate (m.nbCells + 1) 0))

/-- `finalize()` -/
def finalize (m : Model) : Model :=
  let lims := m.computeCellLimits
  let f := m.allPins.foldl fillStep ⟨lims, List.replicate m.nbPins 0, List.replicate m.nbPins 0⟩
  let m1 := { m with cellLimits := lims, cellNets := f.cellNets, cellPinOffsets := f.cellPinOffsets }
  let m2 := { m1 with netMinMaxPos := m1.computeAllMinMaxPos }
  { m2 with value := m2.computeValue }

/-- `check()`'s last two tests: the maintained bounds and value equal their recomputation -/
def consistent (m : Model) : Bool :=
  m.netMinMaxPos == m.computeAllMinMaxPos && m.value == m.computeValue

end Model

/-- `IncrNetModelBuilder::build(pos)` -/
def Builder.build (b : Builder) (pos : List Int) : Model :=
  Model.finalize { cellPos := pos, netLimits := b.netLimits, netCells := b.netCells, netPinOffsets := b.netPinOffsets
                   cellLimits := [], cellNets := [], cellPinOffsets := [], netMinMaxPos := [], value := 0 }

/-! ### xTopology / yTopology -/

/-- `buildCellMapping` + lookup: index of `cell` in `cells` (`std::unordered_map` assignment in a
loop: the last occurrence wins; the C++ asserts there are no duplicates). -/
def cellIndexFrom (cell : Nat) : List Nat → Nat → Option Nat → Option Nat
  | [], _, best => best
  | c :: cs, i, best => cellIndexFrom cell cs (i + 1) (if c = cell then some i else best)

def cellIndex (cells : List Nat) (cell : Nat) : Option Nat := cellIndexFrom cell cells 0 none

/-- the pins of one circuit net that belong to the selected cells, re-indexed -/
def selectedPins (off : Cell → Pin → Int) (c : Circuit) (cells : List Nat) (n : Net) : List Pin1 :=
  n.pins.filterMap fun p => (cellIndex cells p.cell).map fun k => (k, off (c.cell p.cell) p)

/-- absolute positions of the pins of one circuit net on cells outside the selection -/
def fixedPositions (off : Cell → Pin → Int) (pos : Cell → Int) (c : Circuit) (cells : List Nat) (n : Net) : List Int :=
  n.pins.filterMap fun p =>
    match cellIndex cells p.cell with
    | some _ => none
    | none => some (pos (c.cell p.cell) + off (c.cell p.cell) p)

/-- `if (hasFixed) { push (fixedCell, minFixed); if (minFixed != maxFixed) push (fixedCell, maxFixed); }` -/
def pseudoPins (fixedCell : Nat) (fixed : List Int) : List Pin1 :=
  if fixed.isEmpty then []
  else if Circuit.lmin intMax fixed != Circuit.lmax intMin fixed then
    [(fixedCell, Circuit.lmin intMax fixed), (fixedCell, Circuit.lmax intMin fixed)]
  else [(fixedCell, Circuit.lmin intMax fixed)]

/-- the pin list handed to `addNet` for one circuit net -/
def reducedNet (off : Cell → Pin → Int) (pos : Cell → Int) (c : Circuit) (cells : List Nat) (n : Net) : List Pin1 :=
  selectedPins off c cells n ++ pseudoPins cells.length (fixedPositions off pos c cells n)

/-- common body of `xTopology(circuit, cells)` and `yTopology(circuit, cells)` -/
def topology (off : Cell → Pin → Int) (pos : Cell → Int) (c : Circuit) (cells : List Nat) : Model :=
  (c.nets.foldl (fun b n => b.addNet (reducedNet off pos c cells n)) (Builder.new (cells.length + 1))).build
    (cells.map (fun i => pos (c.cell i)) ++ [0])

/-- `IncrNetModel::xTopology(circuit, cells)` -/
def xTopology (c : Circuit) (cells : List Nat) : Model := topology Circuit.pinXOffset (·.x) c cells
/-- `IncrNetModel::yTopology(circuit, cells)` -/
def yTopology (c : Circuit) (cells : List Nat) : Model := topology Circuit.pinYOffset (·.y) c cells
/-- `IncrNetModel::xTopology(circuit)` -/
def xTopologyAll (c : Circuit) : Model := xTopology c (List.range c.cells.length)
/-- `IncrNetModel::yTopology(circuit)` -/
def yTopologyAll (c : Circuit) : Model := yTopology c (List.range c.cells.length)

/-! ### the two models of `DetailedPlacer`

`DetailedPlacer` (src/place_detailed/place_detailed.{hpp,cpp}) holds `xtopo_` and `ytopo_`, built by its
constructor from `IncrNetModel::xTopology(circuit)` / `yTopology(circuit)`; the objective every move of
detailed placement is judged by is `value() = xtopo_.value() + ytopo_.value()`, and every move ends in
`updateCellPos(c, pos)` = `xtopo_.updateCellPos(c, pos.x); ytopo_.updateCellPos(c, pos.y);`. -/

structure PlacerModels where
  x : Model
  y : Model
deriving Repr, DecidableEq, Inhabited

namespace PlacerModels

/-- the member initialisers `xtopo_(IncrNetModel::xTopology(circuit)), ytopo_(IncrNetModel::yTopology(circuit))` -/
def build (c : Circuit) : PlacerModels := ⟨xTopologyAll c, yTopologyAll c⟩

/-- `DetailedPlacer::value()` -/
def value (p : PlacerModels) : Int := p.x.value + p.y.value

/-- `DetailedPlacer::updateCellPos(c, pos)` -/
def updateCellPos (p : PlacerModels) (cell : Nat) (x y : Int) : PlacerModels :=
  ⟨p.x.updateCellPos cell x, p.y.updateCellPos cell y⟩

/-- a history of position updates `(cell, x, y)` -/
def run (p : PlacerModels) (ops : List (Nat × Int × Int)) : PlacerModels :=
  ops.foldl (fun p o => p.updateCellPos o.1 o.2.1 o.2.2) p

end PlacerModels

end ColoVerif.IncrNet
