import ColoVerif.Model.Legalize
import ColoVerif.Model.Checked
/-
Checked re-statement of `coloquinte::TetrisLegalizer` and `LegalizerBase::closestRow`
(src/place_detailed/tetris_legalizer.cpp, src/place_detailed/legalizer.cpp; the tree with
fix c01-tetris-turned and fix c04-tetris-row-orientation, i.e. `tetrisPerSegmentOrientation`).

Every arithmetic sub-expression of the source is a C++ `int`:

  closestRow:            rows_[row].minY - y > y - rows_[row - 1].minY          int - int, twice (only when 0 < row < nbRows)
  getPossibleIntervals:  int e = rows_[r].maxX - w;                             int - int   (every segment at this y)
                         getPossibleIntervals(w, h - rowHeight(), y + rowHeight())   int - int, int + int (only when recursing)
  attemptPlacement:      e + width > rows_[row].maxX                            int + int   (only if !(b < rows_[row].minX))
                         std::abs(pos - x) < std::abs(dest - x)                 int - int, abs(int), twice (only if found)
  placeCell / tryPlace:  found && std::abs(targetY - y) >= bestDist             int - int, abs(int) (only if found)
                         std::abs(targetX - x) + std::abs(targetY - y)          int - int, abs, int - int, abs, int + int
  instanciateCell:       x < rows_[r].maxX && x + w > rows_[r].minX             int + int   (only if x < maxX)
                         rowFreePos_[r] = x + w                                  (the same value again)
                         instanciateCell(x, y + rowHeight(), w, h - rowHeight()) int + int, int - int (only when recursing)
  Row::height():         maxY - minY                                            int - int   (`rowHeight()`)

`std::clamp`, `min`, `max` and comparisons cannot fault.  `getPossibleIntervals` is called
inside the per-segment loop of `attemptPlacement`, after the orientation test: if every segment
at `y` is INVALID for the cell its arithmetic is never evaluated — the checked model keeps that
laziness (`attemptSegsC` receives the not-yet-forced result).

`rows_[closestRow(targetY)]` with no row at all is an out-of-range access (`closestRow` returns
−1): `tetrisPlaceC` reports it as `indexOutOfRange` (unreachable through `Legalizer::run`, which
throws "No row present" first).

The functions return exactly what the unbounded model of `Model/Legalize.lean` returns, or the
first fault.  Recursion is structural on the lists / the same fuel as the unbounded model.
-/
namespace ColoVerif.Legalize
open ColoVerif.Checked

/-- `LegalizerBase::closestRow(y)` -/
def closestRowC (rows : List Row) (y : Int) : Except Fault Int :=
  if lowerBound rows y = rows.length then .ok ((rows.length : Int) - 1)
  else if lowerBound rows y = 0 then .ok 0
  else
    andThen (subI32 "closestRow: rows_[row].minY - y" (rowAt rows (lowerBound rows y)).rect.minY y) fun a =>
    andThen (subI32 "closestRow: y - rows_[row - 1].minY" y (rowAt rows (lowerBound rows y - 1)).rect.minY) fun b =>
      .ok (if a > b then (lowerBound rows y : Int) - 1 else (lowerBound rows y : Int))

/-- one level of `getPossibleIntervals` -/
def levelIvsC (w y : Int) : List Row → List Int → Except Fault (List (Int × Int))
  | r :: rs, f :: fs =>
    if r.rect.minY ≠ y then .ok []
    else
      andThen (subI32 "getPossibleIntervals: rows_[r].maxX - w" r.rect.maxX w) fun e =>
      andThen (levelIvsC w y rs fs) fun rest =>
        .ok (if e ≥ f then (f, e) :: rest else rest)
  | _, _ => .ok []

/-- `TetrisLegalizer::getPossibleIntervals(w, h, y)` -/
def possibleIvsC (rows : List Row) (rowH : Int) (free : List Int) (w : Int) :
    Nat → Int → Int → Except Fault (List (Int × Int))
  | 0, _, _ => .ok []
  | fuel + 1, h, y =>
    andThen (closestRowC rows y) fun cr =>
    andThen (levelIvsC w y (rows.drop cr.toNat) (free.drop cr.toNat)) fun ivs =>
      if h ≤ rowH || ivs.isEmpty then .ok ivs
      else
        andThen (subI32 "getPossibleIntervals: h - rowHeight()" h rowH) fun h' =>
        andThen (addI32 "getPossibleIntervals: y + rowHeight()" y rowH) fun y' =>
        andThen (possibleIvsC rows rowH free w fuel h' y') fun other =>
          .ok (crossIvs ivs other)

/-- one iteration of the "closest available interval" loop -/
def closestStepC (x : Int) (acc : Option Int) (iv : Int × Int) : Except Fault (Option Int) :=
  match acc with
  | none => .ok (some (clamp x iv.1 iv.2))
  | some d =>
    andThen (subI32 "attemptPlacement: pos - x" (clamp x iv.1 iv.2) x) fun a =>
    andThen (absI32 "attemptPlacement: std::abs(pos - x)" a) fun a' =>
    andThen (subI32 "attemptPlacement: dest - x" d x) fun b =>
    andThen (absI32 "attemptPlacement: std::abs(dest - x)" b) fun b' =>
      .ok (if a' < b' then some (clamp x iv.1 iv.2) else some d)

/-- the body of the interval loop of the per-segment `attemptPlacement` -/
def closestInSegC (x w : Int) (r : Row) (acc : Option Int) (iv : Int × Int) : Except Fault (Option Int) :=
  if iv.1 < r.rect.minX then .ok acc
  else
    andThen (addI32 "attemptPlacement: e + width" iv.2 w) fun ew =>
      if ew > r.rect.maxX then .ok acc else closestStepC x acc iv

/-- a `for` loop whose body may fault -/
def foldlC {α β : Type} (f : β → α → Except Fault β) : List α → β → Except Fault β
  | [], b => .ok b
  | a :: as, b => andThen (f b a) fun b' => foldlC f as b'

/-- outer loop of `attemptPlacement` over the segments with `minY == y`; `ivsC` is the (lazy)
result of `getPossibleIntervals(width, height, y)` -/
def attemptSegsC (rows : List Row) (c : LCell) (y : Int) (ivsC : Except Fault (List (Int × Int))) :
    Nat → List Row → Option Int → Except Fault (Option Int)
  | _, [], acc => .ok acc
  | i, r :: rs, acc =>
    if r.rect.minY ≠ y then .ok acc
    else if getOrientation rows c i = Orient.INVALID then attemptSegsC rows c y ivsC (i + 1) rs acc
    else
      andThen ivsC fun ivs =>
      andThen (foldlC (closestInSegC c.tx c.w r) ivs acc) fun acc' =>
        attemptSegsC rows c y ivsC (i + 1) rs acc'

/-- `TetrisLegalizer::attemptPlacement(cell, y)` -/
def attemptC (t : Tetris) (c : LCell) (y : Int) : Except Fault (Option Int) :=
  andThen (closestRowC t.rows y) fun cr =>
    attemptSegsC t.rows c y (possibleIvsC t.rows t.rowH t.free c.w (c.h.toNat + 1) c.h y)
      cr.toNat (t.rows.drop cr.toNat) none

/-- `std::abs(targetX - x) + std::abs(targetY - y)` -/
def distC (c : LCell) (x y : Int) : Except Fault Int :=
  andThen (subI32 "placeCell: targetX - x" c.tx x) fun dx =>
  andThen (absI32 "placeCell: std::abs(targetX - x)" dx) fun ax =>
  andThen (subI32 "placeCell: targetY - y" c.ty y) fun dy =>
  andThen (absI32 "placeCell: std::abs(targetY - y)" dy) fun ay =>
    addI32 "placeCell: std::abs(…) + std::abs(…)" ax ay

/-- `tryPlace` after the early-exit test -/
def attemptDistC (t : Tetris) (c : LCell) (y : Int) (b : Option Best) : Except Fault (Option Best × Bool) :=
  andThen (attemptC t c y) fun r =>
    match r with
    | none => .ok (b, false)
    | some x =>
      andThen (distC c x y) fun d =>
        match b with
        | some bb => .ok (if d < bb.dist then (some ⟨x, y, d⟩, false) else (b, false))
        | none => .ok (some ⟨x, y, d⟩, false)

/-- the `tryPlace` lambda of `TetrisLegalizer::placeCell` -/
def tetrisTryC (t : Tetris) (c : LCell) (row : Nat) (b : Option Best) : Except Fault (Option Best × Bool) :=
  match b with
  | some bb =>
    andThen (subI32 "placeCell: targetY - y (early exit)" c.ty (rowAt t.rows row).rect.minY) fun dy =>
    andThen (absI32 "placeCell: std::abs(targetY - y) (early exit)" dy) fun ay =>
      if ay ≥ bb.dist then .ok (b, true) else attemptDistC t c (rowAt t.rows row).rect.minY b
  | none => attemptDistC t c (rowAt t.rows row).rect.minY b

/-- a `for` loop over row indices with `break`, whose body may fault -/
def scanRowsC {σ : Type} (f : Nat → σ → Except Fault (σ × Bool)) : List Nat → σ → Except Fault σ
  | [], s => .ok s
  | r :: rs, s => andThen (f r s) fun p => if p.2 then .ok p.1 else scanRowsC f rs p.1

def searchRowsC {σ : Type} (f : Nat → σ → Except Fault (σ × Bool)) (n init : Nat) (s : σ) : Except Fault σ :=
  andThen (scanRowsC f (upRows n init) s) fun s' => scanRowsC f (downRows init) s'

/-- one level of `instanciateCell` -/
def markLevelC (x w y : Int) : List Row → List Int → Except Fault (List Int)
  | r :: rs, f :: fs =>
    if r.rect.minY ≠ y then .ok (f :: fs)
    else if x < r.rect.maxX then
      andThen (addI32 "instanciateCell: x + w" x w) fun xw =>
      andThen (markLevelC x w y rs fs) fun rest =>
        .ok ((if xw > r.rect.minX then xw else f) :: rest)
    else
      andThen (markLevelC x w y rs fs) fun rest => .ok (f :: rest)
  | _, fs => .ok fs

/-- `TetrisLegalizer::instanciateCell(x, y, w, h)` -/
def instanciateC (rows : List Row) (rowH : Int) (x w : Int) : Nat → Int → Int → List Int → Except Fault (List Int)
  | 0, _, _, free => .ok free
  | fuel + 1, y, h, free =>
    if h ≤ 0 || w ≤ 0 then .ok free
    else
      andThen (closestRowC rows y) fun cr =>
      andThen (markLevelC x w y (rows.drop cr.toNat) (free.drop cr.toNat)) fun lvl =>
        if h ≤ rowH then .ok (free.take cr.toNat ++ lvl)
        else
          andThen (addI32 "instanciateCell: y + rowHeight()" y rowH) fun y' =>
          andThen (subI32 "instanciateCell: h - rowHeight()" h rowH) fun h' =>
            instanciateC rows rowH x w fuel y' h' (free.take cr.toNat ++ lvl)

/-- `TetrisLegalizer::placeCell` -/
def tetrisPlaceC (t : Tetris) (c : LCell) : Except Fault (Tetris × Pos) :=
  if t.rows.isEmpty then .error (.indexOutOfRange "placeCell: rows_[closestRow(targetY)] without rows")
  else
    andThen (closestRowC t.rows c.ty) fun cr =>
    andThen (searchRowsC (tetrisTryC t c) t.rows.length cr.toNat none) fun r =>
      match r with
      | none => .ok (t, initPos c)
      | some b =>
        andThen (closestRowC t.rows b.y) fun cb =>
        andThen (instanciateC t.rows t.rowH b.x c.w (c.h.toNat + 1) b.y c.h t.free) fun free' =>
          .ok ({ t with free := free' },
               ⟨b.x, b.y, getOrientation t.rows c (segOf b.x b.y cb.toNat (t.rows.drop (cb.toNat + 1))), true⟩)

/-- `TetrisLegalizer::run` -/
def tetrisRunC : Tetris → List LCell → Except Fault (List Pos)
  | _, [] => .ok []
  | t, c :: cs =>
    andThen (tetrisPlaceC t c) fun r =>
    andThen (tetrisRunC r.1 cs) fun ps => .ok (r.2 :: ps)

/-- constructor of `TetrisLegalizer` + the first `rowHeight()` (`Row::height()` = `maxY - minY`) -/
def Tetris.initC (rows : List Row) : Except Fault Tetris :=
  match (sortRows rows).head? with
  | none => .ok ⟨sortRows rows, 0, []⟩
  | some r =>
    andThen (subI32 "Row::height: maxY - minY" r.rect.maxY r.rect.minY) fun hgt =>
      .ok ⟨sortRows rows, hgt, (sortRows rows).map (·.rect.minX)⟩

end ColoVerif.Legalize
