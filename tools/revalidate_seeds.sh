#!/bin/bash
# Re-create and re-validate every seeded patch against /repo's current HEAD (4 at a time).
V=$(cd "$(dirname "$0")/.." && pwd)
ls $V/seeded | xargs -P 4 -I{} sh -c "SEED_SAN=\$(grep -q 'needs ASan\|needs UBSan' $V/seeded/{}/meta.json && echo 1 || echo 0) $V/tools/rebase_seed.sh {} > /var/tmp/reval-{}.log 2>&1; echo {} \$(tail -1 /var/tmp/reval-{}.log)"
