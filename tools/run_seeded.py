#!/usr/bin/env python3
"""Run the registered checks against the seeded breaking changes in /verif/seeded/.

For each seeded/<id>/ (patch.diff, meta.json {"property": "Cnn", ...}) a scratch
worktree of /repo's HEAD is created outside /repo and /verif, the patch applied,
the property's check run with VERIF_REPO pointing at it, the verdict recorded in
seeded/<id>/result.json, and the worktree removed.  (Equivalent to applying the
patch to /repo and undoing it afterwards, without disturbing /repo.)

usage: tools/run_seeded.py [--tier quick] [--also C07,C01] [ids...]
"""
import argparse
import json
import os
import re
import shutil
import subprocess
import sys
import time

VERIF = os.path.dirname(os.path.dirname(os.path.abspath(__file__)))


def sh(cmd, **kw):
    return subprocess.run(cmd, stdout=subprocess.PIPE, stderr=subprocess.STDOUT, text=True, **kw)


def main():
    ap = argparse.ArgumentParser()
    ap.add_argument("ids", nargs="*")
    ap.add_argument("--tier", default="quick")
    ap.add_argument("--also", default="")
    ap.add_argument("--keep", action="store_true")
    a = ap.parse_args()
    root = os.path.join(VERIF, "seeded")
    ids = a.ids or sorted(d for d in os.listdir(root) if os.path.isdir(os.path.join(root, d)))
    summary = []
    for sid in ids:
        d = os.path.join(root, sid)
        meta = json.load(open(os.path.join(d, "meta.json")))
        props = [meta["property"]] + [p for p in a.also.split(",") if p]
        wt = "/var/tmp/seed-%s-%d" % (sid, os.getpid())
        sh(["git", "-C", "/repo", "worktree", "add", "--detach", wt, "HEAD"])
        try:
            r = sh(["git", "-C", wt, "apply", os.path.join(d, "patch.diff")])
            if r.returncode != 0:
                summary.append((sid, "patch does not apply: " + r.stdout[-300:]))
                continue
            res = {}
            for prop in props:
                # one build/cache directory per property, serialised by a lock: concurrent runs for
                # different mutated trees must not share generated files or evict each other's library
                env = dict(os.environ, VERIF_REPO=wt, VERIF_CACHE="/var/tmp/cache-seed-" + prop,
                           LKDIR="/var/tmp/lk-seed-" + prop, VERIF_EVID="/var/tmp/evid-seed")
                t0 = time.time()
                import fcntl
                with open("/var/tmp/seed-%s.lock" % prop, "w") as lk:
                    fcntl.flock(lk, fcntl.LOCK_EX)
                    r = sh([sys.executable, os.path.join(VERIF, "tools", "check.py"), prop, "--tier", a.tier], env=env, cwd=VERIF)
                viol = re.findall(r"^VIOLATION .*$", r.stdout, re.M)
                for v in viol:
                    m = re.search(r"replay=(\S+)", v)
                    if m and os.path.exists(m.group(1)):
                        shutil.copy(m.group(1), os.path.join(d, "replay-%s.json" % prop))
                res[prop] = {"exit": r.returncode, "violation_lines": viol, "wall_s": round(time.time() - t0, 1),
                             "tail": r.stdout[-1500:]}
                summary.append((sid, "%s exit=%d %s" % (prop, r.returncode, viol[0] if viol else "no violation reported")))
            with open(os.path.join(d, "result.json"), "w") as f:
                json.dump({"tier": a.tier, "repo_head": sh(["git", "-C", "/repo", "rev-parse", "HEAD"]).stdout.strip(),
                           "results": res}, f, indent=1)
        finally:
            if not a.keep:
                sh(["git", "-C", "/repo", "worktree", "remove", "--force", wt])
                shutil.rmtree(wt, ignore_errors=True)
    for s in summary:
        print("%-28s %s" % s)


if __name__ == "__main__":
    main()
