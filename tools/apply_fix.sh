#!/bin/bash
# apply /verif/fixes/<name>.diff to /repo and commit it with <name>.msg
set -e
n=$1
cd /repo
git apply --check /verif/fixes/$n.diff
git apply /verif/fixes/$n.diff
git add -A src pycoloquinte test 2>/dev/null || git add -A src
git commit -q -F /verif/fixes/$n.msg
echo "$n -> $(git rev-parse --short HEAD)"
mkdir -p /verif/fixes/applied && mv /verif/fixes/$n.diff /verif/fixes/$n.msg /verif/fixes/applied/
