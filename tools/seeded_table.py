#!/usr/bin/env python3
"""Markdown table of the seeded changes and what the checks reported (from seeded/*/{meta,result}.json)."""
import glob, json, os
V = os.path.dirname(os.path.dirname(os.path.abspath(__file__)))
print("| seeded change | property | needs in order to manifest | check verdict (quick tier) |")
print("|---|---|---|---|")
for d in sorted(glob.glob(os.path.join(V, "seeded", "*"))):
    mp = os.path.join(d, "meta.json")
    if not os.path.exists(mp):
        continue
    m = json.load(open(mp))
    rp = os.path.join(d, "result.json")
    verdict = "not run yet"
    if os.path.exists(rp):
        r = json.load(open(rp))
        vs = []
        for prop, res in r["results"].items():
            if res["violation_lines"]:
                v = res["violation_lines"][0]
                kind = "tie broken, no failing input found" if "no-failing-input-found" in v else "VIOLATION with concrete replay"
                vs.append("%s: %s" % (prop, kind))
            else:
                vs.append("%s: missed (exit %d)" % (prop, res["exit"]))
        verdict = "; ".join(vs)
    print("| %s | %s | %s | %s |" % (os.path.basename(d), m["property"], m["needs_to_manifest"].replace("|", "/"), verdict))
