#!/bin/sh
# Build /repo without the COLOQUINTE_VERIF guard and run the repository's own test suite.
set -e
REPO=${VERIF_REPO:-/repo}
B=${BASELINE_BUILD_DIR:-$REPO/_build}
cmake -G Ninja -S "$REPO" -B "$B" >/dev/null
cmake --build "$B" -j16 >/dev/null
ctest --test-dir "$B" -j8 --timeout 900 2>&1 | tail -5
