"""Translator piece (tie T) for the orientation tables.

Regenerates, from the clang-14 JSON AST of /repo/src/parameters.cpp and
/repo/src/coloquinte.cpp, Lean definitions (namespace ColoVerif.Gen) of

  oppositeRowOrientation, isTurn, cellOrientationInRow? / cellOrientationInRow,
  xFlipped, yFlipped               (the `flipped` sets of Circuit::pinXOffset/pinYOffset)
  placedWidth, placedHeight, pinXOffset, pinYOffset   (over orient, w, h, xo, yo)
  orientCodes, polarityCodes, orientAliases            (the enumerators' numeric values)

The translation is a small compiler for the statement/expression shapes these
functions use today (return / if-else chains / switch with one return per case /
abort(); ==, !=, ||, &&, !, ?:, +, -, calls among the translated functions).  Any
other shape raises TranslateError: an unparseable region is a broken tie, never a
default.  A path that reaches `abort()` or falls off the end of a value-returning
function makes the function partial: it is emitted as `<name>?` returning Option
(`none` on that path) plus a total wrapper, and Properties/C04.lean proves that
`none` is unreachable on the enum domain.
"""
import os
import sys

sys.path.insert(0, os.path.dirname(os.path.dirname(os.path.abspath(__file__))))
from translate import TranslateError, clang_ast, walk, function_body, read, digest  # noqa: E402

ORIENT_CTORS = ["N", "S", "W", "E", "FN", "FS", "FW", "FE", "INVALID", "UNKNOWN"]
POL_CTORS = ["ANY", "SAME", "OPPOSITE", "NW", "SE"]
ENUMS = {"coloquinte::CellOrientation": ("Orient", ORIENT_CTORS),
         "coloquinte::CellRowPolarity": ("Polarity", POL_CTORS)}
TRANSPARENT = ("ImplicitCastExpr", "ParenExpr", "ConstantExpr", "ExprWithCleanups", "CXXFunctionalCastExpr",
               "MaterializeTemporaryExpr")
PARAMS = "src/parameters.cpp"
CIRCUIT = "src/coloquinte.cpp"


def kids(n):
    return [c for c in (n.get("inner") or []) if isinstance(c, dict) and not c.get("kind", "").endswith("Comment")]


def strip(n):
    while n.get("kind") in TRANSPARENT:
        ks = kids(n)
        if len(ks) != 1:
            raise TranslateError("cast/paren node with %d children" % len(ks))
        n = ks[0]
    return n


# ------------------------------------------------------------------ enumerators

def enum_values(enum_name):
    """{enumerator name: value} for `enum class <enum_name>` as clang sees it."""
    objs = clang_ast(PARAMS, "coloquinte::" + enum_name)
    decls = [o for o in objs if o.get("kind") == "EnumDecl" and o.get("name") == enum_name and kids(o)]
    if len(decls) != 1:
        raise TranslateError("expected one definition of enum %s, found %d" % (enum_name, len(decls)))
    vals, nxt = {}, 0
    for c in kids(decls[0]):
        if c.get("kind") != "EnumConstantDecl":
            raise TranslateError("unexpected %s inside enum %s" % (c.get("kind"), enum_name))
        init = [k for k in kids(c)]
        if init:
            if len(init) != 1 or init[0].get("kind") != "ConstantExpr" or "value" not in init[0]:
                raise TranslateError("enumerator %s::%s has an initializer I cannot evaluate" % (enum_name, c.get("name")))
            nxt = int(init[0]["value"])
        vals[c["name"]] = nxt
        nxt += 1
    return vals


class Ctx:
    def __init__(self):
        self.orient = enum_values("CellOrientation")
        self.pol = enum_values("CellRowPolarity")
        for ctors, vals, nm in ((ORIENT_CTORS, self.orient, "CellOrientation"), (POL_CTORS, self.pol, "CellRowPolarity")):
            for k in ctors:
                if k not in vals:
                    raise TranslateError("enumerator %s::%s disappeared" % (nm, k))
            canon = sorted(vals[k] for k in ctors)
            if canon != list(range(len(ctors))):
                raise TranslateError("%s: the canonical enumerators no longer have the values 0..%d: %r" % (
                    nm, len(ctors) - 1, {k: vals[k] for k in ctors}))
            for k, v in vals.items():
                if not 0 <= v < len(ctors):
                    raise TranslateError("%s::%s = %d is outside the modelled range" % (nm, k, v))

    def enum_const(self, ref):
        qt = ref.get("type", {}).get("qualType")
        if qt not in ENUMS:
            raise TranslateError("enumerator of unknown type %s" % qt)
        lean_ty, ctors = ENUMS[qt]
        vals = self.orient if lean_ty == "Orient" else self.pol
        name = ref.get("name")
        if name not in vals:
            raise TranslateError("unknown enumerator %s::%s" % (qt, name))
        # aliases (R0, MY, …) are mapped through their numeric value to the canonical constructor
        by_val = {vals[k]: k for k in ctors}
        return "%s.%s" % (lean_ty, by_val[vals[name]])


# ------------------------------------------------------------------ expressions

BINOPS = {"==": "==", "!=": "!=", "||": "||", "&&": "&&", "+": "+", "-": "-"}
KNOWN_FUNCS = ("oppositeRowOrientation", "isTurn", "cellOrientationInRow")


class Env:
    """Names visible in the function being translated -> Lean text."""

    def __init__(self, ctx, vars_, members=None, partial_funcs=()):
        self.ctx, self.vars, self.members, self.partial_funcs = ctx, dict(vars_), members or {}, set(partial_funcs)


def expr(n, env):
    n = strip(n)
    k = n.get("kind")
    if k == "DeclRefExpr":
        ref = n.get("referencedDecl", {})
        if ref.get("kind") == "EnumConstantDecl":
            return env.ctx.enum_const(ref)
        if ref.get("kind") in ("ParmVarDecl", "VarDecl"):
            if ref.get("name") not in env.vars:
                raise TranslateError("reference to untranslated variable %s" % ref.get("name"))
            return env.vars[ref["name"]]
        raise TranslateError("reference to %s %s" % (ref.get("kind"), ref.get("name")))
    if k == "BinaryOperator":
        op = n.get("opcode")
        if op not in BINOPS:
            raise TranslateError("binary operator %s" % op)
        a, b = kids(n)
        return "(%s %s %s)" % (expr(a, env), BINOPS[op], expr(b, env))
    if k == "UnaryOperator":
        if n.get("opcode") != "!":
            raise TranslateError("unary operator %s" % n.get("opcode"))
        return "(!%s)" % expr(kids(n)[0], env)
    if k == "ConditionalOperator":
        c, a, b = kids(n)
        return "(if %s then %s else %s)" % (expr(c, env), expr(a, env), expr(b, env))
    if k == "CXXBoolLiteralExpr":
        return "true" if n.get("value") else "false"
    if k == "CallExpr":
        ks = kids(n)
        callee = strip(ks[0])
        ref = callee.get("referencedDecl", {})
        if callee.get("kind") != "DeclRefExpr" or ref.get("name") not in KNOWN_FUNCS:
            raise TranslateError("call to untranslated function %s" % ref.get("name"))
        if ref["name"] in env.partial_funcs:
            raise TranslateError("call to partial function %s inside an expression" % ref["name"])
        return "(%s %s)" % (ref["name"], " ".join(expr(a, env) for a in ks[1:]))
    if k == "CXXMemberCallExpr":
        ks = kids(n)
        callee = strip(ks[0])
        if callee.get("kind") != "MemberExpr" or strip(kids(callee)[0]).get("kind") != "CXXThisExpr":
            raise TranslateError("member call on something other than `this`")
        name = callee.get("name")
        args = [expr(a, env) for a in ks[1:]]
        key = ("call", name, tuple(args))
        if key not in env.members:
            raise TranslateError("member call %s(%s) has no translation" % (name, ", ".join(args)))
        return env.members[key]
    if k == "CXXOperatorCallExpr":
        ks = kids(n)
        callee = strip(ks[0])
        if callee.get("referencedDecl", {}).get("name") != "operator[]" or len(ks) != 3:
            raise TranslateError("overloaded operator %s" % callee.get("referencedDecl", {}).get("name"))
        base = strip(ks[1])
        if base.get("kind") != "MemberExpr" or strip(kids(base)[0]).get("kind") != "CXXThisExpr":
            raise TranslateError("operator[] on something other than a member of `this`")
        idx = expr(ks[2], env)
        key = ("index", base.get("name"), idx)
        if key not in env.members:
            raise TranslateError("%s[%s] has no translation" % (base.get("name"), idx))
        return env.members[key]
    raise TranslateError("expression kind %s" % k)


# ------------------------------------------------------------------ statements
# A function body is compiled to a decision tree:
#   ("ret", leanExpr) | ("none",) | ("ite", cond, T, E) | ("match", scrutinee, [(ctor, T)], default T)

def is_abort(n):
    n = strip(n)
    if n.get("kind") != "CallExpr":
        return False
    callee = strip(kids(n)[0])
    return callee.get("referencedDecl", {}).get("name") == "abort"


def stmts_of(n):
    return kids(n) if n.get("kind") == "CompoundStmt" else [n]


def compile_stmts(stmts, env, rest_tree=("none",)):
    """Tree for executing `stmts` and then continuing with rest_tree."""
    if not stmts:
        return rest_tree
    s, rest = stmts[0], stmts[1:]
    k = s.get("kind")
    if k == "ReturnStmt":
        ks = kids(s)
        if len(ks) != 1:
            raise TranslateError("return without a value")
        return ("ret", expr(ks[0], env))
    if k == "CompoundStmt":
        return compile_stmts(kids(s) + rest, env, rest_tree)
    if k == "NullStmt":
        return compile_stmts(rest, env, rest_tree)
    if k == "IfStmt":
        ks = kids(s)
        if s.get("hasInit") or s.get("hasVar") or len(ks) not in (2, 3):
            raise TranslateError("if statement with init/var")
        after = compile_stmts(rest, env, rest_tree)
        then_t = compile_stmts(stmts_of(ks[1]), env, after)
        else_t = compile_stmts(stmts_of(ks[2]), env, after) if len(ks) == 3 else after
        return ("ite", expr(ks[0], env), then_t, else_t)
    if k == "SwitchStmt":
        ks = kids(s)
        if len(ks) != 2 or ks[1].get("kind") != "CompoundStmt":
            raise TranslateError("switch shape")
        after = compile_stmts(rest, env, rest_tree)
        scrut = expr(ks[0], env)
        cases, default = [], None
        for c in kids(ks[1]):
            if c.get("kind") == "CaseStmt":
                cks = kids(c)
                if len(cks) != 2 or cks[1].get("kind") != "ReturnStmt":
                    raise TranslateError("switch case that is not `case X: return e;`")
                label = expr(cks[0], env)
                if any(label == l for l, _ in cases):
                    raise TranslateError("duplicate case label %s" % label)
                cases.append((label, compile_stmts([cks[1]], env)))
            elif c.get("kind") == "DefaultStmt":
                cks = kids(c)
                if len(cks) != 1 or cks[0].get("kind") != "ReturnStmt" or default is not None:
                    raise TranslateError("default that is not `default: return e;`")
                default = compile_stmts([cks[0]], env)
            else:
                raise TranslateError("statement %s inside switch (fallthrough code is not supported)" % c.get("kind"))
        return ("match", scrut, cases, default if default is not None else after)
    if k == "DeclStmt":
        for d in kids(s):
            if d.get("kind") != "VarDecl" or len(kids(d)) != 1:
                raise TranslateError("declaration shape")
            env.vars[d["name"]] = expr(kids(d)[0], env)   # locals are never reassigned below: checked by kind whitelist
        return compile_stmts(rest, env, rest_tree)
    if is_abort(s):
        return ("none",)
    raise TranslateError("statement kind %s" % k)


def total(t):
    if t[0] == "ret":
        return True
    if t[0] == "none":
        return False
    if t[0] == "ite":
        return total(t[2]) and total(t[3])
    return all(total(x) for _, x in t[2]) and total(t[3])


def emit(t, opt, ind):
    pad = "  " * ind
    if t[0] == "ret":
        return pad + ("some " + t[1] if opt else t[1])
    if t[0] == "none":
        return pad + "none"
    if t[0] == "ite":
        return "%sif %s then\n%s\n%selse\n%s" % (pad, t[1], emit(t[2], opt, ind + 1), pad, emit(t[3], opt, ind + 1))
    lines = [pad + "match %s with" % t[1]]
    for l, x in t[2]:
        lines.append(pad + "| %s =>\n%s" % (l, emit(x, opt, ind + 2)))
    lines.append(pad + "| _ =>\n%s" % emit(t[3], opt, ind + 2))
    return "\n".join(lines)


LEAN_TYPES = {"coloquinte::CellOrientation": "Orient", "coloquinte::CellRowPolarity": "Polarity", "bool": "Bool",
              "int": "Int"}


def free_function(ctx, rel, name, partial_funcs, fallback=None):
    decl, body = function_body(clang_ast(rel, "coloquinte::" + name), name)
    params = [c for c in kids(decl) if c.get("kind") == "ParmVarDecl"]
    qt = decl.get("type", {}).get("qualType", "")
    ret = qt.split("(")[0].strip()
    if ret not in LEAN_TYPES or any(p["type"]["qualType"] not in LEAN_TYPES for p in params):
        raise TranslateError("signature of %s changed: %s" % (name, qt))
    env = Env(ctx, {p["name"]: p["name"] + "_" for p in params}, partial_funcs=partial_funcs)
    tree = compile_stmts(kids(body), env)
    sig = " ".join("(%s_ : %s)" % (p["name"], LEAN_TYPES[p["type"]["qualType"]]) for p in params)
    args = " ".join(p["name"] + "_" for p in params)
    if total(tree):
        return False, "/-- `%s` (%s) -/\ndef %s %s : %s :=\n%s\n" % (name, rel, name, sig, LEAN_TYPES[ret], emit(tree, False, 1))
    if fallback is None:
        raise TranslateError("%s can abort or fall off its end and no wrapper value was declared" % name)
    src = ("/-- `%s` (%s); `none` = the path that calls `abort()` / falls off the end -/\n"
           "def %s? %s : Option %s :=\n%s\n\n"
           "/-- total wrapper (`none` is proved unreachable in Properties/C04) -/\n"
           "def %s %s : %s := (%s? %s).getD %s\n") % (
        name, rel, name, sig, LEAN_TYPES[ret], emit(tree, True, 1), name, sig, LEAN_TYPES[ret], name, args, fallback)
    return True, src


# ------------------------------------------------------------------ Circuit methods

def circuit_method(ctx, name, params_expected):
    decl, body = function_body(clang_ast(CIRCUIT, "coloquinte::Circuit::" + name), name)
    params = [c for c in kids(decl) if c.get("kind") == "ParmVarDecl"]
    if [(p["name"], p["type"]["qualType"]) for p in params] != params_expected:
        raise TranslateError("signature of Circuit::%s changed" % name)
    return body


def circuit_functions(ctx):
    """placedWidth/placedHeight/pinXOffset/pinYOffset as functions of (orient, w, h, xo, yo)."""
    out, flips = [], {}
    # placedWidth / placedHeight (cell)
    for name in ("placedWidth", "placedHeight"):
        body = circuit_method(ctx, name, [("cell", "int")])
        members = {("call", "orientation", ("cell",)): "orient",
                   ("index", "cellWidth_", "cell"): "w", ("index", "cellHeight_", "cell"): "h"}
        env = Env(ctx, {"cell": "cell"}, members)
        tree = compile_stmts(kids(body), env)
        if not total(tree):
            raise TranslateError("Circuit::%s does not return on every path" % name)
        out.append("/-- `Circuit::%s` as a function of the cell's orientation and unrotated size -/\n"
                   "def %s (orient : Orient) (w h : Int) : Int :=\n%s\n" % (name, name, emit(tree, False, 1)))
    # pinXOffset / pinYOffset (net, i)
    for name, placed, flipname in (("pinXOffset", "placedWidth", "xFlipped"), ("pinYOffset", "placedHeight", "yFlipped")):
        body = circuit_method(ctx, name, [("net", "int"), ("i", "int")])
        stmts = kids(body)
        # locate `bool flipped = <expr over orient>` and emit it as its own definition
        flip_decl = None
        for s in stmts:
            if s.get("kind") == "DeclStmt":
                for d in kids(s):
                    if d.get("kind") == "VarDecl" and d.get("name") == "flipped":
                        flip_decl = d
        if flip_decl is None or flip_decl.get("type", {}).get("qualType") != "bool":
            raise TranslateError("Circuit::%s: no `bool flipped` local" % name)
        members = {("call", "pinCell", ("net", "i")): "cell",
                   ("call", "orientation", ("cell",)): "orient",
                   ("call", placed, ("cell",)): "(%s orient w h)" % placed,
                   ("index", "netLimits_", "net"): "netLimits_net",
                   ("index", "pinXOffsets_", "(netLimits_net + i)"): "xo",
                   ("index", "pinYOffsets_", "(netLimits_net + i)"): "yo"}
        fenv = Env(ctx, {"orient": "orient"}, {})
        flip_src = expr(kids(flip_decl)[0], fenv)
        flips[flipname] = flip_src
        out.append("/-- the `flipped` set of `Circuit::%s` -/\ndef %s (orient : Orient) : Bool :=\n  %s\n" % (name, flipname, flip_src))
        env = Env(ctx, {"net": "net", "i": "i"}, members)
        # compile with `flipped` bound to the generated definition so the structure stays visible
        pre = []
        for s in stmts:
            if s.get("kind") == "DeclStmt" and any(d.get("name") == "flipped" for d in kids(s)):
                if len(kids(s)) != 1:
                    raise TranslateError("Circuit::%s: `flipped` declared together with something else" % name)
                # evaluate (to check it only mentions orient) but bind the name to the Gen definition
                if expr(kids(flip_decl)[0], env) != flip_src:
                    raise TranslateError("Circuit::%s: `flipped` depends on more than the orientation" % name)
                env.vars["flipped"] = "(%s orient)" % flipname
                continue
            pre.append(s)
            if s.get("kind") == "DeclStmt":
                compile_stmts([s], env)
        tree = compile_stmts([s for s in pre if s.get("kind") != "DeclStmt"], env)
        if not total(tree):
            raise TranslateError("Circuit::%s does not return on every path" % name)
        out.append("/-- `Circuit::%s` as a function of the cell's orientation, unrotated size and the pin's unrotated offsets -/\n"
                   "def %s (orient : Orient) (w h xo yo : Int) : Int :=\n%s\n" % (name, name, emit(tree, False, 1)))
    return "\n".join(out)


def generate():
    ctx = Ctx()
    parts = ["import ColoVerif.Model.Geom\n/-\nOrientation tables regenerated from the C++ source (tie T).\n"
             "source digests: parameters.cpp %s, coloquinte.cpp %s\n-/\nnamespace ColoVerif.Gen\nopen ColoVerif\n" % (
                 digest(read(PARAMS)), digest(read(CIRCUIT)))]
    parts.append("/-- numeric values of the `CellOrientation` enumerators that are constructors of `Orient` -/\n"
                 "def orientCodes : List (Orient × Nat) :=\n  [%s]\n" % ", ".join(
                     "(Orient.%s, %d)" % (k, ctx.orient[k]) for k in ORIENT_CTORS))
    parts.append("/-- the header's alias enumerators (DEF/LEF names) -/\n"
                 "def orientAliases : List (String × Orient) :=\n  [%s]\n" % ", ".join(
                     '("%s", %s)' % (k, ctx.enum_const({"type": {"qualType": "coloquinte::CellOrientation"}, "name": k}))
                     for k in ctx.orient if k not in ORIENT_CTORS))
    parts.append("/-- numeric values of the `CellRowPolarity` enumerators -/\n"
                 "def polarityCodes : List (Polarity × Nat) :=\n  [%s]\n" % ", ".join(
                     "(Polarity.%s, %d)" % (k, ctx.pol[k]) for k in POL_CTORS))
    partial = set()
    info = {"partial": []}
    for name, fallback in (("oppositeRowOrientation", None), ("isTurn", None), ("cellOrientationInRow", "Orient.INVALID")):
        is_partial, src = free_function(ctx, PARAMS, name, partial, fallback)
        if is_partial:
            partial.add(name)
            info["partial"].append(name)
        parts.append(src)
    parts.append(circuit_functions(ctx))
    parts.append("end ColoVerif.Gen\n")
    return {"info": info, "OrientTables.lean": "\n".join(parts)}


if __name__ == "__main__":
    print(generate()["OrientTables.lean"])
