"""Translator piece (tie T) for the shared geometry layer.

Regenerates `lean/ColoVerif/Gen/GeomFns.lean` (namespace ColoVerif.Gen.Geom) from the
clang-14 JSON AST of the BODIES of the small pure functions every property's model leans on:

  Rectangle::Rectangle() / Rectangle(int,int,int,int), width, height, area, intersects,
  contains, intersection                                        (src/coloquinte.hpp)
  Circuit::x, y, orientation, isFixed, isObstruction, area, placement, pinCell (shape check)
                                                                (src/coloquinte.hpp)
  Circuit::placedWidth, placedHeight, pinXOffset, pinYOffset    (src/coloquinte.cpp)
  Circuit::computePlacementArea, rowHeight, hpwl  (loops)       (src/coloquinte.cpp)
  isTurn                                                        (src/parameters.cpp, through
                                                                 gen.OrientTables' compiler)
  std::numeric_limits<int>::max / min                           (values from libstdc++'s bodies)

`Proofs/GeomTie.lean` proves each generated definition equal to the hand-written one in
Model/Geom.lean / Model/Circuit.lean (`gen_<fn>_eq_model`; the loops with INT_MAX / INT_MIN
sentinels under an explicit int-range hypothesis), so a change of any of these bodies that changes
their meaning stops the `Properties/C*.lean` that import it from compiling.

This is a small compiler for exactly the constructs these bodies use today:
  statements : `return e;`  `T v = e;`  `v = e;` / `v += e;` (-=, *=) on locals,
               `if (c) … [else …]`, `assert(c);`, `throw …;` (the function then returns `Option`),
               `continue;`, and loops over a WHOLE container of the representation map:
               `for (T x : rows_)` and `for (int v = 0; v < nbNets() | nbPinsNet(net); ++v)`;
               a loop becomes `List.foldl` of a named step function over the tuple of the outer
               variables it assigns (see "statements" below)
  expressions: parameters/locals, fields of a Rectangle (`o.minX`, implicit `this->minX`),
               + - * and unary - on int / long long (C++ integers are Lean `Int`), < <= > >= == !=,
               && || !, ?:, std::max / std::min, *widening* integer casts, calls of other
               translated functions, `Rectangle(a, b, c, d)`, `vec_[index]` on the Circuit's
               arrays through the representation map below, `rows_.empty()`, `rows_[0]`,
               `std::numeric_limits<int>::max()` / `min()`.
Anything else raises TranslateError naming the function and the construct — never a default.

Representation map (stated here, not derived): the C++ Circuit is a struct of arrays indexed by
the cell, the model a list of `Cell` records, so inside a per-cell method `cellX_[cell]` is the
field `cl.x` (…) of the cell `cl` the method is about; inside a per-pin method the pin
`(net, i)` is the record `p : Pin` (`pinXOffsets_[netLimits_[net] + i]` is `p.xo`, …) and
`pinCell(net, i)` is the cell `cl` the pin sits on.  Every array the bodies may index is in
CELL_ARRAYS / PIN_ARRAYS; an index expression outside these tables is a TranslateError.
For the whole-circuit members see `circuit_env` (rows_ = `c.rows`, the CSR net arrays = `c.nets`
with their `.pins`, sizes = list lengths, counters visit the lists in order).
`assert(c)` is a precondition of the C++ function (out-of-range index); it is recorded in the
generated docstring and does not contribute to the value.
"""
import os
import sys
from concurrent.futures import ThreadPoolExecutor

sys.path.insert(0, os.path.dirname(os.path.dirname(os.path.abspath(__file__))))
from translate import TranslateError, clang_ast, read, digest  # noqa: E402
from gen.OrientTables import Ctx, free_function, PARAMS  # noqa: E402

HPP = "src/coloquinte.hpp"
CPP = "src/coloquinte.cpp"

RECT_FIELDS = ["minX", "maxX", "minY", "maxY"]           # fields of Model.Rect, in its order
INT_RANK = {"int": 32, "long long": 64}
LEAN_TY = {"int": "Int", "long long": "Int", "bool": "Bool", "coloquinte::Rectangle": "Rect",
           "coloquinte::CellOrientation": "Orient", "coloquinte::CellRowPolarity": "Polarity"}
# Circuit array member -> (field of the model's Cell record, Lean type)
CELL_ARRAYS = {"cellX_": ("x", "Int"), "cellY_": ("y", "Int"), "cellWidth_": ("w", "Int"),
               "cellHeight_": ("h", "Int"), "cellOrientation_": ("orient", "Orient"),
               "cellIsFixed_": ("fixed", "Bool"), "cellIsObstruction_": ("obstruction", "Bool"),
               "cellRowPolarity_": ("pol", "Polarity")}
PIN_ARRAYS = {"pinXOffsets_": ("xo", "Int"), "pinYOffsets_": ("yo", "Int")}
IDX = "Idx"   # type of a symbolic index (cell number, net number, pin number): never a value


def kids(n):
    return [c for c in (n.get("inner") or []) if isinstance(c, dict) and c and not c.get("kind", "").endswith("Comment")]


def ctype(n):
    t = n.get("type", {})
    q = t.get("desugaredQualType") or t.get("qualType") or ""
    q = q.replace("const ", "").strip()
    while q.endswith("&"):
        q = q[:-1].strip()
    return q


class Fn:
    """One function being translated: names in scope and the tables for `this`."""

    def __init__(self, ctx, cname, lean_name):
        self.ctx, self.cname, self.lean_name = ctx, cname, lean_name
        self.vars = {}         # C++ variable -> (lean text, type)
        self.this_fields = {}  # implicit this->field -> (lean text, type)      (Rectangle methods)
        self.this_calls = {}   # (method, (arg texts)) -> (lean text, type)     (calls on `this`)
        self.index = {}        # (array member, index text) -> (lean text, type)
        self.asserts = []
        self.rel = None        # source file of the body (to read the spelling of qualified names)
        self.params = []       # Lean binders of the generated definition: [(name, type)]
        self.scope = []        # binders of the enclosing loops: [(name, type)]
        self.containers = {}   # array member iterated / tested as a whole -> (lean list text, element type)
        self.index_loops = {}  # (bound method, (arg texts)) of `for (int v = 0; v < bound(..); ++v)` ->
        #                        (lean list text, element binder, element type, setup(f, v))
        self.nloops = 0
        self.aux = []          # step / loop definitions emitted before the function itself
        self.uses_limits = set()

    def err(self, what):
        return TranslateError("%s: unsupported construct: %s" % (self.cname, what))


# ------------------------------------------------------------------ expressions

ARITH = {"+": "+", "-": "-", "*": "*"}
CMP = {"<": "<", "<=": "≤", ">": ">", ">=": "≥"}
EQ = {"==": "==", "!=": "!="}
LOGIC = {"&&": "&&", "||": "||"}
TRANSPARENT = ("ParenExpr", "ConstantExpr", "ExprWithCleanups", "MaterializeTemporaryExpr")


def strip_index(n):
    """An index expression: value-preserving conversions to size_type are dropped."""
    while n.get("kind") in TRANSPARENT or (n.get("kind") == "ImplicitCastExpr" and
                                           n.get("castKind") in ("IntegralCast", "LValueToRValue", "NoOp")):
        n = kids(n)[0]
    return n


def strip_callee(n):
    while n.get("kind") in TRANSPARENT or (n.get("kind") == "ImplicitCastExpr" and
                                           n.get("castKind") in ("FunctionToPointerDecay", "NoOp")):
        n = kids(n)[0]
    return n


def expr(n, f, rect_methods):
    """(lean text, type) of a C++ expression."""
    k = n.get("kind")
    if k in TRANSPARENT:
        ks = kids(n)
        if len(ks) != 1:
            raise f.err("%s with %d children" % (k, len(ks)))
        return expr(ks[0], f, rect_methods)
    if k == "ImplicitCastExpr":
        ck = n.get("castKind")
        (c,) = kids(n)
        if ck in ("LValueToRValue", "NoOp"):
            return expr(c, f, rect_methods)
        if ck in ("DerivedToBase", "UncheckedDerivedToBase") and ctype(n) == "coloquinte::Rectangle":
            t, ty = expr(c, f, rect_methods)
            if ty == "Row":
                return t + ".rect", "Rect"
            raise f.err("base-class conversion of a %s" % ty)
        if ck == "IntegralCast":
            src, dst = ctype(c), ctype(n)
            if src in INT_RANK and dst in INT_RANK and INT_RANK[src] <= INT_RANK[dst]:
                return expr(c, f, rect_methods)      # widening: value-preserving
            raise f.err("integer conversion %s -> %s (only widening int -> long long is the identity)" % (src, dst))
        raise f.err("implicit cast %s" % ck)
    if k in ("CStyleCastExpr", "CXXStaticCastExpr", "CXXFunctionalCastExpr"):
        (c,) = kids(n)
        dst = ctype(n)
        if n.get("castKind") != "NoOp" or dst not in INT_RANK:
            raise f.err("explicit cast (%s) to %s" % (n.get("castKind"), dst))
        t, ty = expr(c, f, rect_methods)               # the conversion itself is the ImplicitCastExpr below it
        if ty != "Int":
            raise f.err("cast of a %s to %s" % (ty, dst))
        return t, ty
    if k == "IntegerLiteral":
        if ctype(n) not in INT_RANK:
            raise f.err("integer literal of type %s" % ctype(n))
        return "(%s : Int)" % n.get("value"), "Int"
    if k == "CXXBoolLiteralExpr":
        return ("true" if n.get("value") else "false"), "Bool"
    if k == "DeclRefExpr":
        ref = n.get("referencedDecl", {})
        if ref.get("kind") == "EnumConstantDecl":
            txt = f.ctx.enum_const(ref)
            return txt, txt.split(".")[0]
        if ref.get("kind") in ("ParmVarDecl", "VarDecl"):
            if ref.get("name") not in f.vars:
                raise f.err("reference to the untranslated variable `%s`" % ref.get("name"))
            return f.vars[ref["name"]]
        raise f.err("reference to %s `%s`" % (ref.get("kind"), ref.get("name")))
    if k == "MemberExpr":
        (b,) = kids(n)
        name = n.get("name")
        if b.get("kind") == "CXXThisExpr":
            if name not in f.this_fields:
                raise f.err("use of the member `%s` of *this" % name)
            return f.this_fields[name]
        bt, bty = expr(b, f, rect_methods)
        if bty == "Rect" and name in RECT_FIELDS and ctype(n) == "int":
            return "%s.%s" % (bt, name), "Int"
        raise f.err("member `%s` of a %s" % (name, bty))
    if k == "BinaryOperator":
        op = n.get("opcode")
        a, b = kids(n)
        (at, aty), (bt, bty) = expr(a, f, rect_methods), expr(b, f, rect_methods)
        if op in ARITH:
            if aty == bty == "Int" and ctype(n) in INT_RANK:
                return "(%s %s %s)" % (at, ARITH[op], bt), "Int"
            if op == "+" and aty == bty == IDX:
                return "(%s + %s)" % (at, bt), IDX
            raise f.err("`%s` on %s and %s" % (op, aty, bty))
        if op in CMP:
            if aty == bty == "Int":
                return "(decide (%s %s %s))" % (at, CMP[op], bt), "Bool"
            raise f.err("`%s` on %s and %s" % (op, aty, bty))
        if op in EQ:
            if aty == bty and aty in ("Int", "Bool", "Orient", "Polarity"):
                return "(%s %s %s)" % (at, EQ[op], bt), "Bool"
            raise f.err("`%s` on %s and %s" % (op, aty, bty))
        if op in LOGIC:
            if aty == bty == "Bool":
                return "(%s %s %s)" % (at, LOGIC[op], bt), "Bool"
            raise f.err("`%s` on %s and %s" % (op, aty, bty))
        raise f.err("binary operator `%s`" % op)
    if k == "UnaryOperator":
        op = n.get("opcode")
        t, ty = expr(kids(n)[0], f, rect_methods)
        if op == "!" and ty == "Bool":
            return "(!%s)" % t, "Bool"
        if op == "-" and ty == "Int":
            return "(-%s)" % t, "Int"
        raise f.err("unary operator `%s` on %s" % (op, ty))
    if k == "ConditionalOperator":
        c, a, b = kids(n)
        (ct, cty), (at, aty), (bt, bty) = (expr(x, f, rect_methods) for x in (c, a, b))
        if cty != "Bool" or aty != bty or aty == IDX:
            raise f.err("conditional operator on %s ? %s : %s" % (cty, aty, bty))
        return "(if %s then %s else %s)" % (ct, at, bt), aty
    if k == "CallExpr":
        ks = kids(n)
        callee = strip_callee(ks[0])
        ref = callee.get("referencedDecl", {})
        if callee.get("kind") == "DeclRefExpr" and ref.get("kind") == "CXXMethodDecl":
            return numeric_limit(callee, ks, f)
        if callee.get("kind") != "DeclRefExpr" or ref.get("kind") != "FunctionDecl":
            raise f.err("call through %s" % callee.get("kind"))
        name, sig = ref.get("name"), ref.get("type", {}).get("qualType", "")
        args = [expr(a, f, rect_methods) for a in ks[1:]]
        if name in ("max", "min"):
            # the two-argument std::max / std::min template on an integer type
            ok = [s for s in INT_RANK if sig == "const %s &(const %s &, const %s &)" % (s, s, s)]
            if not ok or len(args) != 2 or any(ty != "Int" for _, ty in args):
                raise f.err("call of %s with signature %s" % (name, sig))
            return "(%s %s %s)" % (name, args[0][0], args[1][0]), "Int"
        if name == "isTurn" and sig == "bool (coloquinte::CellOrientation)" and [ty for _, ty in args] == ["Orient"]:
            return "(isTurn %s)" % args[0][0], "Bool"
        raise f.err("call of the untranslated function `%s` (%s)" % (name, sig))
    if k == "CXXMemberCallExpr":
        ks = kids(n)
        callee = strip_callee(ks[0])
        if callee.get("kind") != "MemberExpr":
            raise f.err("member call through %s" % callee.get("kind"))
        (base,) = kids(callee)
        name = callee.get("name")
        args = [expr(a, f, rect_methods) for a in ks[1:]]
        if base.get("kind") == "MemberExpr" and kids(base)[0].get("kind") == "CXXThisExpr" and base.get("name") in f.containers:
            if name == "empty" and not args and ctype(n) == "bool":          # rows_.empty()
                return "%s.isEmpty" % f.containers[base["name"]][0], "Bool"
            raise f.err("call of `%s` on the container %s" % (name, base.get("name")))
        if base.get("kind") == "CXXThisExpr":
            key = (name, tuple(t for t, _ in args))
            if key not in f.this_calls:
                raise f.err("call this->%s(%s)" % (name, ", ".join(key[1])))
            return f.this_calls[key]
        bt, bty = expr(base, f, rect_methods)
        if bty == "Row" and name in rect_methods and not args:
            bt, bty = bt + ".rect", "Rect"     # a Rectangle method called on a Row (its base-class subobject)
        if bty == "Rect" and name in rect_methods and not args:
            return "(%s %s)" % (rect_methods[name][0], bt), rect_methods[name][1]
        raise f.err("call of `%s` on a %s" % (name, bty))
    if k == "CXXOperatorCallExpr":
        ks = kids(n)
        callee = strip_callee(ks[0])
        ref = callee.get("referencedDecl", {})
        if ref.get("name") != "operator[]" or len(ks) != 3 or "std::vector" not in ref.get("type", {}).get("qualType", ""):
            raise f.err("overloaded operator `%s`" % ref.get("name"))
        base = strip_index(ks[1])
        if base.get("kind") != "MemberExpr" or kids(base)[0].get("kind") != "CXXThisExpr":
            raise f.err("operator[] on something other than an array member of *this")
        lit = strip_index(ks[2])
        if base.get("name") in f.containers and lit.get("kind") == "IntegerLiteral":
            lst, ety = f.containers[base["name"]]            # rows_[0]: out of range is UB in C++, `default` here
            return "(%s.getD %s default)" % (lst, lit.get("value")), ety
        it, ity = expr(strip_index(ks[2]), f, rect_methods)
        if ity != IDX:
            raise f.err("%s[…] indexed by a computed %s" % (base.get("name"), ity))
        key = (base.get("name"), it)
        if key not in f.index:
            raise f.err("%s[%s] (not in the representation map)" % key)
        return f.index[key]
    if k in ("CXXTemporaryObjectExpr", "CXXConstructExpr"):
        ks = kids(n)
        if ctype(n) != "coloquinte::Rectangle":
            raise f.err("construction of a %s" % ctype(n))
        sig = n.get("ctorType", {}).get("qualType", "")
        if sig == "void (int, int, int, int)" and len(ks) == 4:
            args = [expr(a, f, rect_methods) for a in ks]
            if any(ty != "Int" for _, ty in args):
                raise f.err("Rectangle(…) from %s" % [ty for _, ty in args])
            return "(Rectangle_ctor %s)" % " ".join(t for t, _ in args), "Rect"
        if sig in ("void (const coloquinte::Rectangle &) noexcept", "void (coloquinte::Rectangle &&) noexcept") and len(ks) == 1:
            return expr(ks[0], f, rect_methods)          # implicit member-wise copy / move
        raise f.err("Rectangle constructor %s" % sig)
    raise f.err("expression %s" % k)


# ------------------------------------------------------------------ numeric_limits

LIMITS = {"max": ("numeric_limits_int_max", "_ZNSt14numeric_limitsIiE3maxEv"),
          "min": ("numeric_limits_int_min", "_ZNSt14numeric_limitsIiE3minEv")}


def spelled(n, f):
    """Source text of the expression n (it must lie in the function's own file, outside macros)."""
    b, e = n.get("range", {}).get("begin", {}), n.get("range", {}).get("end", {})
    if f.rel is None or "offset" not in b or "offset" not in e:
        raise f.err("an expression whose spelling cannot be read back (macro?)")
    return "".join(read(f.rel).encode()[b["offset"]:e["offset"] + e.get("tokLen", 1)].decode(errors="replace").split())


def numeric_limit(callee, ks, f):
    """`std::numeric_limits<int>::max()` / `min()`: a static member call with no argument.  The AST's
    reference names only `max` / `int () noexcept`, so the qualification is read from the spelling
    (it must be exactly `std::numeric_limits<int>::max`; generate() checks that no `coloquinte::std`
    exists and takes the VALUE from the body of the libstdc++ specialisation clang resolved)."""
    ref = callee.get("referencedDecl", {})
    name = ref.get("name")
    if name not in LIMITS or ref.get("type", {}).get("qualType") != "int () noexcept" or len(ks) != 1:
        raise f.err("call of the member function `%s` (%s)" % (name, ref.get("type", {}).get("qualType")))
    sp = spelled(callee, f)
    if sp != "std::numeric_limits<int>::" + name:
        raise f.err("call of `%s` (only std::numeric_limits<int>::max / min are constants I know)" % sp)
    f.uses_limits.add(name)
    return LIMITS[name][0], "Int"


def limits_definitions(ctx):
    """Lean constants for numeric_limits<int>::max()/min(), from the bodies of the specialisation."""
    out = []
    try:
        clang_ast(CPP, "coloquinte::std")
        raise TranslateError("a namespace / entity `coloquinte::std` exists: `std::numeric_limits` may not be the standard one")
    except TranslateError as e:
        if not str(e).startswith("no AST"):
            raise
    for name, (lean, mangled) in LIMITS.items():
        objs = clang_ast(CPP, "std::numeric_limits<int>::" + name)
        ds = [o for o in objs if o.get("kind") == "CXXMethodDecl" and o.get("name") == name and o.get("mangledName") == mangled]
        if len(ds) != 1 or ds[0].get("storageClass") != "static" or ds[0].get("type", {}).get("qualType") != "int () noexcept":
            raise TranslateError("std::numeric_limits<int>::%s: expected one static `int () noexcept`, found %d" % (name, len(ds)))
        body = [c for c in kids(ds[0]) if c.get("kind") == "CompoundStmt"]
        f = Fn(ctx, "std::numeric_limits<int>::" + name, lean)
        if len(body) != 1 or len(kids(body[0])) != 1 or kids(body[0])[0].get("kind") != "ReturnStmt":
            raise f.err("a body that is not a single return")
        t, ty = expr(kids(kids(body[0])[0])[0], f, {})
        if ty != "Int":
            raise f.err("a %s value" % ty)
        out.append("/-- `std::numeric_limits<int>::%s()` as libstdc++ defines it for this compiler -/\ndef %s : Int :=\n  %s\n" % (
            name, lean, t))
    return out


# ------------------------------------------------------------------ statements
#
# A statement list is compiled against a symbolic store (f.vars: variable -> Lean text of its current
# value) into a tree
#   ("ret", text, type) | ("throw",) | ("continue", store) | ("fall", store)        leaves
#   ("ite", cond, T, E) | ("bind", loop call, binder, T)                            inner nodes
# ("fall" = control reaches the end of the list).  A loop becomes two named definitions,
#   <fn>_step<k> <free binders> (a<k> : accumulators) (element) : accumulators
#   <fn>_loop<k> <free binders> : accumulators := List.foldl (<fn>_step<k> …) (initial values) container
# where the accumulators are the variables declared outside the loop and assigned inside it, in order
# of first assignment (a tuple; `Unit` if there is none).  If the body can `throw`, both work on
# `Option accumulators` (`none` = thrown) and what follows the loop sits under a `match`.

def assert_condition(s):
    """The text of `c` if s is glibc's expansion of `assert(c)`, else None."""
    n = s
    while n.get("kind") == "ParenExpr":
        n = kids(n)[0]
    if n.get("kind") != "ConditionalOperator" or ctype(n) != "void":
        return None
    ks = kids(n)
    call = ks[2]
    if call.get("kind") != "CallExpr":
        return None
    callee = strip_callee(kids(call)[0])
    if callee.get("referencedDecl", {}).get("name") != "__assert_fail":
        return None
    lit = strip_callee(kids(call)[1])
    while lit.get("kind") == "ImplicitCastExpr":
        lit = kids(lit)[0]
    return str(lit.get("value", "?")).strip('"')


def stmts_of(n):
    return kids(n) if n.get("kind") == "CompoundStmt" else [n]


VALUE_TYPES = ("Int", "Bool", "Orient", "Polarity", "Rect")


def graft(t, cont):
    """Replace every ("fall", store) leaf of t by cont(store)."""
    if t[0] == "fall":
        return cont(t[1])
    if t[0] == "ite":
        return ("ite", t[1], graft(t[2], cont), graft(t[3], cont))
    if t[0] == "bind":
        return ("bind", t[1], t[2], graft(t[3], cont))
    return t


def restrict(t, names):
    """Leaving a block: the variables declared inside it go out of scope."""
    if t[0] in ("fall", "continue"):
        return (t[0], {k: v for k, v in t[1].items() if k in names})
    if t[0] == "ite":
        return ("ite", t[1], restrict(t[2], names), restrict(t[3], names))
    if t[0] == "bind":
        return ("bind", t[1], t[2], restrict(t[3], names))
    return t


def leaves(t):
    if t[0] == "ite":
        yield from leaves(t[2])
        yield from leaves(t[3])
    elif t[0] == "bind":
        yield t
        yield from leaves(t[3])
    else:
        yield t


def compile_stmts(stmts, f, rm, depth=0):
    if not stmts:
        return ("fall", dict(f.vars))
    first = compile_stmt(stmts[0], f, rm, depth)

    def cont(store):
        f.vars = dict(store)
        return compile_stmts(stmts[1:], f, rm, depth)
    return graft(first, cont)


def local_target(n, f):
    while n.get("kind") == "ParenExpr":
        n = kids(n)[0]
    ref = n.get("referencedDecl", {})
    if n.get("kind") != "DeclRefExpr" or ref.get("kind") != "VarDecl" or ref.get("name") not in f.vars:
        raise f.err("assignment to something other than a local variable")
    name = ref["name"]
    if f.vars[name][1] not in VALUE_TYPES or LEAN_TY.get(ctype(n)) != f.vars[name][1]:
        raise f.err("assignment to `%s` (a %s)" % (name, f.vars[name][1]))
    return name


def compile_stmt(s, f, rm, depth):
    k = s.get("kind")
    if k in ("ExprWithCleanups",) and len(kids(s)) == 1:
        return compile_stmt(kids(s)[0], f, rm, depth)
    if k == "ReturnStmt":
        ks = kids(s)
        if len(ks) != 1:
            raise f.err("return without a value")
        if depth:
            raise f.err("return inside a loop")
        t, ty = expr(ks[0], f, rm)
        return ("ret", t, ty)
    if k == "CXXThrowExpr":
        return ("throw",)
    if k == "ContinueStmt":
        if not depth:
            raise f.err("continue outside a loop")
        return ("continue", dict(f.vars))
    if k == "CompoundStmt":
        outer = set(f.vars)
        return restrict(compile_stmts(kids(s), f, rm, depth), outer)
    if k == "NullStmt":
        return ("fall", dict(f.vars))
    if k == "DeclStmt":
        for d in kids(s):
            if d.get("kind") != "VarDecl" or len(kids(d)) != 1 or d.get("name") in f.vars:
                raise f.err("declaration `%s`" % d.get("name"))
            t, ty = expr(kids(d)[0], f, rm)
            want = LEAN_TY.get(ctype(d))
            if ty != IDX and want != ty:
                raise f.err("local `%s` of type %s initialised with a %s" % (d.get("name"), ctype(d), ty))
            f.vars[d["name"]] = (t, ty)
        return ("fall", dict(f.vars))
    if k == "BinaryOperator" and s.get("opcode") == "=":
        lhs, rhs = kids(s)
        name = local_target(lhs, f)
        t, ty = expr(rhs, f, rm)
        if ty != f.vars[name][1]:
            raise f.err("`%s = …` with a %s" % (name, ty))
        f.vars[name] = (t, ty)
        return ("fall", dict(f.vars))
    if k == "CompoundAssignOperator":
        lhs, rhs = kids(s)
        name = local_target(lhs, f)
        op = (s.get("opcode") or "")[:-1]
        lt = ctype(lhs)
        if op not in ARITH or f.vars[name][1] != "Int" or lt not in INT_RANK or \
                s.get("computeLHSType", {}).get("qualType") != lt or s.get("computeResultType", {}).get("qualType") != lt:
            raise f.err("`%s %s …` (computed in %s, stored in %s)" % (name, s.get("opcode"),
                                                                     s.get("computeLHSType", {}).get("qualType"), lt))
        t, ty = expr(rhs, f, rm)
        if ty != "Int":
            raise f.err("`%s %s` a %s" % (name, s.get("opcode"), ty))
        f.vars[name] = ("(%s %s %s)" % (f.vars[name][0], ARITH[op], t), "Int")
        return ("fall", dict(f.vars))
    if k == "IfStmt":
        ks = kids(s)
        if s.get("hasInit") or s.get("hasVar") or len(ks) not in (2, 3):
            raise f.err("if statement with an initialiser / declaration")
        ct, cty = expr(ks[0], f, rm)
        if cty != "Bool":
            raise f.err("if on a %s" % cty)
        saved = dict(f.vars)
        outer = set(saved)
        then_t = restrict(compile_stmts(stmts_of(ks[1]), f, rm, depth), outer)
        f.vars = dict(saved)
        else_t = restrict(compile_stmts(stmts_of(ks[2]), f, rm, depth), outer) if len(ks) == 3 else ("fall", dict(saved))
        f.vars = dict(saved)
        return ("ite", ct, then_t, else_t)
    if k in ("ForStmt", "CXXForRangeStmt"):
        return compile_loop(s, f, rm, depth)
    cond = assert_condition(s)
    if cond is not None:
        f.asserts.append(cond)
        return ("fall", dict(f.vars))
    raise f.err("statement %s" % k)


# ------------------------------------------------------------------ loops

def assigned_names(n, acc):
    """Names of the variables assigned anywhere below n, in order of first assignment."""
    k = n.get("kind")
    tgt = None
    if (k == "BinaryOperator" and n.get("opcode") == "=") or k == "CompoundAssignOperator":
        tgt = kids(n)[0]
    elif k == "UnaryOperator" and n.get("opcode") in ("++", "--"):
        tgt = kids(n)[0]
    if tgt is not None:
        while tgt.get("kind") == "ParenExpr":
            tgt = kids(tgt)[0]
        nm = tgt.get("referencedDecl", {}).get("name") if tgt.get("kind") == "DeclRefExpr" else None
        if nm is not None and nm not in acc:
            acc.append(nm)
    for c in kids(n):
        assigned_names(c, acc)
    return acc


def proj(b, i, n):
    if n == 1:
        return b
    return b + ".2" * i + (".1" if i < n - 1 else "")


def loop_header(s, f, rm):
    """(lean list, element binder, element type, body, bind(f)) of a loop over a whole container."""
    ks = kids(s)
    if s.get("kind") == "CXXForRangeStmt":
        if len(ks) != 7:
            raise f.err("range-for with an init statement")
        rng, var, body = ks[0], ks[5], ks[6]
        rd = kids(rng)[0] if kids(rng) else {}
        src = kids(rd)[0] if kids(rd) else {}
        while src.get("kind") in TRANSPARENT or src.get("kind") == "ImplicitCastExpr":
            src = kids(src)[0]
        if src.get("kind") != "MemberExpr" or kids(src)[0].get("kind") != "CXXThisExpr" or src.get("name") not in f.containers:
            raise f.err("range-for over something other than a known container member")
        lst, ety = f.containers[src["name"]]
        vd = kids(var)[0]
        vname, vty = vd.get("name"), ctype(vd)
        if vname in f.vars:
            raise f.err("loop variable `%s` shadows a variable" % vname)
        binder = vname + "_"
        # the element as the loop variable sees it: `Rectangle row : rows_` copies the base-class subobject
        if (ety, vty) == ("Row", "coloquinte::Rectangle"):
            val = (binder + ".rect", "Rect")
        elif (ety, vty) == ("Row", "coloquinte::Row"):
            val = (binder, "Row")
        else:
            raise f.err("range-for variable of type %s over a list of %s" % (vty, ety))
        init = kids(vd)[0] if kids(vd) else {}
        seen = [x.get("kind") for x in _walk(init)]
        if any(x in seen for x in ("CallExpr", "CXXMemberCallExpr", "BinaryOperator")) or seen.count("CXXOperatorCallExpr") != 1:
            raise f.err("range-for variable initialised by something other than a copy of / reference to *it")

        def bind(f):
            f.vars[vname] = val
        return lst, binder, ety, body, bind
    # for (int v = 0; v < bound(...); ++v)
    if len(ks) != 4:
        raise f.err("for statement with a missing / extra clause")
    init, cond, inc, body = ks
    vd = kids(init)[0] if init.get("kind") == "DeclStmt" and len(kids(init)) == 1 else {}
    v = vd.get("name")
    z = kids(vd)[0] if kids(vd) else {}
    if vd.get("kind") != "VarDecl" or ctype(vd) != "int" or z.get("kind") != "IntegerLiteral" or z.get("value") != "0" or v in f.vars:
        raise f.err("for loop that does not start with `int v = 0`")

    def is_v(n):
        while n.get("kind") in TRANSPARENT or n.get("kind") == "ImplicitCastExpr":
            n = kids(n)[0]
        return n.get("kind") == "DeclRefExpr" and n.get("referencedDecl", {}).get("name") == v
    if inc.get("kind") != "UnaryOperator" or inc.get("opcode") != "++" or not is_v(kids(inc)[0]):
        raise f.err("for loop whose step is not `++%s`" % v)
    if cond.get("kind") != "BinaryOperator" or cond.get("opcode") != "<" or not is_v(kids(cond)[0]):
        raise f.err("for loop whose condition is not `%s < bound`" % v)
    bound = kids(cond)[1]
    while bound.get("kind") in TRANSPARENT or bound.get("kind") == "ImplicitCastExpr":
        bound = kids(bound)[0]
    if bound.get("kind") != "CXXMemberCallExpr":
        raise f.err("for loop bound that is not a size accessor of *this")
    callee = strip_callee(kids(bound)[0])
    if callee.get("kind") != "MemberExpr" or kids(callee)[0].get("kind") != "CXXThisExpr":
        raise f.err("for loop bound that is not a size accessor of *this")
    key = (callee.get("name"), tuple(expr(a, f, rm)[0] for a in kids(bound)[1:]))
    if key not in f.index_loops:
        raise f.err("for loop up to %s(%s) (not a container size in the representation map)" % (key[0], ", ".join(key[1])))
    lst, binder, ety, setup = f.index_loops[key]
    if v in assigned_names(body, []):
        raise f.err("loop counter `%s` modified in the body" % v)

    def bind(f):
        f.vars[v] = (v, IDX)
        setup(f, v)
    return lst, binder, ety, body, bind


def _walk(n):
    yield n
    for c in kids(n):
        yield from _walk(c)


def used(binders, *texts):
    import re
    return [(b, t) for b, t in binders if any(re.search(r"(?<![\w.])%s(?![\w])" % re.escape(b), x) for x in texts)]


def emit_body(t, ind, acc, opt, f):
    pad = "  " * ind
    if t[0] in ("fall", "continue"):
        vals = [t[1][a][0] for a in acc]
        tup = "()" if not vals else (vals[0] if len(vals) == 1 else "(" + ", ".join(vals) + ")")
        return pad + ("(some %s)" % tup if opt else tup)
    if t[0] == "throw":
        return pad + "none"
    if t[0] == "ite":
        return "%sif %s then\n%s\n%selse\n%s" % (pad, t[1], emit_body(t[2], ind + 1, acc, opt, f), pad,
                                                 emit_body(t[3], ind + 1, acc, opt, f))
    raise f.err("a throwing loop / return inside a loop body")


def compile_loop(s, f, rm, depth):
    saved = (dict(f.vars), dict(f.this_calls), dict(f.index), dict(f.index_loops), list(f.scope))
    lst, binder, ety, body, bind = loop_header(s, f, rm)
    f.nloops += 1
    k = f.nloops
    acc = [a for a in assigned_names(body, []) if a in saved[0]]
    for a in acc:
        if saved[0][a][1] not in VALUE_TYPES:
            raise f.err("loop modifies `%s` (a %s)" % (a, saved[0][a][1]))
    tys = [saved[0][a][1] for a in acc]
    tupty = "Unit" if not acc else " × ".join(tys)
    init = [saved[0][a][0] for a in acc]
    ab = "a%d" % k
    if any(b == binder for b, _ in f.params + f.scope):
        raise f.err("nested loops over the same kind of element (`%s`)" % binder)
    for i, a in enumerate(acc):
        f.vars[a] = (proj(ab, i, len(acc)), tys[i])
    bind(f)
    inner_scope = f.params + f.scope
    f.scope = f.scope + [(ab, tupty), (binder, ety)]
    tree = restrict(compile_stmts(stmts_of(body), f, rm, depth + 1), set(saved[0]))
    kinds = set(x[0] for x in leaves(tree))
    if "bind" in kinds or "ret" in kinds:
        raise f.err("a throwing loop / return inside a loop body")
    opt = "throw" in kinds
    if opt and depth:
        raise f.err("throw inside a nested loop")
    f.vars, f.this_calls, f.index, f.index_loops, f.scope = saved
    body_src = emit_body(tree, 2 if opt else 1, acc, opt, f)
    inits = "()" if not acc else (init[0] if len(acc) == 1 else "(" + ", ".join(init) + ")")
    free_step = used(inner_scope, body_src)
    free_loop = used(inner_scope, body_src, inits, lst)
    step, loop = "%s_step%d" % (f.lean_name, k), "%s_loop%d" % (f.lean_name, k)
    sig = lambda bs: "".join(" (%s : %s)" % b for b in bs)   # noqa: E731
    args = lambda bs: "".join(" " + b for b, _ in bs)         # noqa: E731
    sty = "Option (%s)" % tupty if opt else tupty
    if opt:
        f.aux.append("/-- body of loop %d of `%s` (`none` = an exception was thrown) -/\ndef %s%s (st : %s) (%s : %s) : %s :=\n"
                     "  match st with\n  | none => none\n  | some %s =>\n%s\n" % (
                         k, f.cname, step, sig(free_step), sty, binder, ety, sty, ab if acc else "_", body_src))
    else:
        f.aux.append("/-- body of loop %d of `%s` -/\ndef %s%s (%s : %s) (%s : %s) : %s :=\n%s\n" % (
            k, f.cname, step, sig(free_step), ab if acc else "_", tupty, binder, ety, sty, body_src))
    f.aux.append("/-- loop %d of `%s`: over `%s`, accumulating (%s) -/\ndef %s%s : %s :=\n  List.foldl (%s%s) %s %s\n" % (
        k, f.cname, lst, ", ".join(acc) or "nothing", loop, sig(free_loop), sty, step, args(free_step),
        "(some %s)" % inits if opt else inits, lst))
    call = "(%s%s)" % (loop, args(free_loop)) if free_loop else loop
    res = "r%d" % k if opt else call
    for i, a in enumerate(acc):
        f.vars[a] = (proj(res, i, len(acc)), tys[i])
    if opt:
        return ("bind", call, res if acc else "_", ("fall", dict(f.vars)))
    return ("fall", dict(f.vars))


# ------------------------------------------------------------------ finishing a function

def tree_type(t, f):
    if t[0] == "fall":
        raise f.err("a path that falls off the end without returning")
    if t[0] == "continue":
        raise f.err("continue outside a loop")
    if t[0] == "throw":
        return None
    if t[0] == "ret":
        return t[2]
    if t[0] == "bind":
        return tree_type(t[3], f)
    a, b = tree_type(t[2], f), tree_type(t[3], f)
    if a is not None and b is not None and a != b:
        raise f.err("returns of different types %s / %s" % (a, b))
    return a if a is not None else b


def throws(t):
    return any(x[0] in ("throw", "bind") for x in leaves(t))


def emit(t, ind, opt=False):
    pad = "  " * ind
    if t[0] == "ret":
        return pad + ("(some %s)" % t[1] if opt else t[1])
    if t[0] == "throw":
        return pad + "none"
    if t[0] == "bind":
        return "%smatch %s with\n%s| none => none\n%s| some %s =>\n%s" % (pad, t[1], pad, pad, t[2], emit(t[3], ind + 2, opt))
    return "%sif %s then\n%s\n%selse\n%s" % (pad, t[1], emit(t[2], ind + 1, opt), pad, emit(t[3], ind + 1, opt))


# ------------------------------------------------------------------ locating definitions

def definition(rel, filt, name, mangled_part, want_kind="CXXMethodDecl", sig=None):
    """(decl, body, location, source text) of the unique definition of `name`."""
    objs = clang_ast(rel, filt)
    found = []
    for o in objs:
        if o.get("kind") != want_kind or o.get("name") != name or o.get("isImplicit"):
            continue
        if mangled_part not in o.get("mangledName", ""):
            continue
        if sig is not None and o.get("type", {}).get("qualType") != sig:
            continue
        body = [c for c in kids(o) if c.get("kind") == "CompoundStmt"]
        if body:
            found.append((o, body[0]))
    if len(found) != 1:
        raise TranslateError("expected exactly one definition of %s in %s, found %d" % (filt, rel, len(found)))
    decl, body = found[0]
    loc, rng = decl.get("loc", {}), decl.get("range", {})
    b, e = rng.get("begin", {}).get("offset"), rng.get("end", {})
    if b is None or e.get("offset") is None or "line" not in loc:
        raise TranslateError("%s: clang gave no source range" % filt)
    fname = loc.get("file") or os.path.join(os.environ.get("VERIF_REPO", "/repo"), rel)
    if not fname.endswith(rel):
        raise TranslateError("%s is defined in %s, expected %s" % (filt, fname, rel))
    text = read(rel).encode()[b:e["offset"] + e.get("tokLen", 1)].decode(errors="replace")
    if name not in text or not text.rstrip().endswith("}"):
        raise TranslateError("%s: the source range reported by clang is not its definition: %r" % (filt, text[:80]))
    return decl, body, "%s:%d" % (rel, loc["line"]), text


def params_of(decl):
    return [(p.get("name"), ctype(p)) for p in kids(decl) if p.get("kind") == "ParmVarDecl"]


def ret_of(decl):
    return decl.get("type", {}).get("qualType", "").split("(")[0].strip()


class Out:
    def __init__(self):
        self.lean, self.table = [], []   # table rows: (lean name, C++ name, location, digest)

    def add(self, lean_name, cname, loc, text, src):
        self.table.append((lean_name, cname, loc, digest(text)))
        self.lean.append(src)


def doc(cname, loc, f, extra=""):
    pre = "".join("; precondition `assert(%s)`" % a for a in f.asserts) if f else ""
    return "/-- `%s` (%s)%s%s -/" % (cname, loc, extra, pre)


# ------------------------------------------------------------------ Rectangle

def rectangle_record(ctx):
    objs = clang_ast(HPP, "coloquinte::Rectangle")
    recs = [o for o in objs if o.get("kind") == "CXXRecordDecl" and o.get("name") == "Rectangle"
            and o.get("completeDefinition")]
    if len(recs) != 1:
        raise TranslateError("expected one definition of struct Rectangle, found %d" % len(recs))
    fields = [(c.get("name"), ctype(c)) for c in kids(recs[0]) if c.get("kind") == "FieldDecl"]
    if fields != [(n, "int") for n in RECT_FIELDS]:
        raise TranslateError("struct Rectangle no longer has exactly the int fields %s: %r" % (RECT_FIELDS, fields))
    if recs[0].get("bases"):
        raise TranslateError("struct Rectangle acquired a base class")


def rectangle_ctor(ctx, out, sig, lean_name):
    cname = "Rectangle::Rectangle" + sig[len("void "):]
    decl, body, loc, text = definition(HPP, "coloquinte::Rectangle::Rectangle", "Rectangle", "10coloquinte9Rectangle",
                                       "CXXConstructorDecl", sig)
    f = Fn(ctx, cname, lean_name)
    params = params_of(decl)
    for n, t in params:
        if t != "int":
            raise f.err("parameter %s : %s" % (n, t))
        f.vars[n] = (n + "_", "Int")
    if kids(body):
        raise f.err("a constructor body that is not empty")
    inits = {}
    for c in kids(decl):
        if c.get("kind") != "CXXCtorInitializer":
            continue
        fld = c.get("anyInit", {}).get("name")
        if fld not in RECT_FIELDS or fld in inits or len(kids(c)) != 1:
            raise f.err("member initialiser for `%s`" % fld)
        t, ty = expr(kids(c)[0], f, {})
        if ty != "Int":
            raise f.err("member `%s` initialised with a %s" % (fld, ty))
        inits[fld] = t
    if sorted(inits) != sorted(RECT_FIELDS):
        raise f.err("constructor leaves %s uninitialised" % sorted(set(RECT_FIELDS) - set(inits)))
    sigl = "".join(" (%s_ : Int)" % n for n, _ in params)
    out.add(lean_name, cname, loc, text, "%s\ndef %s%s : Rect :=\n  { %s }\n" % (
        doc(cname, loc, f), lean_name, sigl, ", ".join("%s := %s" % (k, inits[k]) for k in RECT_FIELDS)))


def rectangle_method(ctx, out, name, rect_methods):
    cname, lean_name = "Rectangle::" + name, "Rectangle_" + name
    decl, body, loc, text = definition(HPP, "coloquinte::Rectangle::" + name, name, "10coloquinte9Rectangle")
    f = Fn(ctx, cname, lean_name)
    static = decl.get("storageClass") == "static"
    sig = []
    if not static:
        sig.append("(self : Rect)")
        f.this_fields = {n: ("self." + n, "Int") for n in RECT_FIELDS}
        f.this_calls = {(m, ()): ("(%s self)" % ln, ty) for m, (ln, ty) in rect_methods.items()}
    for n, t in params_of(decl):
        if t not in ("int", "long long", "coloquinte::Rectangle"):
            raise f.err("parameter %s : %s" % (n, t))
        f.vars[n] = (n + "_", LEAN_TY[t])
        sig.append("(%s_ : %s)" % (n, LEAN_TY[t]))
    tree = compile_stmts(kids(body), f, rect_methods)
    ty = tree_type(tree, f)
    if LEAN_TY.get(ret_of(decl)) != ty:
        raise f.err("return type %s but the body yields %s" % (ret_of(decl), ty))
    out.add(lean_name, cname, loc, text, "%s\ndef %s %s : %s :=\n%s\n" % (
        doc(cname, loc, f, " (static)" if static else ""), lean_name, " ".join(sig), ty, emit(tree, 1)))
    rect_methods[name] = (lean_name, ty)


# ------------------------------------------------------------------ Circuit

def cell_env(f, cell_methods, var="cell"):
    f.vars[var] = (var, IDX)
    for arr, (fld, ty) in CELL_ARRAYS.items():
        f.index[(arr, var)] = ("cl." + fld, ty)
    for m, (ln, ty) in cell_methods.items():
        f.this_calls[(m, (var,))] = ("(%s cl)" % ln, ty)


def circuit_cell_method(ctx, out, rel, name, cell_methods, rect_methods):
    cname, lean_name = "Circuit::" + name, "Circuit_" + name
    decl, body, loc, text = definition(rel, "coloquinte::Circuit::" + name, name, "10coloquinte7Circuit")
    f = Fn(ctx, cname, lean_name)
    if params_of(decl) != [("cell", "int")]:
        raise f.err("signature %s (expected one `int cell`)" % decl.get("type", {}).get("qualType"))
    cell_env(f, cell_methods)
    tree = compile_stmts(kids(body), f, rect_methods)
    ty = tree_type(tree, f)
    if LEAN_TY.get(ret_of(decl)) != ty:
        raise f.err("return type %s but the body yields %s" % (ret_of(decl), ty))
    out.add(lean_name, cname, loc, text, "%s\ndef %s (cl : Cell) : %s :=\n%s\n" % (
        doc(cname, loc, f, " for the cell `cl`"), lean_name, ty, emit(tree, 1)))
    cell_methods[name] = (lean_name, ty)


def pin_env(f):
    f.vars["net"] = ("net", IDX)
    f.vars["i"] = ("i", IDX)
    f.index[("netLimits_", "net")] = ("netLimits_net", IDX)
    for arr, (fld, ty) in PIN_ARRAYS.items():
        f.index[(arr, "(netLimits_net + i)")] = ("p." + fld, ty)
    f.index[("pinCells_", "(netLimits_net + i)")] = ("cell", IDX)


def circuit_pin_cell(ctx, out):
    """`pinCell(net, i)` must be `pinCells_[netLimits_[net] + i]`: the pin's record names its cell."""
    cname = "Circuit::pinCell"
    decl, body, loc, text = definition(HPP, "coloquinte::Circuit::pinCell", "pinCell", "10coloquinte7Circuit")
    f = Fn(ctx, cname, None)
    if params_of(decl) != [("net", "int"), ("i", "int")]:
        raise f.err("signature %s" % decl.get("type", {}).get("qualType"))
    pin_env(f)
    tree = compile_stmts(kids(body), f, {})
    if tree != ("ret", "cell", IDX):
        raise f.err("a body that is not `return pinCells_[netLimits_[net] + i];`")
    out.table.append(("(shape check only)", cname, loc, digest(text)))


def circuit_pin_method(ctx, out, name, cell_methods, rect_methods, pin_methods):
    cname, lean_name = "Circuit::" + name, "Circuit_" + name
    decl, body, loc, text = definition(CPP, "coloquinte::Circuit::" + name, name, "10coloquinte7Circuit")
    f = Fn(ctx, cname, lean_name)
    if params_of(decl) != [("net", "int"), ("i", "int")]:
        raise f.err("signature %s (expected `int net, int i`)" % decl.get("type", {}).get("qualType"))
    pin_env(f)
    f.this_calls[("pinCell", ("net", "i"))] = ("cell", IDX)
    # the local `int cell = pinCell(net, i);` names the pin's cell: per-cell tables apply to it
    for arr, (fld, ty) in CELL_ARRAYS.items():
        f.index[(arr, "cell")] = ("cl." + fld, ty)
    for m, (ln, ty) in cell_methods.items():
        f.this_calls[(m, ("cell",))] = ("(%s cl)" % ln, ty)
    tree = compile_stmts(kids(body), f, rect_methods)
    ty = tree_type(tree, f)
    if LEAN_TY.get(ret_of(decl)) != ty:
        raise f.err("return type %s but the body yields %s" % (ret_of(decl), ty))
    out.add(lean_name, cname, loc, text, "%s\ndef %s (cl : Cell) (p : Pin) : %s :=\n%s\n" % (
        doc(cname, loc, f, " for the pin `p` sitting on the cell `cl`"), lean_name, ty, emit(tree, 1)))
    pin_methods[name] = (lean_name, ty)


# ------------------------------------------------------------------ Circuit: whole-circuit members (loops)
# Representation map, continued: `rows_` is the list `c.rows` (a `Row` is its Rectangle base `.rect` plus the
# orientation); the CSR arrays netLimits_/pinCells_/pin?Offsets_ are the list `c.nets` of `Net` records with their
# lists `.pins` of `Pin` records, so nbRows() / nbNets() / nbPinsNet(net) are the lengths of those lists, a counter
# running from 0 to one of them visits the list's elements in order, and pinCell(net, pin) is the record
# `c.cell p.cell` (the model's total lookup; the C++ validates pin cells when nets are added).

def circuit_env(f, cell_methods, pin_methods):
    f.params = [("c", "Circuit")]
    f.containers = {"rows_": ("c.rows", "Row")}
    f.this_calls[("nbRows", ())] = ("((c.rows.length : Nat) : Int)", "Int")
    f.this_calls[("nbNets", ())] = ("((c.nets.length : Nat) : Int)", "Int")

    def setup_net(f, net):
        f.this_calls[("nbPinsNet", (net,))] = ("((n.pins.length : Nat) : Int)", "Int")

        def setup_pin(f, pin):
            tok = "pinCell(%s,%s)" % (net, pin)
            f.this_calls[("pinCell", (net, pin))] = (tok, IDX)
            for arr, (fld, ty) in CELL_ARRAYS.items():
                f.index[(arr, tok)] = ("(c.cell p.cell).%s" % fld, ty)
            for m, (ln, ty) in cell_methods.items():
                f.this_calls[(m, (tok,))] = ("(%s (c.cell p.cell))" % ln, ty)
            for m, (ln, ty) in pin_methods.items():
                f.this_calls[(m, (net, pin))] = ("(%s (c.cell p.cell) p)" % ln, ty)
        f.index_loops[("nbPinsNet", (net,))] = ("n.pins", "p", "Pin", setup_pin)
    f.index_loops[("nbNets", ())] = ("c.nets", "n", "Net", setup_net)


def circuit_whole_method(ctx, out, name, cell_methods, pin_methods, rect_methods):
    cname, lean_name = "Circuit::" + name, "Circuit_" + name
    decl, body, loc, text = definition(CPP, "coloquinte::Circuit::" + name, name, "10coloquinte7Circuit")
    f = Fn(ctx, cname, lean_name)
    f.rel = CPP
    if params_of(decl):
        raise f.err("signature %s (expected no parameter)" % decl.get("type", {}).get("qualType"))
    circuit_env(f, cell_methods, pin_methods)
    tree = compile_stmts(kids(body), f, rect_methods)
    ty = tree_type(tree, f)
    if ty is None or LEAN_TY.get(ret_of(decl)) != ty:
        raise f.err("return type %s but the body yields %s" % (ret_of(decl), ty))
    opt = throws(tree)
    out.add(lean_name, cname, loc, text, "%s%s\ndef %s (c : Circuit) : %s :=\n%s\n" % (
        "".join(a + "\n" for a in f.aux), doc(cname, loc, f, " of the circuit `c`" + ("; `none` = throws" if opt else "")),
        lean_name, "Option %s" % ty if opt else ty, emit(tree, 1, opt)))
    return f.uses_limits


# ------------------------------------------------------------------ driver

RECT_METHODS = ["width", "height", "area", "intersects", "contains", "intersection"]
CELL_METHODS = [(HPP, "x"), (HPP, "y"), (HPP, "orientation"), (HPP, "isFixed"), (HPP, "isObstruction"),
                (HPP, "area"), (CPP, "placedWidth"), (CPP, "placedHeight"), (HPP, "placement")]
PIN_METHODS = ["pinXOffset", "pinYOffset"]
WHOLE_METHODS = ["computePlacementArea", "rowHeight", "hpwl"]


def prefetch():
    """Warm clang_ast's results in parallel (each call is an independent clang process)."""
    jobs = [(HPP, "coloquinte::Rectangle"), (HPP, "coloquinte::Rectangle::Rectangle"), (HPP, "coloquinte::Circuit::pinCell")]
    jobs += [(HPP, "coloquinte::Rectangle::" + m) for m in RECT_METHODS]
    jobs += [(rel, "coloquinte::Circuit::" + m) for rel, m in CELL_METHODS]
    jobs += [(CPP, "coloquinte::Circuit::" + m) for m in PIN_METHODS + WHOLE_METHODS]
    jobs += [(CPP, "coloquinte::std"), (CPP, "std::numeric_limits<int>::max"), (CPP, "std::numeric_limits<int>::min")]
    cache = {}

    def one(j):
        try:
            return j, _raw_clang_ast(*j)
        except TranslateError as e:
            return j, e
    with ThreadPoolExecutor(8) as ex:
        for j, r in ex.map(one, jobs):
            cache[j] = r
    return cache


_raw_clang_ast = clang_ast
_cache = {}


def clang_ast(rel, filt):  # noqa: F811  (memoised front of translate.clang_ast)
    r = _cache.get((rel, filt))
    if r is None:
        r = _raw_clang_ast(rel, filt)
    if isinstance(r, Exception):
        raise r
    return r


def generate():
    global _cache
    with ThreadPoolExecutor(1) as side:     # the enum tables / isTurn need three more clang runs: overlap them
        fut = side.submit(lambda: (lambda c: (c, free_function(c, PARAMS, "isTurn", set())))(Ctx()))
        _cache = prefetch()
        ctx, (is_partial, isturn_src) = fut.result()
    try:
        out = Out()
        rectangle_record(ctx)
        rectangle_ctor(ctx, out, "void ()", "Rectangle_ctor0")
        rectangle_ctor(ctx, out, "void (int, int, int, int)", "Rectangle_ctor")
        rect_methods = {}
        for m in RECT_METHODS:
            rectangle_method(ctx, out, m, rect_methods)
        if is_partial:
            raise TranslateError("isTurn: does not return on every path")
        out.add("isTurn", "isTurn", PARAMS, read(PARAMS), isturn_src)
        cell_methods = {}
        for rel, m in CELL_METHODS:
            circuit_cell_method(ctx, out, rel, m, cell_methods, rect_methods)
        circuit_pin_cell(ctx, out)
        pin_methods = {}
        for m in PIN_METHODS:
            circuit_pin_method(ctx, out, m, cell_methods, rect_methods, pin_methods)
        for src in limits_definitions(ctx):
            out.lean.append(src)
        for m in WHOLE_METHODS:
            circuit_whole_method(ctx, out, m, cell_methods, pin_methods, rect_methods)
    finally:
        _cache = {}
    head = ("import ColoVerif.Model.Circuit\n/-\nThe shared geometry layer regenerated from the C++ function bodies (tie T).\n"
            "Representation map: per-cell arrays `cellX_[cell]`, … are the fields of the `Cell` record `cl`;\n"
            "the pin arrays at `netLimits_[net] + i` are the fields of the `Pin` record `p`; C++ int / long long are `Int`.\n\n"
            "  Lean definition | C++ function | definition at | digest of its source text\n%s\n-/\n"
            "namespace ColoVerif.Gen.Geom\nopen ColoVerif\n" % "\n".join(
                "  %s | %s | %s | %s" % row for row in out.table))
    info = {"functions": [{"lean": a, "cxx": b, "at": c, "digest": d} for a, b, c, d in out.table]}
    return {"info": info, "GeomFns.lean": head + "\n" + "\n".join(out.lean) + "\nend ColoVerif.Gen.Geom\n"}


if __name__ == "__main__":
    print(generate()["GeomFns.lean"])
