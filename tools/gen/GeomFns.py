"""Translator piece (tie T) for the shared geometry layer.

Regenerates `lean/ColoVerif/Gen/GeomFns.lean` (namespace ColoVerif.Gen.Geom) from the
clang-14 JSON AST of the BODIES of the small pure functions every property's model leans on:

  Rectangle::Rectangle() / Rectangle(int,int,int,int), width, height, area, intersects,
  contains, intersection                                        (src/coloquinte.hpp)
  Circuit::x, y, orientation, isFixed, isObstruction, area, placement, pinCell (shape check)
                                                                (src/coloquinte.hpp)
  Circuit::placedWidth, placedHeight, pinXOffset, pinYOffset    (src/coloquinte.cpp)
  isTurn                                                        (src/parameters.cpp, through
                                                                 gen.OrientTables' compiler)

`Proofs/GeomTie.lean` proves each generated definition equal to the hand-written one in
Model/Geom.lean / Model/Circuit.lean (`gen_<fn>_eq_model`), so a change of any of these bodies
that changes their meaning stops `Properties/C09.lean` / `C15.lean` from compiling.

This is a small compiler for exactly the constructs these bodies use today:
  statements : `return e;`  `T v = e;` (never reassigned: there is no assignment statement)
               `if (c) … [else …]` chains ending in returns, `assert(c);`
  expressions: parameters/locals, fields of a Rectangle (`o.minX`, implicit `this->minX`),
               + - * and unary - on int / long long (C++ integers are Lean `Int`), < <= > >= == !=,
               && || !, ?:, std::max / std::min, *widening* integer casts, calls of other
               translated functions, `Rectangle(a, b, c, d)`, `vec_[index]` on the Circuit's
               arrays through the representation map below.
Anything else raises TranslateError naming the function and the construct — never a default.

Representation map (stated here, not derived): the C++ Circuit is a struct of arrays indexed by
the cell, the model a list of `Cell` records, so inside a per-cell method `cellX_[cell]` is the
field `cl.x` (…) of the cell `cl` the method is about; inside a per-pin method the pin
`(net, i)` is the record `p : Pin` (`pinXOffsets_[netLimits_[net] + i]` is `p.xo`, …) and
`pinCell(net, i)` is the cell `cl` the pin sits on.  Every array the bodies may index is in
CELL_ARRAYS / PIN_ARRAYS; an index expression outside these tables is a TranslateError.
`assert(c)` is a precondition of the C++ function (out-of-range index); it is recorded in the
generated docstring and does not contribute to the value.
"""
import os
import sys
from concurrent.futures import ThreadPoolExecutor

sys.path.insert(0, os.path.dirname(os.path.dirname(os.path.abspath(__file__))))
from translate import TranslateError, clang_ast, read, digest  # noqa: E402
from gen.OrientTables import Ctx, free_function, PARAMS  # noqa: E402

HPP = "src/coloquinte.hpp"
CPP = "src/coloquinte.cpp"

RECT_FIELDS = ["minX", "maxX", "minY", "maxY"]           # fields of Model.Rect, in its order
INT_RANK = {"int": 32, "long long": 64}
LEAN_TY = {"int": "Int", "long long": "Int", "bool": "Bool", "coloquinte::Rectangle": "Rect",
           "coloquinte::CellOrientation": "Orient", "coloquinte::CellRowPolarity": "Polarity"}
# Circuit array member -> (field of the model's Cell record, Lean type)
CELL_ARRAYS = {"cellX_": ("x", "Int"), "cellY_": ("y", "Int"), "cellWidth_": ("w", "Int"),
               "cellHeight_": ("h", "Int"), "cellOrientation_": ("orient", "Orient"),
               "cellIsFixed_": ("fixed", "Bool"), "cellIsObstruction_": ("obstruction", "Bool"),
               "cellRowPolarity_": ("pol", "Polarity")}
PIN_ARRAYS = {"pinXOffsets_": ("xo", "Int"), "pinYOffsets_": ("yo", "Int")}
IDX = "Idx"   # type of a symbolic index (cell number, net number, pin number): never a value


def kids(n):
    return [c for c in (n.get("inner") or []) if isinstance(c, dict) and not c.get("kind", "").endswith("Comment")]


def ctype(n):
    t = n.get("type", {})
    q = t.get("desugaredQualType") or t.get("qualType") or ""
    q = q.replace("const ", "").strip()
    while q.endswith("&"):
        q = q[:-1].strip()
    return q


class Fn:
    """One function being translated: names in scope and the tables for `this`."""

    def __init__(self, ctx, cname, lean_name):
        self.ctx, self.cname, self.lean_name = ctx, cname, lean_name
        self.vars = {}         # C++ variable -> (lean text, type)
        self.this_fields = {}  # implicit this->field -> (lean text, type)      (Rectangle methods)
        self.this_calls = {}   # (method, (arg texts)) -> (lean text, type)     (calls on `this`)
        self.index = {}        # (array member, index text) -> (lean text, type)
        self.asserts = []

    def err(self, what):
        return TranslateError("%s: unsupported construct: %s" % (self.cname, what))


# ------------------------------------------------------------------ expressions

ARITH = {"+": "+", "-": "-", "*": "*"}
CMP = {"<": "<", "<=": "≤", ">": ">", ">=": "≥"}
EQ = {"==": "==", "!=": "!="}
LOGIC = {"&&": "&&", "||": "||"}
TRANSPARENT = ("ParenExpr", "ConstantExpr", "ExprWithCleanups", "MaterializeTemporaryExpr")


def strip_index(n):
    """An index expression: value-preserving conversions to size_type are dropped."""
    while n.get("kind") in TRANSPARENT or (n.get("kind") == "ImplicitCastExpr" and
                                           n.get("castKind") in ("IntegralCast", "LValueToRValue", "NoOp")):
        n = kids(n)[0]
    return n


def strip_callee(n):
    while n.get("kind") in TRANSPARENT or (n.get("kind") == "ImplicitCastExpr" and
                                           n.get("castKind") in ("FunctionToPointerDecay", "NoOp")):
        n = kids(n)[0]
    return n


def expr(n, f, rect_methods):
    """(lean text, type) of a C++ expression."""
    k = n.get("kind")
    if k in TRANSPARENT:
        ks = kids(n)
        if len(ks) != 1:
            raise f.err("%s with %d children" % (k, len(ks)))
        return expr(ks[0], f, rect_methods)
    if k == "ImplicitCastExpr":
        ck = n.get("castKind")
        (c,) = kids(n)
        if ck in ("LValueToRValue", "NoOp"):
            return expr(c, f, rect_methods)
        if ck == "IntegralCast":
            src, dst = ctype(c), ctype(n)
            if src in INT_RANK and dst in INT_RANK and INT_RANK[src] <= INT_RANK[dst]:
                return expr(c, f, rect_methods)      # widening: value-preserving
            raise f.err("integer conversion %s -> %s (only widening int -> long long is the identity)" % (src, dst))
        raise f.err("implicit cast %s" % ck)
    if k in ("CStyleCastExpr", "CXXStaticCastExpr", "CXXFunctionalCastExpr"):
        (c,) = kids(n)
        dst = ctype(n)
        if n.get("castKind") != "NoOp" or dst not in INT_RANK:
            raise f.err("explicit cast (%s) to %s" % (n.get("castKind"), dst))
        t, ty = expr(c, f, rect_methods)               # the conversion itself is the ImplicitCastExpr below it
        if ty != "Int":
            raise f.err("cast of a %s to %s" % (ty, dst))
        return t, ty
    if k == "IntegerLiteral":
        if ctype(n) not in INT_RANK:
            raise f.err("integer literal of type %s" % ctype(n))
        return "(%s : Int)" % n.get("value"), "Int"
    if k == "CXXBoolLiteralExpr":
        return ("true" if n.get("value") else "false"), "Bool"
    if k == "DeclRefExpr":
        ref = n.get("referencedDecl", {})
        if ref.get("kind") == "EnumConstantDecl":
            txt = f.ctx.enum_const(ref)
            return txt, txt.split(".")[0]
        if ref.get("kind") in ("ParmVarDecl", "VarDecl"):
            if ref.get("name") not in f.vars:
                raise f.err("reference to the untranslated variable `%s`" % ref.get("name"))
            return f.vars[ref["name"]]
        raise f.err("reference to %s `%s`" % (ref.get("kind"), ref.get("name")))
    if k == "MemberExpr":
        (b,) = kids(n)
        name = n.get("name")
        if b.get("kind") == "CXXThisExpr":
            if name not in f.this_fields:
                raise f.err("use of the member `%s` of *this" % name)
            return f.this_fields[name]
        bt, bty = expr(b, f, rect_methods)
        if bty == "Rect" and name in RECT_FIELDS and ctype(n) == "int":
            return "%s.%s" % (bt, name), "Int"
        raise f.err("member `%s` of a %s" % (name, bty))
    if k == "BinaryOperator":
        op = n.get("opcode")
        a, b = kids(n)
        (at, aty), (bt, bty) = expr(a, f, rect_methods), expr(b, f, rect_methods)
        if op in ARITH:
            if aty == bty == "Int" and ctype(n) in INT_RANK:
                return "(%s %s %s)" % (at, ARITH[op], bt), "Int"
            if op == "+" and aty == bty == IDX:
                return "(%s + %s)" % (at, bt), IDX
            raise f.err("`%s` on %s and %s" % (op, aty, bty))
        if op in CMP:
            if aty == bty == "Int":
                return "(decide (%s %s %s))" % (at, CMP[op], bt), "Bool"
            raise f.err("`%s` on %s and %s" % (op, aty, bty))
        if op in EQ:
            if aty == bty and aty in ("Int", "Bool", "Orient", "Polarity"):
                return "(%s %s %s)" % (at, EQ[op], bt), "Bool"
            raise f.err("`%s` on %s and %s" % (op, aty, bty))
        if op in LOGIC:
            if aty == bty == "Bool":
                return "(%s %s %s)" % (at, LOGIC[op], bt), "Bool"
            raise f.err("`%s` on %s and %s" % (op, aty, bty))
        raise f.err("binary operator `%s`" % op)
    if k == "UnaryOperator":
        op = n.get("opcode")
        t, ty = expr(kids(n)[0], f, rect_methods)
        if op == "!" and ty == "Bool":
            return "(!%s)" % t, "Bool"
        if op == "-" and ty == "Int":
            return "(-%s)" % t, "Int"
        raise f.err("unary operator `%s` on %s" % (op, ty))
    if k == "ConditionalOperator":
        c, a, b = kids(n)
        (ct, cty), (at, aty), (bt, bty) = (expr(x, f, rect_methods) for x in (c, a, b))
        if cty != "Bool" or aty != bty or aty == IDX:
            raise f.err("conditional operator on %s ? %s : %s" % (cty, aty, bty))
        return "(if %s then %s else %s)" % (ct, at, bt), aty
    if k == "CallExpr":
        ks = kids(n)
        callee = strip_callee(ks[0])
        ref = callee.get("referencedDecl", {})
        if callee.get("kind") != "DeclRefExpr" or ref.get("kind") != "FunctionDecl":
            raise f.err("call through %s" % callee.get("kind"))
        name, sig = ref.get("name"), ref.get("type", {}).get("qualType", "")
        args = [expr(a, f, rect_methods) for a in ks[1:]]
        if name in ("max", "min"):
            # the two-argument std::max / std::min template on an integer type
            ok = [s for s in INT_RANK if sig == "const %s &(const %s &, const %s &)" % (s, s, s)]
            if not ok or len(args) != 2 or any(ty != "Int" for _, ty in args):
                raise f.err("call of %s with signature %s" % (name, sig))
            return "(%s %s %s)" % (name, args[0][0], args[1][0]), "Int"
        if name == "isTurn" and sig == "bool (coloquinte::CellOrientation)" and [ty for _, ty in args] == ["Orient"]:
            return "(isTurn %s)" % args[0][0], "Bool"
        raise f.err("call of the untranslated function `%s` (%s)" % (name, sig))
    if k == "CXXMemberCallExpr":
        ks = kids(n)
        callee = strip_callee(ks[0])
        if callee.get("kind") != "MemberExpr":
            raise f.err("member call through %s" % callee.get("kind"))
        (base,) = kids(callee)
        name = callee.get("name")
        args = [expr(a, f, rect_methods) for a in ks[1:]]
        if base.get("kind") == "CXXThisExpr":
            key = (name, tuple(t for t, _ in args))
            if key not in f.this_calls:
                raise f.err("call this->%s(%s)" % (name, ", ".join(key[1])))
            return f.this_calls[key]
        bt, bty = expr(base, f, rect_methods)
        if bty == "Rect" and name in rect_methods and not args:
            return "(%s %s)" % (rect_methods[name][0], bt), rect_methods[name][1]
        raise f.err("call of `%s` on a %s" % (name, bty))
    if k == "CXXOperatorCallExpr":
        ks = kids(n)
        callee = strip_callee(ks[0])
        ref = callee.get("referencedDecl", {})
        if ref.get("name") != "operator[]" or len(ks) != 3 or "std::vector" not in ref.get("type", {}).get("qualType", ""):
            raise f.err("overloaded operator `%s`" % ref.get("name"))
        base = strip_index(ks[1])
        if base.get("kind") != "MemberExpr" or kids(base)[0].get("kind") != "CXXThisExpr":
            raise f.err("operator[] on something other than an array member of *this")
        it, ity = expr(strip_index(ks[2]), f, rect_methods)
        if ity != IDX:
            raise f.err("%s[…] indexed by a computed %s" % (base.get("name"), ity))
        key = (base.get("name"), it)
        if key not in f.index:
            raise f.err("%s[%s] (not in the representation map)" % key)
        return f.index[key]
    if k in ("CXXTemporaryObjectExpr", "CXXConstructExpr"):
        ks = kids(n)
        if ctype(n) != "coloquinte::Rectangle":
            raise f.err("construction of a %s" % ctype(n))
        sig = n.get("ctorType", {}).get("qualType", "")
        if sig == "void (int, int, int, int)" and len(ks) == 4:
            args = [expr(a, f, rect_methods) for a in ks]
            if any(ty != "Int" for _, ty in args):
                raise f.err("Rectangle(…) from %s" % [ty for _, ty in args])
            return "(Rectangle_ctor %s)" % " ".join(t for t, _ in args), "Rect"
        if sig in ("void (const coloquinte::Rectangle &) noexcept", "void (coloquinte::Rectangle &&) noexcept") and len(ks) == 1:
            return expr(ks[0], f, rect_methods)          # implicit member-wise copy / move
        raise f.err("Rectangle constructor %s" % sig)
    raise f.err("expression %s" % k)


# ------------------------------------------------------------------ statements

def assert_condition(s):
    """The text of `c` if s is glibc's expansion of `assert(c)`, else None."""
    n = s
    while n.get("kind") == "ParenExpr":
        n = kids(n)[0]
    if n.get("kind") != "ConditionalOperator" or ctype(n) != "void":
        return None
    ks = kids(n)
    call = ks[2]
    if call.get("kind") != "CallExpr":
        return None
    callee = strip_callee(kids(call)[0])
    if callee.get("referencedDecl", {}).get("name") != "__assert_fail":
        return None
    lit = strip_callee(kids(call)[1])
    while lit.get("kind") == "ImplicitCastExpr":
        lit = kids(lit)[0]
    return str(lit.get("value", "?")).strip('"')


def stmts_of(n):
    return kids(n) if n.get("kind") == "CompoundStmt" else [n]


def compile_stmts(stmts, f, rect_methods, rest=None):
    """Decision tree ("ret", text, ty) | ("ite", cond, T, E) | None (falls off the end)."""
    if not stmts:
        return rest
    s, tail = stmts[0], stmts[1:]
    k = s.get("kind")
    if k == "ReturnStmt":
        ks = kids(s)
        if len(ks) != 1:
            raise f.err("return without a value")
        t, ty = expr(ks[0], f, rect_methods)
        return ("ret", t, ty)
    if k == "CompoundStmt":
        return compile_stmts(kids(s) + tail, f, rect_methods, rest)
    if k == "NullStmt":
        return compile_stmts(tail, f, rect_methods, rest)
    if k == "DeclStmt":
        for d in kids(s):
            if d.get("kind") != "VarDecl" or len(kids(d)) != 1 or d.get("name") in f.vars:
                raise f.err("declaration `%s`" % d.get("name"))
            t, ty = expr(kids(d)[0], f, rect_methods)
            want = LEAN_TY.get(ctype(d))
            if ty != IDX and want != ty:
                raise f.err("local `%s` of type %s initialised with a %s" % (d.get("name"), ctype(d), ty))
            f.vars[d["name"]] = (t, ty)   # single assignment: no assignment statement is accepted below
        return compile_stmts(tail, f, rect_methods, rest)
    if k == "IfStmt":
        ks = kids(s)
        if s.get("hasInit") or s.get("hasVar") or len(ks) not in (2, 3):
            raise f.err("if statement with an initialiser / declaration")
        ct, cty = expr(ks[0], f, rect_methods)
        if cty != "Bool":
            raise f.err("if on a %s" % cty)
        saved = dict(f.vars)
        after = compile_stmts(tail, f, rect_methods, rest)
        f.vars = dict(saved)
        then_t = compile_stmts(stmts_of(ks[1]), f, rect_methods, after)
        f.vars = dict(saved)
        else_t = compile_stmts(stmts_of(ks[2]), f, rect_methods, after) if len(ks) == 3 else after
        f.vars = saved
        return ("ite", ct, then_t, else_t)
    cond = assert_condition(s)
    if cond is not None:
        f.asserts.append(cond)
        return compile_stmts(tail, f, rect_methods, rest)
    raise f.err("statement %s" % k)


def tree_type(t, f):
    if t is None:
        raise f.err("a path that falls off the end without returning")
    if t[0] == "ret":
        return t[2]
    a, b = tree_type(t[2], f), tree_type(t[3], f)
    if a != b:
        raise f.err("returns of different types %s / %s" % (a, b))
    return a


def emit(t, ind):
    pad = "  " * ind
    if t[0] == "ret":
        return pad + t[1]
    return "%sif %s then\n%s\n%selse\n%s" % (pad, t[1], emit(t[2], ind + 1), pad, emit(t[3], ind + 1))


# ------------------------------------------------------------------ locating definitions

def definition(rel, filt, name, mangled_part, want_kind="CXXMethodDecl", sig=None):
    """(decl, body, location, source text) of the unique definition of `name`."""
    objs = clang_ast(rel, filt)
    found = []
    for o in objs:
        if o.get("kind") != want_kind or o.get("name") != name or o.get("isImplicit"):
            continue
        if mangled_part not in o.get("mangledName", ""):
            continue
        if sig is not None and o.get("type", {}).get("qualType") != sig:
            continue
        body = [c for c in kids(o) if c.get("kind") == "CompoundStmt"]
        if body:
            found.append((o, body[0]))
    if len(found) != 1:
        raise TranslateError("expected exactly one definition of %s in %s, found %d" % (filt, rel, len(found)))
    decl, body = found[0]
    loc, rng = decl.get("loc", {}), decl.get("range", {})
    b, e = rng.get("begin", {}).get("offset"), rng.get("end", {})
    if b is None or e.get("offset") is None or "line" not in loc:
        raise TranslateError("%s: clang gave no source range" % filt)
    fname = loc.get("file") or os.path.join(os.environ.get("VERIF_REPO", "/repo"), rel)
    if not fname.endswith(rel):
        raise TranslateError("%s is defined in %s, expected %s" % (filt, fname, rel))
    text = read(rel).encode()[b:e["offset"] + e.get("tokLen", 1)].decode(errors="replace")
    if name not in text or not text.rstrip().endswith("}"):
        raise TranslateError("%s: the source range reported by clang is not its definition: %r" % (filt, text[:80]))
    return decl, body, "%s:%d" % (rel, loc["line"]), text


def params_of(decl):
    return [(p.get("name"), ctype(p)) for p in kids(decl) if p.get("kind") == "ParmVarDecl"]


def ret_of(decl):
    return decl.get("type", {}).get("qualType", "").split("(")[0].strip()


class Out:
    def __init__(self):
        self.lean, self.table = [], []   # table rows: (lean name, C++ name, location, digest)

    def add(self, lean_name, cname, loc, text, src):
        self.table.append((lean_name, cname, loc, digest(text)))
        self.lean.append(src)


def doc(cname, loc, f, extra=""):
    pre = "".join("; precondition `assert(%s)`" % a for a in f.asserts) if f else ""
    return "/-- `%s` (%s)%s%s -/" % (cname, loc, extra, pre)


# ------------------------------------------------------------------ Rectangle

def rectangle_record(ctx):
    objs = clang_ast(HPP, "coloquinte::Rectangle")
    recs = [o for o in objs if o.get("kind") == "CXXRecordDecl" and o.get("name") == "Rectangle"
            and o.get("completeDefinition")]
    if len(recs) != 1:
        raise TranslateError("expected one definition of struct Rectangle, found %d" % len(recs))
    fields = [(c.get("name"), ctype(c)) for c in kids(recs[0]) if c.get("kind") == "FieldDecl"]
    if fields != [(n, "int") for n in RECT_FIELDS]:
        raise TranslateError("struct Rectangle no longer has exactly the int fields %s: %r" % (RECT_FIELDS, fields))
    if recs[0].get("bases"):
        raise TranslateError("struct Rectangle acquired a base class")


def rectangle_ctor(ctx, out, sig, lean_name):
    cname = "Rectangle::Rectangle" + sig[len("void "):]
    decl, body, loc, text = definition(HPP, "coloquinte::Rectangle::Rectangle", "Rectangle", "10coloquinte9Rectangle",
                                       "CXXConstructorDecl", sig)
    f = Fn(ctx, cname, lean_name)
    params = params_of(decl)
    for n, t in params:
        if t != "int":
            raise f.err("parameter %s : %s" % (n, t))
        f.vars[n] = (n + "_", "Int")
    if kids(body):
        raise f.err("a constructor body that is not empty")
    inits = {}
    for c in kids(decl):
        if c.get("kind") != "CXXCtorInitializer":
            continue
        fld = c.get("anyInit", {}).get("name")
        if fld not in RECT_FIELDS or fld in inits or len(kids(c)) != 1:
            raise f.err("member initialiser for `%s`" % fld)
        t, ty = expr(kids(c)[0], f, {})
        if ty != "Int":
            raise f.err("member `%s` initialised with a %s" % (fld, ty))
        inits[fld] = t
    if sorted(inits) != sorted(RECT_FIELDS):
        raise f.err("constructor leaves %s uninitialised" % sorted(set(RECT_FIELDS) - set(inits)))
    sigl = "".join(" (%s_ : Int)" % n for n, _ in params)
    out.add(lean_name, cname, loc, text, "%s\ndef %s%s : Rect :=\n  { %s }\n" % (
        doc(cname, loc, f), lean_name, sigl, ", ".join("%s := %s" % (k, inits[k]) for k in RECT_FIELDS)))


def rectangle_method(ctx, out, name, rect_methods):
    cname, lean_name = "Rectangle::" + name, "Rectangle_" + name
    decl, body, loc, text = definition(HPP, "coloquinte::Rectangle::" + name, name, "10coloquinte9Rectangle")
    f = Fn(ctx, cname, lean_name)
    static = decl.get("storageClass") == "static"
    sig = []
    if not static:
        sig.append("(self : Rect)")
        f.this_fields = {n: ("self." + n, "Int") for n in RECT_FIELDS}
        f.this_calls = {(m, ()): ("(%s self)" % ln, ty) for m, (ln, ty) in rect_methods.items()}
    for n, t in params_of(decl):
        if t not in ("int", "long long", "coloquinte::Rectangle"):
            raise f.err("parameter %s : %s" % (n, t))
        f.vars[n] = (n + "_", LEAN_TY[t])
        sig.append("(%s_ : %s)" % (n, LEAN_TY[t]))
    tree = compile_stmts(kids(body), f, rect_methods)
    ty = tree_type(tree, f)
    if LEAN_TY.get(ret_of(decl)) != ty:
        raise f.err("return type %s but the body yields %s" % (ret_of(decl), ty))
    out.add(lean_name, cname, loc, text, "%s\ndef %s %s : %s :=\n%s\n" % (
        doc(cname, loc, f, " (static)" if static else ""), lean_name, " ".join(sig), ty, emit(tree, 1)))
    rect_methods[name] = (lean_name, ty)


# ------------------------------------------------------------------ Circuit

def cell_env(f, cell_methods, var="cell"):
    f.vars[var] = (var, IDX)
    for arr, (fld, ty) in CELL_ARRAYS.items():
        f.index[(arr, var)] = ("cl." + fld, ty)
    for m, (ln, ty) in cell_methods.items():
        f.this_calls[(m, (var,))] = ("(%s cl)" % ln, ty)


def circuit_cell_method(ctx, out, rel, name, cell_methods, rect_methods):
    cname, lean_name = "Circuit::" + name, "Circuit_" + name
    decl, body, loc, text = definition(rel, "coloquinte::Circuit::" + name, name, "10coloquinte7Circuit")
    f = Fn(ctx, cname, lean_name)
    if params_of(decl) != [("cell", "int")]:
        raise f.err("signature %s (expected one `int cell`)" % decl.get("type", {}).get("qualType"))
    cell_env(f, cell_methods)
    tree = compile_stmts(kids(body), f, rect_methods)
    ty = tree_type(tree, f)
    if LEAN_TY.get(ret_of(decl)) != ty:
        raise f.err("return type %s but the body yields %s" % (ret_of(decl), ty))
    out.add(lean_name, cname, loc, text, "%s\ndef %s (cl : Cell) : %s :=\n%s\n" % (
        doc(cname, loc, f, " for the cell `cl`"), lean_name, ty, emit(tree, 1)))
    cell_methods[name] = (lean_name, ty)


def pin_env(f):
    f.vars["net"] = ("net", IDX)
    f.vars["i"] = ("i", IDX)
    f.index[("netLimits_", "net")] = ("netLimits_net", IDX)
    for arr, (fld, ty) in PIN_ARRAYS.items():
        f.index[(arr, "(netLimits_net + i)")] = ("p." + fld, ty)
    f.index[("pinCells_", "(netLimits_net + i)")] = ("cell", IDX)


def circuit_pin_cell(ctx, out):
    """`pinCell(net, i)` must be `pinCells_[netLimits_[net] + i]`: the pin's record names its cell."""
    cname = "Circuit::pinCell"
    decl, body, loc, text = definition(HPP, "coloquinte::Circuit::pinCell", "pinCell", "10coloquinte7Circuit")
    f = Fn(ctx, cname, None)
    if params_of(decl) != [("net", "int"), ("i", "int")]:
        raise f.err("signature %s" % decl.get("type", {}).get("qualType"))
    pin_env(f)
    tree = compile_stmts(kids(body), f, {})
    if tree != ("ret", "cell", IDX):
        raise f.err("a body that is not `return pinCells_[netLimits_[net] + i];`")
    out.table.append(("(shape check only)", cname, loc, digest(text)))


def circuit_pin_method(ctx, out, name, cell_methods, rect_methods):
    cname, lean_name = "Circuit::" + name, "Circuit_" + name
    decl, body, loc, text = definition(CPP, "coloquinte::Circuit::" + name, name, "10coloquinte7Circuit")
    f = Fn(ctx, cname, lean_name)
    if params_of(decl) != [("net", "int"), ("i", "int")]:
        raise f.err("signature %s (expected `int net, int i`)" % decl.get("type", {}).get("qualType"))
    pin_env(f)
    f.this_calls[("pinCell", ("net", "i"))] = ("cell", IDX)
    # the local `int cell = pinCell(net, i);` names the pin's cell: per-cell tables apply to it
    for arr, (fld, ty) in CELL_ARRAYS.items():
        f.index[(arr, "cell")] = ("cl." + fld, ty)
    for m, (ln, ty) in cell_methods.items():
        f.this_calls[(m, ("cell",))] = ("(%s cl)" % ln, ty)
    tree = compile_stmts(kids(body), f, rect_methods)
    ty = tree_type(tree, f)
    if LEAN_TY.get(ret_of(decl)) != ty:
        raise f.err("return type %s but the body yields %s" % (ret_of(decl), ty))
    out.add(lean_name, cname, loc, text, "%s\ndef %s (cl : Cell) (p : Pin) : %s :=\n%s\n" % (
        doc(cname, loc, f, " for the pin `p` sitting on the cell `cl`"), lean_name, ty, emit(tree, 1)))


# ------------------------------------------------------------------ driver

RECT_METHODS = ["width", "height", "area", "intersects", "contains", "intersection"]
CELL_METHODS = [(HPP, "x"), (HPP, "y"), (HPP, "orientation"), (HPP, "isFixed"), (HPP, "isObstruction"),
                (HPP, "area"), (CPP, "placedWidth"), (CPP, "placedHeight"), (HPP, "placement")]
PIN_METHODS = ["pinXOffset", "pinYOffset"]


def prefetch():
    """Warm clang_ast's results in parallel (each call is an independent clang process)."""
    jobs = [(HPP, "coloquinte::Rectangle"), (HPP, "coloquinte::Rectangle::Rectangle"), (HPP, "coloquinte::Circuit::pinCell")]
    jobs += [(HPP, "coloquinte::Rectangle::" + m) for m in RECT_METHODS]
    jobs += [(rel, "coloquinte::Circuit::" + m) for rel, m in CELL_METHODS]
    jobs += [(CPP, "coloquinte::Circuit::" + m) for m in PIN_METHODS]
    cache = {}

    def one(j):
        try:
            return j, _raw_clang_ast(*j)
        except TranslateError as e:
            return j, e
    with ThreadPoolExecutor(8) as ex:
        for j, r in ex.map(one, jobs):
            cache[j] = r
    return cache


_raw_clang_ast = clang_ast
_cache = {}


def clang_ast(rel, filt):  # noqa: F811  (memoised front of translate.clang_ast)
    r = _cache.get((rel, filt))
    if r is None:
        r = _raw_clang_ast(rel, filt)
    if isinstance(r, Exception):
        raise r
    return r


def generate():
    global _cache
    with ThreadPoolExecutor(1) as side:     # the enum tables / isTurn need three more clang runs: overlap them
        fut = side.submit(lambda: (lambda c: (c, free_function(c, PARAMS, "isTurn", set())))(Ctx()))
        _cache = prefetch()
        ctx, (is_partial, isturn_src) = fut.result()
    try:
        out = Out()
        rectangle_record(ctx)
        rectangle_ctor(ctx, out, "void ()", "Rectangle_ctor0")
        rectangle_ctor(ctx, out, "void (int, int, int, int)", "Rectangle_ctor")
        rect_methods = {}
        for m in RECT_METHODS:
            rectangle_method(ctx, out, m, rect_methods)
        if is_partial:
            raise TranslateError("isTurn: does not return on every path")
        out.add("isTurn", "isTurn", PARAMS, read(PARAMS), isturn_src)
        cell_methods = {}
        for rel, m in CELL_METHODS:
            circuit_cell_method(ctx, out, rel, m, cell_methods, rect_methods)
        circuit_pin_cell(ctx, out)
        for m in PIN_METHODS:
            circuit_pin_method(ctx, out, m, cell_methods, rect_methods)
    finally:
        _cache = {}
    head = ("import ColoVerif.Model.Circuit\n/-\nThe shared geometry layer regenerated from the C++ function bodies (tie T).\n"
            "Representation map: per-cell arrays `cellX_[cell]`, … are the fields of the `Cell` record `cl`;\n"
            "the pin arrays at `netLimits_[net] + i` are the fields of the `Pin` record `p`; C++ int / long long are `Int`.\n\n"
            "  Lean definition | C++ function | definition at | digest of its source text\n%s\n-/\n"
            "namespace ColoVerif.Gen.Geom\nopen ColoVerif\n" % "\n".join(
                "  %s | %s | %s | %s" % row for row in out.table))
    info = {"functions": [{"lean": a, "cxx": b, "at": c, "digest": d} for a, b, c, d in out.table]}
    return {"info": info, "GeomFns.lean": head + "\n" + "\n".join(out.lean) + "\nend ColoVerif.Gen.Geom\n"}


if __name__ == "__main__":
    print(generate()["GeomFns.lean"])
