"""Translator piece for C08: the facts about the two parallel solves of GlobalPlacer::runLB, read
from the clang AST of the function, plus the table of mutable static-storage variables and
`mutable` members of the library.

From the AST of `GlobalPlacer::runLB` (src/place_global/place_global.cpp):
  * exactly two calls of `std::async`; for each: the launch policy (is the first argument the
    enumerator `std::launch::async`), the callee (`&NetModel::solveWithPenalty`) and whether its
    member-function type is `const`, the bound object (`&xtopo_` / `&ytopo_`), and for every further
    argument how it is passed: by value (std::async decay-copies it in the launching thread), through
    `std::ref` / `std::cref` (reference_wrapper) or as a pointer;
  * the order of events on the launching thread from the first launch to the end of the function:
    launch, `.get()` (and the variable its result is assigned to), the callback call (and the
    members it is given), anything else.

Mutable static storage: every object file of the library is compiled (without sanitizers, without
the verification guard) and `nm` lists the symbols in writable data sections (.data/.bss/.tbss, including
function-local statics - reported as `<file>: <function>()::<name>` -, static data members, statics of inline
functions / templates and their guard variables); libstdc++'s
`std::__ioinit` (the <iostream> initialiser object, touched only during static initialisation) is
the single whitelisted name.  `mutable` members: FieldDecls with the `mutable` flag in any
`namespace coloquinte` block, plus a textual scan of every file under src/ for the keyword.
"""
import json
import os
import re
import subprocess
import sys
from concurrent.futures import ThreadPoolExecutor

sys.path.insert(0, os.path.dirname(os.path.dirname(os.path.abspath(__file__))))
import common as C  # noqa: E402
import translate as T  # noqa: E402

SRC = "src/place_global/place_global.cpp"
WHITELIST_SYMBOLS = {"std::__ioinit"}


def kids(n):
    return [c for c in (n.get("inner") or []) if isinstance(c, dict) and c]


def qual(n):
    return (n.get("type") or {}).get("qualType", "")


def strip(n):
    while n and n.get("kind") in ("ParenExpr", "ImplicitCastExpr", "ExprWithCleanups", "MaterializeTemporaryExpr",
                                  "CXXBindTemporaryExpr", "ConstantExpr"):
        k = kids(n)
        if len(k) != 1:
            break
        n = k[0]
    return n


def name_of(e):
    """Name of the variable / member an lvalue expression denotes, or None."""
    e = strip(e)
    if e.get("kind") == "DeclRefExpr":
        if e["referencedDecl"].get("kind") not in ("VarDecl", "ParmVarDecl", "BindingDecl"):
            return None
        return e["referencedDecl"].get("name")
    if e.get("kind") == "MemberExpr":
        b = strip(kids(e)[0]) if kids(e) else {}
        if b.get("kind") == "CXXThisExpr":
            return e.get("name")
    return None


def find_async_call(init):
    for n in T.walk(init):
        if n.get("kind") == "CallExpr":
            f = strip(kids(n)[0])
            if f.get("kind") == "DeclRefExpr" and f["referencedDecl"].get("name") == "async":
                return n
    return None


def describe_async(call, future):
    a = kids(call)[1:]
    if len(a) < 3:
        raise T.TranslateError("std::async call with fewer than three arguments in runLB")
    pol = strip(a[0])
    policy_async = pol.get("kind") == "DeclRefExpr" and pol["referencedDecl"].get("kind") == "EnumConstantDecl" \
        and pol["referencedDecl"].get("name") == "async" and "launch" in qual(pol)
    fn = strip(a[1])
    if not (fn.get("kind") == "UnaryOperator" and fn.get("opcode") == "&"):
        raise T.TranslateError("second argument of std::async is not &Class::member")
    callee = strip(kids(fn)[0])
    callee_name = (callee.get("referencedDecl") or {}).get("name")
    if not callee_name:
        raise T.TranslateError("cannot name the callee of std::async")
    mtype = qual(fn)
    callee_const = bool(re.search(r"\)\s*const\b", mtype))
    cls = re.search(r"\((?:coloquinte::)?(\w+)::\*\)", mtype)
    obj = strip(a[2])
    bound_addr = obj.get("kind") == "UnaryOperator" and obj.get("opcode") == "&"
    bound = name_of(kids(obj)[0]) if bound_addr else name_of(obj)
    if not bound:
        raise T.TranslateError("cannot name the object std::async binds the member function to")
    args = []
    for x in a[3:]:
        t = qual(x)
        inner = strip(x)
        if "reference_wrapper" in t:
            mode = "byConstRef" if re.search(r"reference_wrapper<\s*const\b", t) else "byRef"
            src = None
            for n in T.walk(x):
                nm = name_of(n) if n.get("kind") in ("DeclRefExpr", "MemberExpr") else None
                if nm and nm not in ("ref", "cref"):
                    src = nm
            args.append((src or "?", mode))
        elif t.rstrip().endswith("*"):
            src = name_of(kids(inner)[0]) if inner.get("kind") == "UnaryOperator" and kids(inner) else name_of(inner)
            args.append((src or "?", "pointer"))
        else:
            args.append((name_of(x) or "<temporary>", "byValue"))
    return {"future": future, "policyAsync": policy_async, "callee": (cls.group(1) + "::" if cls else "") + callee_name,
            "calleeConst": callee_const, "bound": bound, "boundIsAddress": bound_addr, "args": args}


def runlb_facts():
    objs = T.clang_ast(SRC, "GlobalPlacer::runLB")
    _, body = T.function_body(objs, "GlobalPlacer::runLB")
    calls, events, futures = [], [], {}
    started = False
    for st in kids(body):
        launched = None
        if st.get("kind") == "DeclStmt":
            for v in kids(st):
                if v.get("kind") == "VarDecl":
                    c = find_async_call(v)
                    if c is not None:
                        launched = describe_async(c, v["name"])
                        futures[v["name"]] = len(calls)
                        calls.append(launched)
        else:
            c = find_async_call(st)
            if c is not None:
                raise T.TranslateError("std::async call in runLB whose future is not stored in a local variable")
        if launched:
            started = True
            events.append(("launch", len(calls) - 1))
            continue
        if not started:
            continue
        # uses of the futures in this statement
        used = []
        for n in T.walk(st):
            if n.get("kind") == "DeclRefExpr" and n["referencedDecl"].get("name") in futures:
                used.append(n["referencedDecl"]["name"])
        e = strip(st)
        if used:
            ok = False
            if e.get("kind") == "CXXOperatorCallExpr" and len(kids(e)) == 3:
                f = strip(kids(e)[0])
                rhs = strip(kids(e)[2])
                if (f.get("referencedDecl") or {}).get("name") == "operator=" and rhs.get("kind") == "CXXMemberCallExpr":
                    m = kids(rhs)[0]
                    if m.get("kind") == "MemberExpr" and m.get("name") == "get" and len(used) == 1 and \
                            name_of(kids(m)[0]) == used[0]:
                        target = name_of(kids(e)[1])
                        if target:
                            events.append(("get", futures[used[0]], target))
                            ok = True
            if not ok:
                raise T.TranslateError("runLB uses a future in a way that is not `<member> = <future>.get();`")
            continue
        if e.get("kind") == "CXXMemberCallExpr" and kids(e)[0].get("kind") == "MemberExpr" and kids(e)[0].get("name") == "callback":
            reads = [name_of(x) for x in kids(e)[1:] if name_of(x)]
            events.append(("callback", reads))
            continue
        events.append(("other",))
    if len(calls) != 2:
        raise T.TranslateError("expected exactly two std::async calls in GlobalPlacer::runLB, found %d" % len(calls))
    return calls, events


def static_symbols():
    """Writable static-storage symbols of the library objects (cached by source digest)."""
    key = C.tree_hash(C.repo_sources(), "async-syms-v2")
    cache = os.path.join(C.CACHE, "async-syms-%s.json" % key)
    if os.path.exists(cache):
        return json.load(open(cache))
    tmp = os.path.join(C.CACHE, "async-objs-%d" % os.getpid())
    os.makedirs(tmp, exist_ok=True)

    def one(src):
        o = os.path.join(tmp, src.replace("/", "_") + ".o")
        rc, out = C.sh(["g++", "-std=c++17", "-O0", "-g0", "-w", "-I", os.path.join(C.REPO, "src"), "-c",
                        os.path.join(C.REPO, src), "-o", o])
        if rc != 0:
            raise T.TranslateError("cannot compile %s for the symbol table: %s" % (src, out[-600:]))
        rc, out = C.sh(["nm", "-C", "--defined-only", o])
        os.unlink(o)
        if rc != 0:
            raise T.TranslateError("nm failed on %s" % src)
        syms = []
        for ln in out.splitlines():
            m = re.match(r"^[0-9a-fA-F]*\s+([A-Za-z])\s+(.*)$", ln)
            if not m:
                continue
            ty, name = m.group(1), m.group(2)
            # writable data / bss / unique globals (statics of inline functions and templates) / common / small
            # data / weak objects (what `u` becomes on toolchains without GNU_UNIQUE); TLS symbols are b/B/d/D too
            if ty not in "bBdDuCsSgGvV":
                continue
            if name.startswith(("DW.ref.", "vtable for", "typeinfo ", "VTT for", "construction vtable")):
                continue
            syms.append("%s: %s" % (src, name))
        return syms
    with ThreadPoolExecutor(C.NCPU) as ex:
        res = list(ex.map(one, C.LIB_SOURCES))
    try:
        os.rmdir(tmp)
    except OSError:
        pass
    out = sorted(s for r in res for s in r)
    os.makedirs(C.CACHE, exist_ok=True)
    with open(cache, "w") as f:
        json.dump(out, f)
    return out


def strip_cpp_comments(s):
    s = re.sub(r"/\*.*?\*/", lambda m: "\n" * m.group(0).count("\n"), s, flags=re.S)
    s = re.sub(r"//[^\n]*", "", s)
    s = re.sub(r'"(?:\\.|[^"\\\n])*"', '""', s)
    return s


def mutable_members():
    found = []
    for p in sorted(C.repo_sources()):
        src = strip_cpp_comments(open(p, errors="replace").read())
        for m in re.finditer(r"\bmutable\b", src):
            line = src.count("\n", 0, m.start()) + 1
            tail = src[m.start():src.find("\n", m.start())]
            # a lambda's `mutable` specifier is not a member
            kind = "lambda" if re.match(r"mutable\s*(->|\{|noexcept)", tail) else "member"
            found.append("%s:%d %s: %s" % (os.path.relpath(p, C.REPO), line, kind, tail.strip()[:60]))
    return found


def lean_str(s):
    return '"' + s.replace("\\", "\\\\").replace('"', '\\"') + '"'


def generate():
    calls, events = runlb_facts()
    own, third = [], []
    for sym in static_symbols():
        name = sym.split(": ", 1)[1]
        base = re.sub(r"^guard variable for ", "", name)
        if base in WHITELIST_SYMBOLS:
            continue
        # objects of the standard library / Eigen / boost / lemon themselves (tag constants such as
        # std::piecewise_construct, Eigen::all): const in their headers, never written; their internals are
        # the ThreadSanitizer run's subject
        (third if re.match(r"(std|Eigen|boost|lemon|__gnu_cxx)::", base) else own).append(sym)
    statics = own
    mut = mutable_members()
    # variable table
    names = []

    def vid(n):
        if n not in names:
            names.append(n)
        return names.index(n)
    for c in calls:
        vid(c["bound"])
    for c in calls:
        for (n, _) in c["args"]:
            vid(n)
    for e in events:
        if e[0] == "get":
            vid(e[2])
        if e[0] == "callback":
            for n in e[1]:
                vid(n)
    L = []
    L.append("/-")
    L.append("Facts about the two parallel solves of `GlobalPlacer::runLB` (clang AST of %s, digest %s)" % (SRC, T.digest(T.read(SRC))))
    L.append("and the mutable static-storage symbols (`nm` over the library's objects) / `mutable` members of /repo/src.")
    L.append("-/")
    L.append("namespace ColoVerif.Gen.Async")
    L.append("")
    L.append("/-- how an argument reaches the task: `byValue` = decay-copied by std::async in the launching thread -/")
    L.append("inductive ArgMode where")
    L.append("  | byValue | byRef | byConstRef | pointer")
    L.append("deriving Repr, DecidableEq")
    L.append("")
    L.append("structure Arg where")
    L.append("  var : Nat")
    L.append("  mode : ArgMode")
    L.append("deriving Repr, DecidableEq")
    L.append("")
    L.append("structure AsyncCall where")
    L.append("  future : String")
    L.append("  policyAsync : Bool")
    L.append("  callee : String")
    L.append("  calleeConst : Bool")
    L.append("  boundVar : Nat")
    L.append("  boundIsAddressOfMember : Bool")
    L.append("  args : List Arg")
    L.append("deriving Repr")
    L.append("")
    L.append("/-- what the launching thread does, in statement order, from the first launch on -/")
    L.append("inductive MainEvent where")
    L.append("  | launch (task : Nat)")
    L.append("  | get (task : Nat) (target : Nat)")
    L.append("  | callback (reads : List Nat)")
    L.append("  | other")
    L.append("deriving Repr, DecidableEq")
    L.append("")
    L.append("structure Facts where")
    L.append("  varNames : List String")
    L.append("  callX : AsyncCall")
    L.append("  callY : AsyncCall")
    L.append("  main : List MainEvent")
    L.append("  mutableStatics : List String")
    L.append("  mutableMembers : List String")
    L.append("deriving Repr")
    L.append("")

    def call(c):
        args = ", ".join("⟨%d, .%s⟩" % (vid(n), m) for (n, m) in c["args"])
        return "⟨%s, %s, %s, %s, %d, %s, [%s]⟩" % (lean_str(c["future"]), "true" if c["policyAsync"] else "false",
                                                 lean_str(c["callee"]), "true" if c["calleeConst"] else "false",
                                                 vid(c["bound"]), "true" if c["boundIsAddress"] else "false", args)

    def ev(e):
        if e[0] == "launch":
            return ".launch %d" % e[1]
        if e[0] == "get":
            return ".get %d %d" % (e[1], vid(e[2]))
        if e[0] == "callback":
            return ".callback [%s]" % ", ".join(str(vid(n)) for n in e[1])
        return ".other"
    L.append("def facts : Facts where")
    L.append("  varNames := [%s]" % ", ".join(lean_str(n) for n in names))
    L.append("  callX := %s" % call(calls[0]))
    L.append("  callY := %s" % call(calls[1]))
    L.append("  main := [%s]" % ", ".join(ev(e) for e in events))
    L.append("  mutableStatics := [%s]" % ", ".join(lean_str(s) for s in statics))
    L.append("  mutableMembers := [%s]" % ", ".join(lean_str(s) for s in mut if " member: " in s))
    L.append("")
    L.append("end ColoVerif.Gen.Async")
    info = {"calls": calls, "events": [list(e) for e in events], "vars": names, "mutable_statics": statics,
            "third_party_static_symbols": third, "mutable_keyword_hits": mut, "objects_scanned": len(C.LIB_SOURCES)}
    return {"Async.lean": "\n".join(L) + "\n", "info": info}


if __name__ == "__main__":
    r = generate()
    print(r["Async.lean"])
    print(json.dumps(r["info"], indent=1))
