"""Translator piece for C08: the definite-initialisation table.

Scope: every class/struct defined in a file of /repo/src/place_global or /repo/src/place_detailed (including the
classes of transportation_1d.hpp, which live in the global namespace, and the structs local to a .cpp file) plus
`Circuit` (src/coloquinte.hpp).  Closure types of lambdas are skipped (their captures are initialised by the
lambda expression itself).

For every non-static data member of scalar type (arithmetic, enumeration, pointer, reference) the table says whether
every constructor initialises it.  That verdict is not taken on faith: every constructor is translated to an
event list (mem-initialisers in declaration order, then the body) and the Lean checker recomputes the verdict.
Members of class type (std::vector, std::optional, std::mt19937, other classes of the library, ...) have
constructors of their own and are only counted (`classTypeMembers`).

Event lists (`Ev` of Model/InitOrder.lean) are extracted from the clang AST for
  * every member function / constructor of the classes in scope: reads and writes of scalar members of `*this`,
    calls of member functions on `this` (referenced by index), `if`/`else` as two alternatives, loops / `try` /
    handlers / lambda bodies as `opaque` blocks (their reads happen, their writes are never definite; a `switch`
    gives one opaque block per case label, from the label to the end of the body), `return`, and
    `stop` for throw / break / continue;
  * every local variable (by value) of a class in scope, in any function of the analysed files: the constructor
    it is built with, then the reads / writes of its members through the variable, member-function calls on it,
    and `readAll` wherever the variable is used as a whole (copied, passed on, returned).  These are the
    `lifecycles`; `GlobalPlacer pl(circuit, params); pl.run(); ...` in `GlobalPlacer::place` is one of them.
  * every other place that constructs such an object (temporaries, `new`, mem-initialisers): the constructor
    followed by `readAll` (the object is handed on at once).  `return T(args);` is not a site of its own: with
    guaranteed copy elision the object is the one the caller initialises from the call, so a variable (or
    temporary) initialised from `f(...)` starts with the alternatives of f's return statements (constructor,
    value of another object, result of a further call); a function whose definition is not analysed and
    that returns an object of a weak class is an error.
Only lifecycles of classes with at least one scalar member that some constructor leaves unset are emitted
(`weak` classes); for the others the per-constructor verdict already covers every object.

Conservative rules (a read is assumed to happen, a write is assumed not to happen, when unsure):
  * any mention of a scalar member that is not the left-hand side of a plain `=` is a read (`+=`, `++`, taking the
    address, binding to a reference, passing by reference: read, and the write is not credited);
  * a plain assignment is a write after the reads/calls of its right-hand side; inside `?:`, the right operand of
    `&&` / `||`, and when one expression contains several calls on `this`, writes and calls are wrapped in an
    alternative with the empty list (not definite);
  * `this` used as a whole (`*this` copied or passed on, pointer-to-member access) is `readAll`;
  * objects created inside standard containers (`vector<T>(n)`, `resize`, `emplace_back()`) are value-initialised
    by the allocator (zeroed for classes without user-provided default constructor) and are not listed.
Shapes that are not understood (goto, virtual member functions, inherited constructors, array members of scalar
type, anonymous unions, a weak class as base or member without initialiser, unknown statement kinds, a member
type that cannot be classified) raise TranslateError.
"""
import json
import os
import re
import subprocess
import sys
from concurrent.futures import ProcessPoolExecutor

sys.path.insert(0, os.path.dirname(os.path.dirname(os.path.abspath(__file__))))
import common as C  # noqa: E402
import translate as T  # noqa: E402

DIRS = ["src/place_global", "src/place_detailed"]
EXTRA_CLASSES = {"coloquinte::Circuit": "src/coloquinte.hpp"}
TUS = [s for s in C.LIB_SOURCES if s.startswith(tuple(DIRS)) or s == "src/coloquinte.cpp"]
BUILTIN = {"int", "unsigned int", "long", "unsigned long", "long long", "unsigned long long", "short", "unsigned short",
           "char", "signed char", "unsigned char", "bool", "float", "double", "long double", "wchar_t", "char16_t",
           "char32_t", "__int128", "unsigned __int128"}
WRAPPERS = ("ParenExpr", "ImplicitCastExpr", "ExprWithCleanups", "MaterializeTemporaryExpr", "CXXBindTemporaryExpr",
            "ConstantExpr")
LOOPS = ("ForStmt", "WhileStmt", "DoStmt", "CXXForRangeStmt")
VERSION = "inittable-v1"
KIND_LEAN = {"int": "integer", "float": "floating", "bool": "boolean", "enum": "enumeration", "pointer": "pointer", "reference": "reference"}


def kids(n):
    return [c for c in (n.get("inner") or []) if isinstance(c, dict) and c]


def raw_kids(n):
    return [c for c in (n.get("inner") or []) if isinstance(c, dict)]


def qual(n):
    return (n.get("type") or {}).get("qualType", "")


def desugared(n):
    t = n.get("type") or {}
    return t.get("desugaredQualType", t.get("qualType", ""))


def strip(n):
    while n and n.get("kind") in WRAPPERS:
        k = kids(n)
        if len(k) != 1:
            break
        n = k[0]
    return n


def parse_all(text):
    objs, dec, i = [], json.JSONDecoder(), 0
    while i < len(text):
        while i < len(text) and text[i].isspace():
            i += 1
        if i >= len(text):
            break
        o, j = dec.raw_decode(text, i)
        objs.append(o)
        i = j
    return objs


def annotate(obj, main_file):
    """clang prints "file" / "line" only when they change; resolve them for every location (document order)."""
    cur = [main_file, 0]

    def rec(v):
        if isinstance(v, dict):
            if isinstance(v.get("file"), str):
                cur[0] = v["file"]
            if isinstance(v.get("line"), int):
                cur[1] = v["line"]
            is_loc = "offset" in v or "col" in v
            for k, x in v.items():
                if k not in ("file", "includedFrom"):
                    rec(x)
            if is_loc:
                v["_file"], v["_line"] = cur[0], cur[1]
        elif isinstance(v, list):
            for x in v:
                rec(x)
    rec(obj)


def loc_of(n):
    l = n.get("loc") or {}
    if "_file" not in l:
        l = l.get("expansionLoc") or l.get("spellingLoc") or (n.get("range") or {}).get("begin") or {}
        if "_file" not in l:
            l = l.get("expansionLoc") or l.get("spellingLoc") or {}
    return l.get("_file", ""), l.get("_line", 0)


def clang_json(repo, rel, filt):
    cmd = ["clang++-14", "-std=gnu++17", "-fsyntax-only", "-I", os.path.join(repo, "src"), "-D" + C.GUARD,
           "-Xclang", "-ast-dump=json", "-Xclang", "-ast-dump-filter=" + filt, os.path.join(repo, rel)]
    p = subprocess.run(cmd, stdout=subprocess.PIPE, stderr=subprocess.PIPE, text=True)
    if p.returncode != 0:
        raise T.TranslateError("clang failed on %s: %s" % (rel, p.stderr[-800:]))
    return parse_all(p.stdout)


class Unit:
    """One translation unit, distilled."""

    def __init__(self, repo, rel, extra_filters):
        self.repo, self.rel = repo, rel
        self.main = os.path.join(repo, rel)
        self.objs = clang_json(repo, rel, "coloquinte")
        for f in extra_filters:
            self.objs += clang_json(repo, rel, f)
        for o in self.objs:
            annotate(o, self.main)
        self.records = {}      # qualified name -> record info
        self.rec_by_id = {}    # decl id (any redeclaration) -> qualified name
        self.field_by_id = {}  # FieldDecl id -> (record, name, kind)
        self.method_by_id = {}  # method / ctor decl id -> mangled name
        self.method_info = {}  # mangled -> info
        self.enums = set()
        self.funcs = {}        # mangled -> summary of a definition
        self.sites = []
        self.returns = {}      # mangled -> how each return statement of an analysed function creates its result
        self.fn_by_id = {}     # any function-like decl id -> mangled name
        self.seen_ids = set()
        for o in self.objs:
            for n in T.walk(o):
                if n.get("kind") in ("FunctionDecl", "CXXMethodDecl", "CXXConstructorDecl", "CXXDestructorDecl", "CXXConversionDecl") \
                        and n.get("mangledName") and n.get("id"):
                    self.fn_by_id[n["id"]] = n["mangledName"]
        self.collect_decls()
        self.collect_functions()

    # ---- declarations ---------------------------------------------------------------------
    def rel_file(self, path):
        if not path:
            return ""
        try:
            return os.path.relpath(os.path.realpath(path), os.path.realpath(self.repo))
        except ValueError:
            return path

    def in_dirs(self, path):
        r = self.rel_file(path)
        return any(r.startswith(d + "/") for d in DIRS)

    def collect_decls(self):
        def rec(n, ctx, in_fn):
            k = n.get("kind")
            if k == "EnumDecl" and n.get("name"):
                self.enums.add("::".join(ctx + [n["name"]]))
            if k in ("NamespaceDecl", "LinkageSpecDecl"):
                name = n.get("name") or "(anonymous namespace)"
                for c in kids(n):
                    rec(c, ctx + ([name] if k == "NamespaceDecl" else []), in_fn)
                return
            if k == "CXXRecordDecl":
                q = "::".join(ctx + [n.get("name") or "(unnamed)"])
                if n.get("id"):
                    self.rec_by_id[n["id"]] = q
                if n.get("completeDefinition") and not n.get("isImplicit"):
                    self.add_record(n, q, in_fn)
                    for c in kids(n):
                        rec(c, ctx + [n.get("name") or "(unnamed)"], in_fn)
                return
            if k in ("ClassTemplateDecl", "ClassTemplateSpecializationDecl", "ClassTemplatePartialSpecializationDecl"):
                f, _ = loc_of(n)
                if self.in_dirs(f):
                    raise T.TranslateError("class template %s in %s: templates are not analysed" % (n.get("name"), self.rel_file(f)))
                return
            if k in ("FunctionDecl", "CXXMethodDecl", "CXXConstructorDecl", "CXXDestructorDecl", "CXXConversionDecl",
                     "FunctionTemplateDecl"):
                for c in T.walk(n):
                    if c is not n and c.get("kind") == "CXXRecordDecl" and c.get("completeDefinition") and not c.get("isImplicit"):
                        # local classes and lambda closures
                        if self.is_lambda(c):
                            continue
                        q = "::".join(ctx + [n.get("name") or "?", c.get("name") or "(unnamed)"])
                        self.rec_by_id[c["id"]] = q
                        self.add_record(c, q, True)
                return
        def pre(n, ctx):
            k = n.get("kind")
            if k in ("NamespaceDecl", "LinkageSpecDecl"):
                name = n.get("name") or "(anonymous namespace)"
                for c in kids(n):
                    pre(c, ctx + ([name] if k == "NamespaceDecl" else []))
            elif k == "CXXRecordDecl":
                q = "::".join(ctx + [n.get("name") or "(unnamed)"])
                if n.get("id"):
                    self.rec_by_id[n["id"]] = q
                for c in kids(n):
                    pre(c, ctx + [n.get("name") or "(unnamed)"])
            elif k == "EnumDecl" and n.get("name"):
                self.enums.add("::".join(ctx + [n["name"]]))
        for o in self.objs:
            pre(o, [])
        for o in self.objs:
            rec(o, [], False)
        # out-of-line member definitions carry their own ids
        for o in self.objs:
            for n in T.walk(o):
                if n.get("kind") in ("CXXMethodDecl", "CXXConstructorDecl", "CXXDestructorDecl", "CXXConversionDecl") \
                        and n.get("id") not in self.method_by_id:
                    parent = self.rec_by_id.get(n.get("parentDeclContextId"))
                    if parent and n.get("mangledName"):
                        self.register_method(n, parent)

    @staticmethod
    def is_lambda(rec):
        dd = rec.get("definitionData") or {}
        return bool(dd.get("isLambda")) or (not rec.get("name") and any(c.get("kind") == "CXXMethodDecl" and c.get("name") == "operator()" for c in kids(rec)))

    def register_method(self, n, cls):
        m = n.get("mangledName")
        if not m:
            return
        self.method_by_id[n["id"]] = m
        info = self.method_info.setdefault(m, {"cls": cls, "name": n.get("name"), "type": qual(n), "kind": n.get("kind"),
                                               "virtual": False, "static": False, "implicit": False, "defaulted": None,
                                               "deleted": False})
        if n.get("virtual"):
            info["virtual"] = True
        if n.get("storageClass") == "static":
            info["static"] = True
        if n.get("isImplicit"):
            info["implicit"] = True
        if n.get("explicitlyDefaulted"):
            info["defaulted"] = n["explicitlyDefaulted"]
        if n.get("explicitlyDeleted") or n.get("explicitlyDefaulted") == "deleted":
            info["deleted"] = True

    def add_record(self, n, q, local):
        f, line = loc_of(n)
        relf = self.rel_file(f)
        scope = self.in_dirs(f) or EXTRA_CLASSES.get(q) == relf
        dd = n.get("definitionData") or {}
        fields, ctors = [], []
        for c in kids(n):
            k = c.get("kind")
            if k == "FieldDecl":
                if not c.get("name"):
                    if scope:
                        raise T.TranslateError("unnamed member (anonymous union / bit-field padding) in %s" % q)
                    continue
                kind = self.classify(c, q) if scope else "other"
                _, fl = loc_of(c)
                fields.append({"name": c["name"], "type": qual(c), "kind": kind, "init": bool(c.get("hasInClassInitializer")),
                               "line": fl})
                self.field_by_id[c["id"]] = (q, c["name"], kind)
            elif k in ("CXXMethodDecl", "CXXConstructorDecl", "CXXDestructorDecl", "CXXConversionDecl"):
                self.register_method(c, q)
                if k == "CXXConstructorDecl" and c.get("mangledName"):
                    ctors.append(c["mangledName"])
                if k == "CXXConstructorDecl" and c.get("inherited"):
                    raise T.TranslateError("inherited constructor in %s" % q)
            elif k == "FunctionTemplateDecl":
                for d in kids(c):
                    if d.get("kind") in ("CXXMethodDecl", "CXXConstructorDecl") and d.get("id"):
                        if d.get("kind") == "CXXConstructorDecl" and scope:
                            raise T.TranslateError("constructor template in %s" % q)
            elif k in ("UsingShadowDecl", "ConstructorUsingShadowDecl") and scope and k == "ConstructorUsingShadowDecl":
                raise T.TranslateError("inherited constructor in %s" % q)
        bases = []
        for b in n.get("bases") or []:
            bt = (b.get("type") or {})
            bases.append(bt.get("desugaredQualType", bt.get("qualType", "")))
            if b.get("isVirtual") and scope:
                raise T.TranslateError("virtual base in %s" % q)
        self.records[q] = {"file": relf, "line": line, "scope": bool(scope), "local": local, "fields": fields, "ctors": ctors,
                           "bases": bases, "defaultCtor": dd.get("defaultCtor") or {}, "aggregate": bool(dd.get("isAggregate")),
                           "tag": n.get("tagUsed", "class")}

    def classify(self, field, owner):
        t = desugared(field).strip()
        t = re.sub(r"^(const|volatile)\s+", "", t)
        t = re.sub(r"\s+(const|volatile)$", "", t)
        if t.endswith("&"):
            return "reference"
        if t.endswith("*") or "(*)" in t:
            return "pointer"
        if "[" in t and t.endswith("]"):
            raise T.TranslateError("array member %s::%s of type %s" % (owner, field.get("name"), t))
        if t in BUILTIN:
            return {"bool": "bool", "float": "float", "double": "float", "long double": "float"}.get(t, "int")
        bare = re.sub(r"^(enum|struct|class)\s+", "", t)
        if bare in self.enums or any(e.endswith("::" + bare) for e in self.enums):
            return "enum"
        if bare in self.records or bare in self.rec_by_id.values() or re.match(r"(std|Eigen|boost|lemon|__gnu_cxx)::", bare):
            return "class"
        if any(r.endswith("::" + bare) for r in list(self.records) + list(self.rec_by_id.values())):
            return "class"
        raise T.TranslateError("cannot classify the type %s of member %s::%s" % (t, owner, field.get("name")))

    # ---- expressions ----------------------------------------------------------------------
    def record_of_type(self, t):
        """Qualified name of the record a type string denotes (by value), or None."""
        t = re.sub(r"^(const|volatile)\s+", "", t.strip())
        t = re.sub(r"^(struct|class)\s+", "", t)
        if t in self.records:
            return t
        cands = [r for r in self.records if r.endswith("::" + t) or t.endswith("::" + r)]
        if len(cands) == 1:
            return cands[0]
        return None

    def expr_events(self, e, obj, out, cond=False, lhs_ok=True):
        """Append to `out` the events of expression e about object `obj` (("this",) or ("var", id)).
        Order: reads first, then calls, then plain writes (see module docstring)."""
        reads, calls, writes = [], [], []
        self._expr(e, obj, reads, calls, writes, cond)
        out.extend(reads)
        if len(calls) > 1:
            calls = [("alt", [c], []) if c[0] == "call" else c for c in calls]
        out.extend(calls)
        out.extend(writes)

    def is_obj(self, e, obj):
        e = strip(e)
        if not e:
            return False
        if obj[0] == "this":
            return e.get("kind") == "CXXThisExpr"
        return e.get("kind") == "DeclRefExpr" and (e.get("referencedDecl") or {}).get("id") == obj[1]

    def member_of_obj(self, e, obj):
        """(record, field, kind) if e is `obj.field` / `this->field`, else None."""
        e = strip(e)
        if e and e.get("kind") == "MemberExpr":
            ks = kids(e)
            if ks and self.is_obj(ks[0], obj):
                f = self.field_by_id.get(e.get("referencedMemberDecl"))
                if f:
                    return f
        return None

    def _expr(self, e, obj, reads, calls, writes, cond):
        if not isinstance(e, dict) or not e:
            return
        k = e.get("kind")
        if k in ("CXXRecordDecl", "TypedefDecl", "TypeAliasDecl", "StaticAssertDecl", "UsingDecl", "EnumDecl", "FunctionDecl",
                 "UsingDirectiveDecl", "NamespaceAliasDecl"):
            return
        if k == "LambdaExpr":
            body = [c for c in kids(e) if c.get("kind") == "CompoundStmt"]
            for c in kids(e):
                if c.get("kind") in ("CXXRecordDecl", "CompoundStmt"):
                    continue
                if c.get("kind") == "CXXThisExpr" and obj[0] == "this":
                    continue   # capture of `this`: the body is analysed below
                self._expr(c, obj, reads, calls, writes, cond)
            for b in body:
                inner = self.stmt_events(b, obj)
                if inner:
                    calls.append(("opaque", inner))
            return
        if k == "BinaryOperator" and e.get("opcode") == "=":
            l, r = kids(e)
            m = self.member_of_obj(l, obj)
            self._expr(r, obj, reads, calls, writes, cond)
            if m:
                if m[2] != "class":
                    w = ("w", m[0], m[1])
                    writes.append(("alt", [w], []) if cond else w)
                return
            self._expr(l, obj, reads, calls, writes, cond)
            return
        if k == "MemberExpr":
            ks = kids(e)
            if ks and self.is_obj(ks[0], obj):
                f = self.field_by_id.get(e.get("referencedMemberDecl"))
                if f:
                    if f[2] != "class":
                        reads.append(("r", f[0], f[1]))
                    return
                # a member function named without a call (bound member function): only inside calls, handled there
                if self.method_by_id.get(e.get("referencedMemberDecl")):
                    reads.append(("readAll",))
                    return
                raise T.TranslateError("member %s of the tracked object is neither a known field nor a method (%s)" % (e.get("name"), self.rel))
            for c in ks:
                self._expr(c, obj, reads, calls, writes, cond)
            return
        if k in ("CXXMemberCallExpr", "CXXOperatorCallExpr", "CallExpr"):
            ks = kids(e)
            callee = strip(ks[0]) if ks else None
            if k == "CXXMemberCallExpr" and callee and callee.get("kind") == "MemberExpr":
                cb = kids(callee)
                if cb and self.is_obj(cb[0], obj):
                    m = self.method_by_id.get(callee.get("referencedMemberDecl"))
                    if not m:
                        raise T.TranslateError("call of an unknown member function %s on the tracked object (%s)" % (callee.get("name"), self.rel))
                    for a in ks[1:]:
                        self._expr(a, obj, reads, calls, writes, cond)
                    c = ("call", m)
                    calls.append(("alt", [c], []) if cond else c)
                    return
            if k == "CXXOperatorCallExpr" and len(ks) >= 2 and self.is_obj(ks[1], obj):
                # operator on the whole object (operator=, operator(), comparison ...): a member function call
                cal = strip(ks[0])
                m = self.method_by_id.get((cal.get("referencedDecl") or {}).get("id")) if cal else None
                if m:
                    for a in ks[2:]:
                        self._expr(a, obj, reads, calls, writes, cond)
                    c = ("call", m)
                    calls.append(("alt", [c], []) if cond else c)
                    return
            for c in ks:
                self._expr(c, obj, reads, calls, writes, cond)
            return
        if k == "CXXThisExpr":
            if obj[0] == "this":
                reads.append(("readAll",))
            return
        if k == "DeclRefExpr":
            if obj[0] == "var" and (e.get("referencedDecl") or {}).get("id") == obj[1]:
                reads.append(("readAll",))
            return
        if k == "ConditionalOperator":
            ks = kids(e)
            self._expr(ks[0], obj, reads, calls, writes, cond)
            for c in ks[1:]:
                self._expr(c, obj, reads, calls, writes, True)
            return
        if k == "BinaryOperator" and e.get("opcode") in ("&&", "||"):
            ks = kids(e)
            self._expr(ks[0], obj, reads, calls, writes, cond)
            self._expr(ks[1], obj, reads, calls, writes, True)
            return
        if k == "CXXThrowExpr":
            for c in kids(e):
                self._expr(c, obj, reads, calls, writes, cond)
            calls.append(("alt", [("stop",)], []) if cond else ("stop",))
            return
        if k in ("StmtExpr", "GotoStmt", "IndirectGotoStmt", "CoawaitExpr", "CoyieldExpr"):
            raise T.TranslateError("unsupported expression kind %s in %s" % (k, self.rel))
        if k == "VarDecl" or k == "DeclStmt" or k == "CompoundStmt":
            # inside a lambda-less expression this should not happen
            raise T.TranslateError("declaration inside an expression (%s) in %s" % (k, self.rel))
        for c in kids(e):
            self._expr(c, obj, reads, calls, writes, cond)

    # ---- statements -----------------------------------------------------------------------
    def stmt_events(self, s, obj):
        out = []
        self._stmt(s, obj, out)
        return out

    def _stmt(self, s, obj, out):
        if not isinstance(s, dict) or not s:
            return
        k = s.get("kind")
        if "valueCategory" in s:      # an expression used as a statement
            self.expr_events(s, obj, out)
            return
        if k == "CompoundStmt":
            for c in kids(s):
                self._stmt(c, obj, out)
            return
        if k == "DeclStmt":
            for d in kids(s):
                dk = d.get("kind")
                if dk == "VarDecl":
                    if obj[0] == "var" and d.get("id") == obj[1]:
                        continue      # the tracked variable's own declaration: handled by the lifecycle builder
                    for c in kids(d):
                        if "valueCategory" in c:
                            self.expr_events(c, obj, out)
                elif dk == "DecompositionDecl":
                    for c in kids(d):
                        if "valueCategory" in c:
                            self.expr_events(c, obj, out)
                elif dk in ("CXXRecordDecl", "TypedefDecl", "TypeAliasDecl", "StaticAssertDecl", "UsingDecl", "EnumDecl",
                            "UsingDirectiveDecl", "FunctionDecl", "NamespaceAliasDecl", "BindingDecl"):
                    continue
                else:
                    raise T.TranslateError("unsupported declaration kind %s in a function body (%s)" % (dk, self.rel))
            return
        if k == "IfStmt":
            ks = raw_kids(s)
            parts = [c for c in ks if c]
            # children: [init] [condvar] cond then [else]; identify by flags
            idx = 0
            if s.get("hasInit"):
                self._stmt(parts[idx], obj, out)
                idx += 1
            if s.get("hasVar"):
                self._stmt(parts[idx], obj, out)
                idx += 1
            self.expr_events(parts[idx], obj, out)
            then = self.stmt_events(parts[idx + 1], obj)
            els = self.stmt_events(parts[idx + 2], obj) if s.get("hasElse") and len(parts) > idx + 2 else []
            if len(parts) > idx + 3 or (len(parts) > idx + 2 and not s.get("hasElse")):
                raise T.TranslateError("if statement with an unexpected number of children in %s" % self.rel)
            if then or els:
                out.append(("alt", then, els))
            return
        if k == "ForStmt":
            ks = raw_kids(s)
            if len(ks) != 5:
                raise T.TranslateError("for statement with %d children in %s" % (len(ks), self.rel))
            init, condvar, cnd, inc, body = ks
            self._stmt(init, obj, out)
            self._stmt(condvar, obj, out)
            c_ev = []
            if cnd:
                self.expr_events(cnd, obj, c_ev)
            out.extend(c_ev)
            b = self.stmt_events(body, obj)
            if b:
                out.append(("opaque", b))
            i_ev = []
            if inc:
                self.expr_events(inc, obj, i_ev)
            if i_ev or c_ev:
                out.append(("opaque", i_ev + c_ev))
            return
        if k == "WhileStmt":
            ks = kids(s)
            for c in ks[:-1]:
                self._stmt(c, obj, out)
            b = self.stmt_events(ks[-1], obj)
            if b:
                out.append(("opaque", b))
            return
        if k == "DoStmt":
            ks = kids(s)
            b = self.stmt_events(ks[0], obj)
            if b:
                out.append(("opaque", b))
            c_ev = []
            for c in ks[1:]:
                self.expr_events(c, obj, c_ev)
            if c_ev:
                out.append(("opaque", c_ev))
            return
        if k == "CXXForRangeStmt":
            ks = kids(s)
            for c in ks[:-1]:
                if c.get("kind") == "DeclStmt" or "valueCategory" not in c:
                    self._stmt(c, obj, out)
                else:
                    self.expr_events(c, obj, out)
            b = self.stmt_events(ks[-1], obj)
            if b:
                out.append(("opaque", b))
            return
        if k == "SwitchStmt":
            ks = kids(s)
            for c in ks[:-1]:
                self._stmt(c, obj, out)
            body = ks[-1]
            if body.get("kind") != "CompoundStmt":
                raise T.TranslateError("switch whose body is not a compound statement in %s" % self.rel)
            # every case label is an entry point: one opaque block per label, from the label to the end of the
            # body (fall-through included; `break` ends the block)
            bs = kids(body)
            for n in T.walk(body):
                if n.get("kind") in ("CaseStmt", "DefaultStmt") and not any(n is b for b in bs) and \
                        not any(n is x for b in bs if b.get("kind") in ("CaseStmt", "DefaultStmt") for x in self.label_chain(b)):
                    raise T.TranslateError("case label nested inside another statement in %s" % self.rel)
            starts = [i for i, b in enumerate(bs) if b.get("kind") in ("CaseStmt", "DefaultStmt")]
            if bs and (not starts or starts[0] != 0):
                raise T.TranslateError("switch body does not start with a case label in %s" % self.rel)
            for i in starts:
                seg = []
                for b in bs[i:]:
                    self._stmt(b, obj, seg)
                if seg:
                    out.append(("opaque", seg))
            return
        if k in ("CaseStmt", "DefaultStmt", "AttributedStmt"):
            for c in kids(s):
                self._stmt(c, obj, out)
            return
        if k == "CXXTryStmt":
            for c in kids(s):
                b = self.stmt_events(c, obj)
                if b:
                    out.append(("opaque", b))
            return
        if k == "CXXCatchStmt":
            for c in kids(s):
                if c.get("kind") == "VarDecl":
                    continue
                self._stmt(c, obj, out)
            return
        if k == "ReturnStmt":
            for c in kids(s):
                self.expr_events(c, obj, out)
            out.append(("ret",))
            return
        if k in ("BreakStmt", "ContinueStmt"):
            out.append(("stop",))
            return
        if k in ("NullStmt",):
            return
        if k == "VarDecl":      # condition variable
            for c in kids(s):
                if "valueCategory" in c:
                    self.expr_events(c, obj, out)
            return
        raise T.TranslateError("unsupported statement kind %s in %s" % (k, self.rel))

    @staticmethod
    def label_chain(n):
        """`case 1: case 2: stmt` nests the labels: the chain of directly nested labels."""
        out = [n]
        while True:
            nxt = [c for c in kids(out[-1]) if c.get("kind") in ("CaseStmt", "DefaultStmt")]
            if not nxt:
                return out
            out.append(nxt[-1])

    # ---- functions ------------------------------------------------------------------------
    def collect_functions(self):
        for o in self.objs:
            self.walk_decl(o, [])

    def walk_decl(self, n, ctx):
        k = n.get("kind")
        if k in ("NamespaceDecl", "LinkageSpecDecl", "CXXRecordDecl"):
            name = n.get("name") or ("(anonymous namespace)" if k == "NamespaceDecl" else "(unnamed)")
            for c in kids(n):
                self.walk_decl(c, ctx + ([name] if k != "LinkageSpecDecl" else []))
            return
        if k == "FunctionTemplateDecl":
            f, _ = loc_of(n)
            if self.in_dirs(f):
                for c in kids(n):
                    if c.get("kind") in ("FunctionDecl", "CXXMethodDecl") and any(x.get("kind") == "CompoundStmt" for x in kids(c)):
                        # the pattern and its instantiations: analysed like ordinary functions for construction sites
                        self.function(c, ctx, template=True)
            return
        if k in ("FunctionDecl", "CXXMethodDecl", "CXXConstructorDecl", "CXXDestructorDecl", "CXXConversionDecl"):
            self.function(n, ctx)

    def function(self, n, ctx, template=False):
        body = [c for c in kids(n) if c.get("kind") == "CompoundStmt"]
        if not body:
            return
        f, line = loc_of(n)
        relf = self.rel_file(f)
        if not relf.startswith("src/"):
            return
        if n.get("id") in self.seen_ids:
            return
        self.seen_ids.add(n.get("id"))
        k = n.get("kind")
        cls = self.rec_by_id.get(n.get("parentDeclContextId")) if k != "FunctionDecl" else None
        if cls is None and k != "FunctionDecl":
            # in-class definition
            cls = "::".join(ctx) if "::".join(ctx) in self.records else None
        mangled = n.get("mangledName") or ("%s@%s:%d" % (n.get("name"), relf, line))
        qname = ((cls + "::") if cls else ("::".join(ctx) + "::" if ctx else "")) + (n.get("name") or "?")
        in_scope_cls = bool(cls and self.records.get(cls, {}).get("scope"))
        if cls and in_scope_cls and not (n.get("isImplicit") and k == "CXXConstructorDecl" and self.is_copy_or_move(n, cls)):
            info = self.method_info.get(mangled) or {}
            if info.get("virtual") or n.get("virtual"):
                raise T.TranslateError("virtual member function %s: dynamic dispatch is not modelled" % qname)
            ev = []
            if k == "CXXConstructorDecl":
                ev = self.ctor_initialisers(n, cls, qname)
            if n.get("storageClass") != "static":
                self._stmt(body[0], ("this",), ev)
            self.funcs[mangled] = {"name": qname, "cls": cls, "kind": k, "type": qual(n), "file": relf, "line": line,
                                   "events": ev, "implicit": bool(n.get("isImplicit")), "static": n.get("storageClass") == "static"}
        # construction sites and local-variable lifecycles (functions of the analysed directories and of Circuit)
        if self.in_dirs(f) or relf in ("src/coloquinte.cpp", "src/coloquinte.hpp"):
            self.construction_sites(n, body[0], qname, relf)

    def is_copy_or_move(self, n, cls):
        ps = [c for c in kids(n) if c.get("kind") == "ParmVarDecl"]
        if len(ps) != 1:
            return False
        t = desugared(ps[0])
        t = re.sub(r"\s*&&?$", "", re.sub(r"^const\s+", "", t)).strip()
        return self.record_of_type(t) == cls

    def ctor_initialisers(self, n, cls, qname):
        ev = []
        for c in kids(n):
            if c.get("kind") != "CXXCtorInitializer":
                continue
            inner = kids(c)
            if "anyInit" in c:
                fld = self.field_by_id.get(c["anyInit"].get("id"))
                if not fld:
                    raise T.TranslateError("mem-initialiser of %s for an unknown member %s" % (qname, c["anyInit"].get("name")))
                for x in inner:
                    self.expr_events(x, ("this",), ev)
                if fld[2] != "class":
                    ev.append(("w", fld[0], fld[1]))
            elif "baseInit" in c:
                bt = c["baseInit"]
                base = self.record_of_type(bt.get("desugaredQualType", bt.get("qualType", "")))
                if base is None:
                    raise T.TranslateError("base initialiser of %s for an unknown class %s" % (qname, bt.get("qualType")))
                ce = strip(inner[0]) if inner else None
                if not ce or ce.get("kind") != "CXXConstructExpr":
                    raise T.TranslateError("base initialiser of %s is not a constructor call" % qname)
                for x in kids(ce):
                    self.expr_events(x, ("this",), ev)
                ev.append(("ctor", base, (ce.get("ctorType") or {}).get("qualType", ""), bool(ce.get("zeroing")), bool(ce.get("list"))))
            elif "delegatingInit" in c:
                ce = strip(inner[0]) if inner else None
                if not ce or ce.get("kind") != "CXXConstructExpr":
                    raise T.TranslateError("delegating initialiser of %s is not a constructor call" % qname)
                for x in kids(ce):
                    self.expr_events(x, ("this",), ev)
                ev.append(("ctor", cls, (ce.get("ctorType") or {}).get("qualType", ""), False, False))
            else:
                raise T.TranslateError("constructor initialiser of unknown shape in %s" % qname)
        return ev

    # ---- construction sites ---------------------------------------------------------------
    def construction_sites(self, fn, body, qname, relf):
        """Every place in this function that creates an object of a record in scope."""
        var_inits, call_inits = set(), set()

        def site(cls, how, ctor_type, line, var=None, var_id=None, zeroing=False):
            self.sites.append({"cls": cls, "how": how, "ctorType": ctor_type, "function": qname, "file": relf, "line": line,
                               "var": var, "zeroing": zeroing, "events": None, "_var_id": var_id})
            return self.sites[-1]

        ret_cls = self.record_of_type(re.sub(r"\s*\(.*$", "", qual(fn)))
        fn_key = fn.get("mangledName")
        if ret_cls is not None and not scoped_rec(self, ret_cls):
            ret_cls = None
        if ret_cls is not None and fn_key:
            self.returns.setdefault(fn_key, {"name": qname, "rets": []})

        def scoped(cls):
            return cls is not None and self.records[cls]["scope"] and any(f["kind"] != "class" for f in self.all_fields(cls))

        def describe_init(e, cls):
            """How the expression e creates an object of cls: (how, ctorType, zeroing)."""
            e0 = strip(e)
            k = e0.get("kind")
            if k in ("CXXConstructExpr", "CXXTemporaryObjectExpr"):
                ct = (e0.get("ctorType") or {}).get("qualType", "")
                if self.ctor_is_copy(ct, cls):
                    return ("copy", ct, False)
                return ("ctor", ct, bool(e0.get("zeroing")))
            if k == "InitListExpr":
                return ("aggregate", "", False)
            if k == "CXXFunctionalCastExpr" or k == "CXXStaticCastExpr":
                ks = kids(e0)
                if len(ks) == 1:
                    return describe_init(ks[0], cls)
            if k in ("CallExpr", "CXXMemberCallExpr", "CXXOperatorCallExpr") and e0.get("valueCategory") == "prvalue":
                callee = self.callee_of(e0)
                if callee is None:
                    raise T.TranslateError("cannot name the function whose result initialises an object of %s in %s" % (cls, qname))
                return ("call", callee, False)
            return ("copy", "", False)      # the value of another object

        def rec(n, in_lambda):
            k = n.get("kind")
            if k == "ReturnStmt" and not in_lambda and ret_cls is not None and fn_key and kids(n):
                e0 = strip(kids(n)[0])
                how, ct, z = describe_init(e0, ret_cls)
                if how in ("ctor", "aggregate") and e0.get("kind") in ("CXXConstructExpr", "CXXTemporaryObjectExpr", "InitListExpr"):
                    var_inits.add(id(e0))
                if how == "call":
                    call_inits.add(id(e0))
                _, line = loc_of_range(n)
                self.returns[fn_key]["rets"].append({"how": how, "ctorType": ct, "zeroing": z, "line": line})
            if k == "VarDecl":
                t = desugared(n)
                cls = self.record_of_type(t)
                if scoped(cls) and n.get("storageClass") != "static":
                    _, line = loc_of(n)
                    init = [c for c in kids(n) if "valueCategory" in c]
                    if not init:
                        s = site(cls, "default", "void ()", line, n.get("name"), n.get("id"))
                    else:
                        how, ct, z = describe_init(init[0], cls)
                        s = site(cls, how, ct, line, n.get("name"), n.get("id"), z)
                        e0 = strip(init[0])
                        if e0.get("kind") in ("CXXConstructExpr", "CXXTemporaryObjectExpr", "InitListExpr"):
                            var_inits.add(id(e0))
                        if how == "call":
                            call_inits.add(id(e0))
                elif scoped(cls) and n.get("storageClass") == "static":
                    raise T.TranslateError("function-local static of class %s in %s" % (cls, qname))
            elif k in ("CXXConstructExpr", "CXXTemporaryObjectExpr") and id(n) not in var_inits:
                cls = self.record_of_type(desugared(n))
                if scoped(cls):
                    ct = (n.get("ctorType") or {}).get("qualType", "")
                    if not self.ctor_is_copy(ct, cls):
                        _, line = loc_of_range(n)
                        site(cls, "ctor", ct, line, None, None, bool(n.get("zeroing")))
            elif k == "InitListExpr" and id(n) not in var_inits:
                cls = self.record_of_type(desugared(n))
                if scoped(cls):
                    _, line = loc_of_range(n)
                    site(cls, "aggregate", "", line)
            elif k == "CXXNewExpr":
                t = desugared(n).rstrip("* ").strip()
                cls = self.record_of_type(t)
                if scoped(cls) and not any(c.get("kind") in ("CXXConstructExpr", "InitListExpr") for c in T.walk(n) if c is not n):
                    _, line = loc_of_range(n)
                    site(cls, "default", "void ()", line)
            elif k in ("CallExpr", "CXXMemberCallExpr", "CXXOperatorCallExpr") and n.get("valueCategory") == "prvalue" \
                    and id(n) not in call_inits:
                cls = self.record_of_type(desugared(n))
                if scoped(cls):
                    callee = self.callee_of(n)
                    _, line = loc_of_range(n)
                    if callee is None:
                        raise T.TranslateError("cannot name the function that returns an object of %s in %s" % (cls, qname))
                    site(cls, "call", callee, line)
            for c in kids(n):
                if c.get("kind") == "CXXRecordDecl":
                    continue
                rec(c, in_lambda or k == "LambdaExpr")

        def loc_of_range(n):
            b = (n.get("range") or {}).get("begin") or {}
            if "_file" not in b:
                b = b.get("expansionLoc") or b.get("spellingLoc") or {}
            return b.get("_file", ""), b.get("_line", 0)
        # mem-initialisers are sites too
        for c in kids(fn):
            if c.get("kind") == "CXXCtorInitializer":
                rec(c, False)
        n0 = len(self.sites)
        rec(body, False)
        # lifecycles of the local variables
        for s in self.sites:
            if s.get("_var_id") and s["events"] is None and s["function"] == qname:
                s["events"] = self.stmt_events(body, ("var", s["_var_id"]))

    def callee_of(self, call):
        ks = kids(call)
        c = strip(ks[0]) if ks else None
        if not c:
            return None
        if c.get("kind") == "MemberExpr":
            return self.fn_by_id.get(c.get("referencedMemberDecl"))
        if c.get("kind") == "DeclRefExpr":
            return self.fn_by_id.get((c.get("referencedDecl") or {}).get("id"))
        return None

    def ctor_is_copy(self, ctor_type, cls):
        m = re.match(r"^void \((.*)\)( noexcept)?$", ctor_type or "")
        if not m:
            return False
        a = m.group(1).strip()
        if "," in re.sub(r"<[^<>]*>", "", a):
            return False
        a = re.sub(r"\s*&&?$", "", re.sub(r"^const\s+", "", a)).strip()
        return bool(a) and self.record_of_type(a) == cls

    def all_fields(self, cls, seen=()):
        r = self.records.get(cls)
        if not r:
            return []
        out = []
        for b in r["bases"]:
            bq = self.record_of_type(b)
            if bq and bq not in seen:
                out += self.all_fields(bq, seen + (cls,))
        return out + [dict(f, owner=cls) for f in r["fields"]]

    def result(self):
        sites = [{k: v for k, v in s.items() if not k.startswith("_")} for s in self.sites]
        return {"rel": self.rel, "records": self.records, "methods": self.method_info, "funcs": self.funcs, "sites": sites,
                "returns": self.returns}


def scoped_rec(unit, cls):
    return cls is not None and unit.records[cls]["scope"] and any(f["kind"] != "class" for f in unit.all_fields(cls))


def toplevel_class_names(repo):
    """Names declared with `class X {` / `struct X {` at column 0 in the headers and sources of DIRS (used to find
    classes outside namespace coloquinte, which the AST filter would otherwise miss)."""
    names = {}
    for d in DIRS:
        for fn in sorted(os.listdir(os.path.join(repo, d))):
            if fn.endswith((".hpp", ".h", ".cpp")):
                src = open(os.path.join(repo, d, fn), errors="replace").read()
                for m in re.finditer(r"^(?:class|struct)\s+(\w+)\s*(?::[^;{]*)?\{", src, re.M):
                    names.setdefault(m.group(1), d + "/" + fn)
    return names


def unit_worker(args):
    repo, rel, extra = args
    try:
        return Unit(repo, rel, extra).result()
    except T.TranslateError as e:
        return {"error": "%s: %s" % (rel, e)}


# ---------------------------------------------------------------------------------------------
# merge + table
# ---------------------------------------------------------------------------------------------

def lean_str(s):
    return '"' + str(s).replace("\\", "\\\\").replace('"', '\\"') + '"'


def short(q):
    return q.replace("coloquinte::", "").replace("(anonymous namespace)::", "")


class Table:
    def __init__(self, units):
        self.units = units
        self.records, self.methods, self.funcs, self.sites, self.returns = {}, {}, {}, [], {}
        for u in units:
            for q, r in u["records"].items():
                if not r["scope"]:
                    # still needed for base-class resolution
                    self.records.setdefault(q, r)
                    continue
                old = self.records.get(q)
                if old and old["scope"]:
                    if [f["name"] for f in old["fields"]] != [f["name"] for f in r["fields"]] or old["file"] != r["file"]:
                        if old["local"] or r["local"]:
                            raise T.TranslateError("two different local classes are both named %s" % q)
                        raise T.TranslateError("class %s has different members in different translation units" % q)
                    # union of the constructors seen (implicit ones are declared lazily, per TU)
                    for c in r["ctors"]:
                        if c not in old["ctors"]:
                            old["ctors"].append(c)
                    if r["defaultCtor"] and not old["defaultCtor"]:
                        old["defaultCtor"] = r["defaultCtor"]
                else:
                    self.records[q] = r
            for m, i in u["methods"].items():
                old = self.methods.setdefault(m, i)
                for k in ("virtual", "deleted", "implicit"):
                    old[k] = old[k] or i[k]
            for m, f in u["funcs"].items():
                old = self.funcs.get(m)
                if old and old["events"] != f["events"]:
                    raise T.TranslateError("function %s is summarised differently in two translation units" % f["name"])
                self.funcs.setdefault(m, f)
            self.sites += [dict(s, tu=u["rel"]) for s in u["sites"]]
            for m, rs in u.get("returns", {}).items():
                old = self.returns.get(m)
                if old is not None and old != rs:
                    raise T.TranslateError("function %s returns differently in two translation units" % m)
                self.returns[m] = rs
        self.scope = sorted((q for q, r in self.records.items() if r["scope"]), key=lambda q: (self.records[q]["file"], self.records[q]["line"]))
        self.member_ids, self.member_rows = {}, []
        self.fn_ids, self.fn_rows = {}, []

    def rec_of(self, t):
        t = re.sub(r"^(const|volatile)\s+", "", t.strip())
        t = re.sub(r"^(struct|class)\s+", "", t)
        if t in self.records:
            return t
        c = [r for r in self.records if r.endswith("::" + t) or t.endswith("::" + r)]
        return c[0] if len(c) == 1 else None

    def all_fields(self, cls, seen=()):
        r = self.records[cls]
        out = []
        for b in r["bases"]:
            bq = self.rec_of(b)
            if bq is None:
                if re.match(r"(std|Eigen|boost)::", b):
                    continue
                raise T.TranslateError("base class %s of %s is not known" % (b, cls))
            if bq not in seen:
                out += self.all_fields(bq, seen + (cls,))
        return out + [dict(f, owner=cls) for f in r["fields"]]

    def scalar_fields(self, cls):
        return [f for f in self.all_fields(cls) if f["kind"] != "class"]

    def mid(self, owner, name):
        key = (owner, name)
        if key not in self.member_ids:
            f = next((x for x in self.records[owner]["fields"] if x["name"] == name), None)
            if f is None:
                raise T.TranslateError("event about an unknown member %s::%s" % (owner, name))
            self.member_ids[key] = len(self.member_rows)
            self.member_rows.append({"cls": owner, "name": name, "type": f["type"], "kind": f["kind"], "line": f["line"],
                                     "file": self.records[owner]["file"]})
        return self.member_ids[key]

    # ---- constructors -----------------------------------------------------------------------
    def ctor_list(self, cls):
        """[(label, fn key or synthetic events, kind)] of the constructors of cls that can create an object from
        something that is not an object of the same class."""
        r = self.records[cls]
        out = []
        has_user_ctor = False
        for m in r["ctors"]:
            i = self.methods[m]
            if i["deleted"]:
                continue
            if self.is_copy_type(i["type"], cls):
                if not i["implicit"] and not i["defaulted"]:
                    has_user_ctor = True
                    if m not in self.funcs:
                        raise T.TranslateError("user-provided copy/move constructor of %s has no definition in the analysed files" % cls)
                    out.append((m, "user"))
                continue
            if i["implicit"] or i["defaulted"]:
                if self.nparams(i["type"]) != 0:
                    raise T.TranslateError("implicit constructor of %s with parameters" % cls)
                continue    # the implicit / defaulted default constructor is synthesised below
            has_user_ctor = True
            if m not in self.funcs:
                raise T.TranslateError("constructor %s %s has no definition in the analysed files" % (cls, i["type"]))
            out.append((m, "user"))
        dc = r["defaultCtor"]
        user_default = any(self.nparams(self.methods[m]["type"]) == 0 and k == "user" for m, k in out)
        declared_any = any(not self.methods[m]["implicit"] and not self.is_copy_type(self.methods[m]["type"], cls) for m in r["ctors"])
        if not user_default and (dc.get("exists") or not declared_any) and not dc.get("userProvided"):
            # implicit or `= default` default constructor: default member initialisers only
            deleted = any(self.methods[m]["deleted"] and self.nparams(self.methods[m]["type"]) == 0 for m in r["ctors"])
            if not deleted and (dc.get("exists") or not declared_any):
                out.append(("implicit-default:" + cls, "implicit"))
        return out

    @staticmethod
    def nparams(t):
        m = re.match(r"^void \((.*?)\)", t)
        a = m.group(1).strip() if m else ""
        if not a or a == "void":
            return 0
        depth, n = 0, 1
        for ch in a:
            if ch in "<(":
                depth += 1
            elif ch in ">)":
                depth -= 1
            elif ch == "," and depth == 0:
                n += 1
        return n

    def is_copy_type(self, t, cls):
        m = re.match(r"^void \((.*)\)( noexcept)?$", t or "")
        if not m:
            return False
        a = m.group(1).strip()
        if self.nparams(t) != 1:
            return False
        a = re.sub(r"\s*&&?$", "", re.sub(r"^const\s+", "", a)).strip()
        return self.rec_of(a) == cls

    def implicit_default_events(self, cls):
        r = self.records[cls]
        ev = []
        for b in r["bases"]:
            bq = self.rec_of(b)
            if bq:
                ev.append(("ctor", bq, "void ()", False, False))
        for f in r["fields"]:
            if f["kind"] == "class":
                fr = self.rec_of(f["type"])
                if fr and self.records[fr]["scope"] and self.is_weak(fr) and not f["init"]:
                    raise T.TranslateError("member %s::%s of weak class %s without initialiser" % (cls, f["name"], fr))
                continue
            if f["init"]:
                ev.append(("w", cls, f["name"]))
        return ev

    # ---- function table ---------------------------------------------------------------------
    def fid(self, key):
        """Index of a function (mangled name or synthetic key) in the emitted table; events are resolved lazily."""
        if key in self.fn_ids:
            return self.fn_ids[key]
        i = len(self.fn_rows)
        self.fn_ids[key] = i
        self.fn_rows.append(None)
        if key.startswith("implicit-default:"):
            cls = key.split(":", 1)[1]
            name, events, where = short(cls) + "::<implicit default constructor>", self.implicit_default_events(cls), (self.records[cls]["file"], self.records[cls]["line"])
            this_cls = cls
        elif key.startswith("value-init:"):
            cls = key.split(":", 1)[1]
            name, events, where = short(cls) + "::<value-initialisation>", [("w", f["owner"], f["name"]) for f in self.scalar_fields(cls)], (self.records[cls]["file"], self.records[cls]["line"])
            this_cls = cls
        elif key.startswith("result:"):
            _, callee, cls = key.split(":", 2)
            rs = (self.returns.get(callee) or {}).get("rets")
            if rs is None:
                raise T.TranslateError("an object of %s is created from the result of %s, whose definition is not analysed" % (cls, callee))
            if not rs:
                raise T.TranslateError("function %s returns %s by value but has no return statement" % (callee, cls))
            alts = []
            for r in rs:
                if r["how"] == "copy":
                    alts.append([("call", "copy:" + cls)])
                elif r["how"] == "aggregate":
                    alts.append([("call", "value-init:" + cls)])
                elif r["how"] == "call":
                    alts.append([("call", "result:" + r["ctorType"] + ":" + cls)])
                else:
                    alts.append([("ctor", cls, r["ctorType"], r["zeroing"], False)])
            events = alts[0]
            for a in alts[1:]:
                events = [("alt", events, a)]
            name, where, this_cls = "<result of %s>" % short(self.returns[callee]["name"]), ("", 0), cls
        elif key.startswith("copy:"):
            cls = key.split(":", 1)[1]
            name, events, where = short(cls) + "::<copy / move / result of an expression>", [("w", f["owner"], f["name"]) for f in self.scalar_fields(cls)], (self.records[cls]["file"], self.records[cls]["line"])
            this_cls = cls
        else:
            f = self.funcs.get(key)
            if f is None:
                i2 = self.methods.get(key)
                if i2 and i2["implicit"] and i2["name"] in ("operator=",):
                    # implicit copy / move assignment: every member is overwritten with a copy
                    cls = i2["cls"]
                    name, events, where = short(cls) + "::operator= <implicit>", [("w", x["owner"], x["name"]) for x in self.scalar_fields(cls)], (self.records[cls]["file"], self.records[cls]["line"])
                    this_cls = cls
                elif i2 and i2["kind"] == "CXXDestructorDecl":
                    cls = i2["cls"]
                    name, events, where, this_cls = short(cls) + "::~ <implicit>", [], (self.records[cls]["file"], self.records[cls]["line"]), cls
                else:
                    raise T.TranslateError("member function %s (%s) is called on a tracked object but has no analysed definition" %
                                           ((i2 or {}).get("name"), key))
            else:
                name, events, where, this_cls = short(f["name"]), f["events"], (f["file"], f["line"]), f["cls"]
        row = {"name": name, "file": where[0], "line": where[1], "cls": this_cls, "events": None}
        self.fn_rows[i] = row
        row["events"] = self.resolve(events, this_cls)
        return i

    def resolve_ctor(self, cls, ctor_type, zeroing, is_list):
        """Function index for `construct cls with the constructor of type ctor_type`."""
        if self.is_copy_type(ctor_type, cls):
            return self.fid("copy:" + cls)
        cands = [m for m in self.records[cls]["ctors"] if self.methods[m]["type"] == ctor_type]
        if len(cands) > 1:
            raise T.TranslateError("ambiguous constructor %s of %s" % (ctor_type, cls))
        if cands:
            i = self.methods[cands[0]]
            if not (i["implicit"] or i["defaulted"]):
                return self.fid(cands[0])
        if self.nparams(ctor_type) == 0:
            if zeroing:
                return self.fid("value-init:" + cls)
            return self.fid("implicit-default:" + cls)
        raise T.TranslateError("constructor %s of %s not found" % (ctor_type, cls))

    def resolve(self, events, this_cls):
        out = []
        for e in events:
            t = e[0]
            if t in ("r", "w"):
                out.append((t, self.mid(e[1], e[2])))
            elif t == "readAll":
                out += [("r", self.mid(f["owner"], f["name"])) for f in self.scalar_fields(this_cls)]
            elif t == "call":
                out.append(("call", self.fid(e[1])))
            elif t == "ctor":
                out.append(("call", self.resolve_ctor(e[1], e[2], e[3], e[4])))
            elif t == "alt":
                a, b = self.resolve(e[1], this_cls), self.resolve(e[2], this_cls)
                if a or b:
                    out.append(("alt", a, b))
            elif t == "opaque":
                a = self.resolve(e[1], this_cls)
                if a:
                    out.append(("opaque", a))
            elif t in ("ret", "stop"):
                out.append((t,))
            else:
                raise T.TranslateError("unknown event %r" % (e,))
        return out

    # ---- Python-side evaluation (mirrors Model/InitOrder.lean; the Lean checker is the authority) ------
    def run(self, events, cur, depth=0):
        """Returns (cur or None, exits or None, bad list).  cur: frozenset of definitely written members."""
        exits, bad = None, []
        for e in events:
            t = e[0]
            if t == "r":
                if cur is not None and e[1] not in cur:
                    bad.append(e[1])
            elif t == "w":
                if cur is not None:
                    cur = cur | {e[1]}
            elif t == "call":
                if depth > 40:
                    bad.append(-1)
                    continue
                if cur is not None:
                    c2, x2, b2 = self.run(self.fn_rows[e[1]]["events"], cur, depth + 1)
                    bad += b2
                    cur = self.meet(c2, x2)
            elif t == "alt":
                if cur is not None:
                    ca, xa, ba = self.run(e[1], cur, depth)
                    cb, xb, bb = self.run(e[2], cur, depth)
                    bad += ba + bb
                    exits = self.meet(exits, self.meet(xa, xb))
                    cur = self.meet(ca, cb)
            elif t == "opaque":
                if cur is not None:
                    _, x, b = self.run(e[1], cur, depth)
                    bad += b
                    exits = self.meet(exits, x)
            elif t == "ret":
                exits = self.meet(exits, cur)
                cur = None
            elif t == "stop":
                cur = None
        return cur, exits, bad

    @staticmethod
    def meet(a, b):
        if a is None:
            return b
        if b is None:
            return a
        return a & b

    def after_ctor(self, fidx):
        c, x, bad = self.run(self.fn_rows[fidx]["events"], frozenset())
        r = self.meet(c, x)
        return (r if r is not None else None), bad

    def is_weak(self, cls):
        return cls in self._weak

    # ---- first reader / writer in call order ---------------------------------------------------
    def first_touch(self, events, m, stack, depth=0):
        """(first function that reads m, first function that writes m) walking the events in order (calls inlined)."""
        fr = fw = None
        for e in events:
            t = e[0]
            sub = None
            if t == "r" and e[1] == m and fr is None:
                fr = stack[-1]
            elif t == "w" and e[1] == m and fw is None:
                fw = stack[-1]
            elif t == "call" and depth < 40:
                row = self.fn_rows[e[1]]
                sub = self.first_touch(row["events"], m, stack + [row["name"]], depth + 1)
            elif t == "alt":
                a = self.first_touch(e[1], m, stack, depth)
                b = self.first_touch(e[2], m, stack, depth)
                sub = (a[0] or b[0], a[1] or b[1])
            elif t == "opaque":
                sub = self.first_touch(e[1], m, stack, depth)
            if sub:
                fr = fr or sub[0]
                fw = fw or sub[1]
            if fr and fw:
                break
        return fr, fw

    # ---- build ---------------------------------------------------------------------------------
    def build(self):
        self._weak = set()
        classes = []
        # pass 1: constructors and verdicts (weakness of a class must be known before lifecycles are chosen;
        # implicit_default_events asks is_weak for member classes, which are processed first because a member's
        # class is complete before the class that contains it - order by (file, line) is not enough across
        # files, so iterate to a fixed point)
        for _ in range(3):
            self.member_ids, self.member_rows, self.fn_ids, self.fn_rows = {}, [], {}, []
            classes = []
            weak_now = set()
            for q in self.scope:
                r = self.records[q]
                scal = self.scalar_fields(q)
                own = [f for f in r["fields"] if f["kind"] != "class"]
                for f in own:
                    self.mid(q, f["name"])
                ctors = []
                for key, kind in self.ctor_list(q):
                    fi = self.fid(key)
                    after, bad = self.after_ctor(fi)
                    ctors.append({"fn": fi, "kind": kind, "after": after, "bad": bad})
                row = {"cls": q, "file": r["file"], "line": r["line"], "tag": r["tag"], "aggregate": r["aggregate"],
                       "members": [], "ctors": ctors, "classTypeMembers": [f["name"] for f in r["fields"] if f["kind"] == "class"],
                       "bases": [self.rec_of(b) or b for b in r["bases"]]}
                for f in scal:
                    mid = self.mid(f["owner"], f["name"])
                    init = all(not c["bad"] and (c["after"] is None or mid in c["after"]) for c in ctors) and bool(ctors)
                    row["members"].append({"id": mid, "ctorInit": init, "own": f["owner"] == q})
                    if not init:
                        weak_now.add(q)
                if any(c["bad"] for c in ctors):
                    weak_now.add(q)
                classes.append(row)
            if weak_now == self._weak:
                break
            self._weak = weak_now
        else:
            raise T.TranslateError("the set of weak classes did not stabilise")
        self.classes = classes
        # pass 2: lifecycles of the weak classes
        self.lifecycles = []
        counted, seen_sites = {}, set()
        for s in self.sites:
            cls = s["cls"]
            if cls not in self.records or not self.records[cls]["scope"]:
                continue
            skey = (cls, s["function"], s["file"], s["line"], s["var"], s["how"], s["ctorType"])
            if skey in seen_sites:
                continue       # the same inline function seen from another translation unit
            seen_sites.add(skey)
            counted[cls] = counted.get(cls, 0) + 1
            if cls not in self._weak:
                continue
            if s["how"] == "copy":
                first = self.fid("copy:" + cls)
            elif s["how"] == "call":
                first = self.fid("result:" + s["ctorType"] + ":" + cls)
            elif s["how"] == "aggregate":
                if not self.records[cls]["aggregate"]:
                    # list-initialisation that selects a constructor is reported as CXXConstructExpr; anything else
                    # reaching this point is not understood
                    raise T.TranslateError("initialiser list for non-aggregate class %s in %s" % (cls, s["function"]))
                first = self.fid("value-init:" + cls)     # every member named or value-initialised
            elif s["how"] == "default":
                first = self.resolve_ctor(cls, "void ()", False, False)
            else:
                first = self.resolve_ctor(cls, s["ctorType"], s["zeroing"], False)
            ev = [("call", first)]
            if s["events"] is None:
                ev += [("r", self.mid(f["owner"], f["name"])) for f in self.scalar_fields(cls)]
                kind = "handedOn"
            else:
                ev += self.resolve(s["events"], cls)
                kind = "localVar"
            key = skey
            _, _, bad = self.run(ev, frozenset())
            self.lifecycles.append({"_key": key, "cls": cls, "function": short(s["function"]), "file": s["file"], "line": s["line"],
                                    "var": s["var"] or "", "kind": kind, "how": s["how"], "events": ev,
                                    "bad": sorted(set(bad))})
        self.site_counts = counted
        # first reader / writer per not-constructor-initialised member
        for row in self.classes:
            for m in row["members"]:
                m["firstRead"], m["firstWrite"] = "", ""
                if m["ctorInit"]:
                    continue
                # local variables first (their statements are in source order), then objects handed on at once;
                # synthetic initialisers (copy, value-initialisation) are named only when nothing else writes
                for want_kind, allow_synth in (("localVar", False), ("handedOn", False), ("localVar", True), ("handedOn", True)):
                    for l in self.lifecycles:
                        if l["cls"] != row["cls"] or l["kind"] != want_kind:
                            continue
                        fr, fw = self.first_touch(l["events"], m["id"], [l["function"]])
                        if fr and not m["firstRead"]:
                            m["firstRead"] = fr
                        if fw and not m["firstWrite"] and (allow_synth or "<" not in fw):
                            m["firstWrite"] = fw
        return self


def ev_lean(e):
    t = e[0]
    if t == "r":
        return ".read %d" % e[1]
    if t == "w":
        return ".write %d" % e[1]
    if t == "call":
        return ".call %d" % e[1]
    if t == "alt":
        return ".alt %s %s" % (evs_lean(e[1]), evs_lean(e[2]))
    if t == "opaque":
        return ".opaque %s" % evs_lean(e[1])
    if t == "ret":
        return ".ret"
    if t == "stop":
        return ".stop"
    raise T.TranslateError("unknown event %r" % (e,))


def evs_lean(evs):
    return "[" + ", ".join(ev_lean(e) for e in evs) + "]"


def emit(tb):
    L = []
    L.append("import ColoVerif.Model.InitOrder")
    L.append("/-")
    L.append("Definite-initialisation table of the classes of src/place_global, src/place_detailed and of Circuit")
    L.append("(clang AST of %d translation units; digest of the analysed sources %s)." % (len(tb.units), tb.src_digest))
    L.append("See tools/gen/InitTable.py for the extraction rules and Model/InitOrder.lean for the meaning of the events.")
    L.append("-/")
    L.append("namespace ColoVerif.Gen.InitTable")
    L.append("open ColoVerif.InitOrder")
    L.append("")
    L.append("/-- every scalar non-static data member of the classes in scope; the index in this list is the member's id -/")
    L.append("def members : List MemberRow := [")
    for i, m in enumerate(tb.member_rows):
        L.append("  ⟨%s, %s, %s, .%s, %s, %d⟩%s  -- %d" % (lean_str(short(m["cls"])), lean_str(m["name"]), lean_str(m["type"]), KIND_LEAN[m["kind"]],
                                                           lean_str(m["file"]), m["line"], "," if i + 1 < len(tb.member_rows) else "", i))
    L.append("]")
    L.append("")
    L.append("/-- member functions, constructors and synthetic initialisers (implicit default constructor, value-initialisation,")
    L.append("copy); the index in this list is the function's id; `events` is what the function does to the scalar members")
    L.append("of the object it is called on -/")
    L.append("def fns : List Fn := [")
    for i, f in enumerate(tb.fn_rows):
        L.append("  ⟨%s, %s, %d, %s⟩%s  -- %d" % (lean_str(f["name"]), lean_str(f["file"]), f["line"], evs_lean(f["events"]),
                                                  "," if i + 1 < len(tb.fn_rows) else "", i))
    L.append("]")
    L.append("")
    L.append("/-- per class: its scalar members (own and inherited) with the claimed verdict `every constructor initialises it`")
    L.append("and, for the others, the first function in call order that reads / writes it (informative); the constructors")
    L.append("(function ids) that create an object from something other than an object of the same class; the number of")
    L.append("members of class type (out of scope: they have constructors of their own) -/")
    L.append("def classes : List ClassRow := [")
    for i, c in enumerate(tb.classes):
        mem = ", ".join("⟨%d, %s, %s, %s⟩" % (m["id"], "true" if m["ctorInit"] else "false", lean_str(m["firstRead"]), lean_str(m["firstWrite"]))
                        for m in c["members"])
        L.append("  ⟨%s, %s, %d, [%s], [%s], %d, %d⟩%s" % (lean_str(short(c["cls"])), lean_str(c["file"]), c["line"], mem,
                                                        ", ".join(str(x["fn"]) for x in c["ctors"]), len(c["classTypeMembers"]),
                                                        tb.site_counts.get(c["cls"], 0), "," if i + 1 < len(tb.classes) else ""))
    L.append("]")
    L.append("")
    L.append("/-- every place that creates an object of a class with a member that some constructor leaves unset: the")
    L.append("construction followed by what happens to the object (`localVar`: the statements of the enclosing function that")
    L.append("mention the variable, in source order; `handedOn`: the object is handed on at once, all members count as read) -/")
    L.append("def lifecycles : List Lifecycle := [")
    for i, l in enumerate(tb.lifecycles):
        L.append("  ⟨%s, %s, %s, %d, %s, .%s, %s⟩%s" % (lean_str(short(l["cls"])), lean_str(l["function"]), lean_str(l["file"]), l["line"], lean_str(l["var"]),
                                                     l["kind"], evs_lean(l["events"]), "," if i + 1 < len(tb.lifecycles) else ""))
    L.append("]")
    L.append("")
    L.append("def table : Table := ⟨members, fns, classes, lifecycles⟩")
    L.append("")
    L.append("end ColoVerif.Gen.InitTable")
    return "\n".join(L) + "\n"


def generate():
    names = toplevel_class_names(C.REPO)
    srcs = sorted(p for p in C.repo_sources())
    key = C.tree_hash(srcs + [os.path.abspath(__file__)], VERSION)
    cache = os.path.join(C.CACHE, "inittable-%s.json" % key)
    units = None
    if os.path.exists(cache):
        try:
            units = json.load(open(cache))
        except Exception:
            units = None
    if units is None:
        # classes outside namespace coloquinte need their own AST filter (the filter matches qualified names)
        extra = {}
        for n, f in names.items():
            src = open(os.path.join(C.REPO, f), errors="replace").read()
            if not re.search(r"namespace\s+coloquinte", src[:src.find(n)] if n in src else src):
                extra[n] = f
        jobs = []
        for rel in TUS:
            flt = []
            if extra:
                text = subprocess.run(["clang++-14", "-std=gnu++17", "-MM", "-I", os.path.join(C.REPO, "src"), "-D" + C.GUARD,
                                       os.path.join(C.REPO, rel)], stdout=subprocess.PIPE, stderr=subprocess.PIPE, text=True).stdout
                for n, f in extra.items():
                    if os.path.basename(f) in text:
                        flt.append(n)
            # one filter per family is enough when names share a prefix
            flt = sorted(set(flt))
            flt = [n for n in flt if not any(o != n and n.startswith(o) for o in flt)]
            jobs.append((C.REPO, rel, flt))
        with ProcessPoolExecutor(min(C.NCPU, len(jobs))) as ex:
            units = list(ex.map(unit_worker, jobs))
        for u in units:
            if "error" in u:
                raise T.TranslateError(u["error"])
        os.makedirs(C.CACHE, exist_ok=True)
        with open(cache + ".tmp%d" % os.getpid(), "w") as f:
            json.dump(units, f)
        os.rename(cache + ".tmp%d" % os.getpid(), cache)
    # json round trip turns tuples into lists: normalise events to tuples
    def norm(evs):
        out = []
        for e in evs or []:
            e = list(e)
            if e[0] in ("alt",):
                out.append(("alt", norm(e[1]), norm(e[2])))
            elif e[0] == "opaque":
                out.append(("opaque", norm(e[1])))
            else:
                out.append(tuple(e))
        return out
    for u in units:
        for f in u["funcs"].values():
            f["events"] = norm(f["events"])
        for s in u["sites"]:
            if s["events"] is not None:
                s["events"] = norm(s["events"])
    tb = Table(units)
    # every class name found textually must have been seen by the AST pass
    have = {short(q).split("::")[-1] for q in tb.scope}
    missing = [n for n in names if n not in have]
    if missing:
        raise T.TranslateError("classes declared in the analysed directories but absent from the AST: %s" % ", ".join(missing))
    tb.build()
    tb.src_digest = C.tree_hash(srcs)
    weak = sorted(tb._weak)
    info = {
        "classes": len(tb.classes), "scalar_members": len(tb.member_rows),
        "ctor_initialised": sum(1 for c in tb.classes for m in c["members"] if m["own"] and m["ctorInit"]),
        "not_ctor_initialised": [{"member": short(c["cls"]) + "::" + tb.member_rows[m["id"]]["name"], "firstRead": m["firstRead"], "firstWrite": m["firstWrite"]}
                                 for c in tb.classes for m in c["members"] if m["own"] and not m["ctorInit"]],
        "class_type_members_out_of_scope": sum(len(c["classTypeMembers"]) for c in tb.classes),
        "weak_classes": [short(w) for w in weak], "functions": len(tb.fn_rows), "lifecycles": len(tb.lifecycles),
        "python_read_before_write": [{"cls": short(l["cls"]), "function": l["function"], "line": l["line"], "var": l["var"],
                                      "members": [tb.member_rows[m]["name"] if m >= 0 else "<recursion>" for m in l["bad"]]}
                                     for l in tb.lifecycles if l["bad"]],
        "ctor_reads_before_write": [{"ctor": tb.fn_rows[c["fn"]]["name"], "members": [tb.member_rows[m]["name"] for m in c["bad"] if m >= 0]}
                                    for r in tb.classes for c in r["ctors"] if c["bad"]],
        "construction_sites": sum(tb.site_counts.values()),
        "constructors_leaving_members_unset": [
            {"ctor": "%s (%s:%d)" % (tb.fn_rows[c["fn"]]["name"], tb.fn_rows[c["fn"]]["file"], tb.fn_rows[c["fn"]]["line"]),
             "unset": [tb.member_rows[m["id"]]["name"] for m in r["members"] if c["after"] is not None and m["id"] not in c["after"]],
             "lifecycles_starting_with_it": sum(1 for l in tb.lifecycles if l["events"][0] == ("call", c["fn"]))}
            for r in tb.classes for c in r["ctors"]
            if any(c["after"] is not None and m["id"] not in c["after"] for m in r["members"])],
    }
    return {"InitTable.lean": emit(tb), "info": info}


if __name__ == "__main__":
    r = generate()
    if "-q" not in sys.argv:
        print(r["InitTable.lean"])
    print(json.dumps(r["info"], indent=1))
