"""Translator piece for C10 (sizes): what every member write of the public mutating API of `Circuit` does to
the LENGTH of the written member.

  src/coloquinte.cpp   the setters of Gen.Api.setters             -> Gen.ApiSizes.setters
                       Circuit(int)                               -> Gen.ApiSizes.constructors
                       expandCellsToDensity, expandCellsByFactor  -> Gen.ApiSizes.expansion

The statement skeletons are those of tools/gen/Api.py / tools/gen/ApiExpansion.py (the same functions are
called: nothing is re-derived), each `.assign "m"` replaced by `.write "m" <Eff>` and every other statement
wrapped in `.ctl`.  Lean re-checks that erasing the effects gives back Gen.Api / Gen.ApiExpansion
(`C10.sized_tables_erase_to_api`).  Effects (lean/ColoVerif/Model/BusySizes.lean `Eff`), by the shape of the write:

  m = p                    p a vector parameter               .setLen (.argSize p)
  m.push_back(x)           at the top level of the body       .setLen (.add .self (.lit 1))
  m.push_back(x)           directly in `for (.. : p)`         .setLen (.add .self (.argSize p))   (whole loop; one per element)
  m.insert(m.end(), p.begin(), p.end())                       .setLen (.add .self (.argSize p))
  m.clear()                                                   .setLen (.lit 0)
  m.resize(e [, v])        e: int parameter | k.size() - c    .setLen e
  m[i] = x, m[i] op= x                                        .elem
  m = x                    m not a vector                     .scalar
  any other mutation of a vector (in a loop, conditional)     .anyLen   (the length is not determined by sizes)
`netLimits_` additionally carries its new last element (`.setLenLast len last`): `push_back(lit)`,
`push_back(netLimits_.back() + p.size())`, `= p` (last = p.back()).  Any other write of `netLimits_`
raises TranslateError, as does any write that cannot be matched one to one with the `.assign` of the
skeleton it belongs to.
"""
import translate as T
from gen import Api as A
from gen import ApiExpansion as E

LIMITS = "netLimits_"
EXPANSION = ["expandCellsToDensity", "expandCellsByFactor"]
inner, strip, qual = A.inner, A.strip, A.qual


def err(msg):
    raise T.TranslateError("ApiSizes: " + msg)


def is_vector_member(n):
    t = (strip(n).get("type") or {})
    s = (t.get("desugaredQualType") or "") + " " + (t.get("qualType") or "")
    return "std::vector<" in s or "vector<" in s


def member_call(n):
    """`this->m.f(args)` -> (m, f, [args], member node) else None"""
    n = strip(n)
    if n.get("kind") != "CXXMemberCallExpr":
        return None
    callee = strip(inner(n)[0])
    if callee.get("kind") != "MemberExpr" or not inner(callee):
        return None
    obj = inner(callee)[0]
    m = A.is_this_member(obj)
    if m is None:
        return None
    return m, callee.get("name"), inner(n)[1:], obj


def param_call(n, fn, meth):
    """`p.meth()` with p a parameter -> index else None"""
    n = strip(n)
    while n.get("kind") in ("CXXConstructExpr",) and len(inner(n)) == 1:
        n = strip(inner(n)[0])
    if n.get("kind") != "CXXMemberCallExpr" or len(inner(n)) != 1:
        return None
    callee = strip(inner(n)[0])
    if callee.get("kind") != "MemberExpr" or callee.get("name") != meth or not inner(callee):
        return None
    return A.param_index(inner(callee)[0], fn)


def unconverted(n):
    """look through the iterator -> const_iterator conversion of `m.end()`"""
    n = strip(n)
    while (n.get("kind") == "ImplicitCastExpr" and n.get("castKind") in ("ConstructorConversion", "NoOp") or
           n.get("kind") == "CXXConstructExpr") and len(inner(n)) == 1:
        n = strip(inner(n)[0])
    return n


def strip_casts(n):
    n = strip(n)
    while n.get("kind") in ("ImplicitCastExpr", "CStyleCastExpr", "CXXStaticCastExpr", "CXXFunctionalCastExpr") and \
            n.get("castKind") in ("IntegralCast", "NoOp", "LValueToRValue") and inner(n):
        n = strip(inner(n)[0])
    return n


def lexpr(n, fn):
    """integer expression of a resize / the pushed last element -> LExpr text, or None"""
    n = strip_casts(n)
    k = n.get("kind")
    if k == "IntegerLiteral":
        return "(.lit %d)" % int(n["value"])
    if k == "DeclRefExpr":
        i = A.param_index(n, fn)
        if i is not None and qual(n) == "int":
            return "(.param %d)" % i
        return None
    if k == "CXXMemberCallExpr" and len(inner(n)) == 1:
        i = param_call(n, fn, "size")
        if i is not None:
            return "(.argSize %d)" % i
        mc = member_call(n)
        if mc and mc[1] == "size" and is_vector_member(mc[3]):
            return '(.member "%s")' % mc[0]
        if mc and mc[1] == "back" and mc[0] == LIMITS:
            return ".lastOld"
        return None
    if k == "BinaryOperator" and n.get("opcode") in ("+", "-"):
        a, b = inner(n)
        ea = lexpr(a, fn)
        if n["opcode"] == "-":
            sb = strip_casts(b)
            if sb.get("kind") != "IntegerLiteral" or ea is None:
                return None
            return "(.add %s (.lit (%d)))" % (ea, -int(sb["value"]))
        eb = lexpr(b, fn)
        if ea is None or eb is None:
            return None
        return "(.add %s %s)" % (ea, eb)
    return None


def with_last(m, length, last, fn, what):
    if m != LIMITS:
        return "(.setLen %s)" % length
    if last is None:
        err("%s: `%s` writes %s in a way whose last element is not understood" % (fn.where(), what, LIMITS))
    return "(.setLenLast %s %s)" % (length, last)


def classify(s, fn, ctx):
    """s: a statement-level expression.  ctx: 'top' | ('range', param index) | 'other'.
    Returns (member, Eff text) or None if the statement writes no member of *this directly."""
    s = strip(s)
    k = s.get("kind")
    what = (A.src_text(fn.src, s) or "")[:60]
    mc = member_call(s)
    if mc is not None and mc[1] in A.MUTATORS:
        m, f, args, obj = mc
        if not is_vector_member(obj):
            err("%s: `%s` mutates a member that is not a vector" % (fn.where(), what))
        eff = None
        if f == "clear" and not args and ctx == "top":
            eff = with_last(m, "(.lit 0)", None, fn, what)
        elif f in ("push_back", "emplace_back") and ctx == "top":
            last = lexpr(args[0], fn) if (m == LIMITS and len(args) == 1) else None
            eff = with_last(m, "(.add .self (.lit 1))", last, fn, what)
        elif f in ("push_back", "emplace_back") and isinstance(ctx, tuple) and m != LIMITS:
            eff = "(.setLen (.add .self (.argSize %d)))" % ctx[1]
        elif f == "insert" and ctx == "top" and len(args) == 3 and m != LIMITS:
            pos = member_call(unconverted(args[0]))
            b, e = param_call(args[1], fn, "begin"), param_call(args[2], fn, "end")
            if pos is not None and pos[0] == m and pos[1] == "end" and b is not None and b == e:
                eff = "(.setLen (.add .self (.argSize %d)))" % b
        elif f == "resize" and ctx == "top" and len(args) in (1, 2) and m != LIMITS:
            e = lexpr(args[0], fn)
            if e is not None:
                eff = "(.setLen %s)" % e
        if eff is None:
            if m == LIMITS:
                err("%s: `%s` writes %s in a way that is not understood" % (fn.where(), what, LIMITS))
            eff = ".anyLen"
        return m, eff
    if k in ("BinaryOperator", "CompoundAssignOperator", "CXXOperatorCallExpr"):
        ii = inner(s)
        if k == "CXXOperatorCallExpr":
            op = (strip(ii[0]).get("referencedDecl") or {}).get("name")
            if op != "operator=" or len(ii) != 3:
                return None
            lhs, rhs = ii[1], ii[2]
        else:
            if s.get("opcode") not in E.ASSIGN_OPS:
                return None
            lhs, rhs = ii
        m = A.is_this_member(lhs)
        if m is not None:
            if m == "isInUse_":
                return None
            if not is_vector_member(lhs):
                return m, ".scalar"
            i = A.param_index(rhs, fn)
            if i is not None and s.get("opcode", "=") == "=" and ctx == "top":
                return m, with_last(m, "(.argSize %d)" % i, "(.argBack %d)" % i, fn, what)
            if m == LIMITS:
                err("%s: `%s` writes %s in a way that is not understood" % (fn.where(), what, LIMITS))
            return m, ".anyLen"
        r = E.lvalue_root(lhs)
        if r[0] == "member":
            # an element of a member vector (`m[i] = x`): the root is reached through operator[] / at() only
            l = strip(lhs)
            sub = None
            if l.get("kind") == "CXXOperatorCallExpr" and len(inner(l)) == 3 and \
                    (strip(inner(l)[0]).get("referencedDecl") or {}).get("name") == "operator[]":
                sub = inner(l)[1]
            elif l.get("kind") == "ArraySubscriptExpr":
                sub = inner(l)[0]
            if sub is not None and A.is_this_member(sub) == r[1] and is_vector_member(sub) and r[1] != LIMITS:
                return r[1], ".elem"
            err("%s: `%s` writes member %s through an lvalue that is not `m[i]`" % (fn.where(), what, r[1]))
    return None


def walk_setter(fn, stmts, ctx, out):
    """mirror of the recursion of Api.stmts_of: the member writes, in the order of its `.assign`s"""
    for st in stmts:
        s = strip(st)
        k = s.get("kind")
        if k == "IfStmt":
            ii = inner(s)
            if not s.get("hasElse") and len(ii) == 2 and (A.is_throw(ii[1], fn) or A.is_return(ii[1])):
                continue
            for br in ii[1:]:
                walk_setter(fn, inner(br) if br.get("kind") == "CompoundStmt" else [br], "other", out)
            continue
        if k == "CXXForRangeStmt":
            ii = [c for c in (s.get("inner") or []) if isinstance(c, dict)]
            body = ii[-1]
            bs = A.single(body)
            if bs is not None and bs.get("kind") == "IfStmt" and len(inner(bs)) == 2 and A.is_throw(inner(bs)[1], fn):
                continue
            rangedecl = [c for c in ii if c.get("kind") == "DeclStmt"][0]
            rng = strip(inner(inner(rangedecl)[0])[0])
            ai = A.param_index(rng, fn)
            sub = ("range", ai) if (ai is not None and ctx == "top") else "other"
            walk_setter(fn, inner(body) if body.get("kind") == "CompoundStmt" else [body], sub, out)
            continue
        if k == "ForStmt":
            ii = [c for c in (s.get("inner") or []) if isinstance(c, dict)]
            body = ii[-1]
            walk_setter(fn, inner(body) if body.get("kind") == "CompoundStmt" else [body], "other", out)
            continue
        if k == "CompoundStmt":
            walk_setter(fn, inner(s), ctx, out)
            continue
        c = classify(s, fn, ctx)
        if c is not None:
            out.append(c)


def merge(fn, sts, writes):
    """replace the `.assign`s of the skeleton `sts` by the classified writes, one to one"""
    res, j = [], 0
    for st in sts:
        if st.startswith(".assign "):
            m = st[len(".assign "):].strip().strip('"')
            if j >= len(writes) or writes[j][0] != m:
                err("%s: the writes %s do not match the skeleton %s" % (fn.where(), [w[0] for w in writes], sts))
            res.append('.write "%s" %s' % (m, writes[j][1]))
            j += 1
        else:
            res.append(".ctl (%s)" % st)
    if j != len(writes):
        err("%s: %d writes were found but the skeleton has %d" % (fn.where(), len(writes), j))
    return res


def sized_setters(src):
    methods, _ = A.translate_circuit_methods()
    objs = T.clang_ast(A.CIRCUIT_CPP, "coloquinte::Circuit::")
    defs = {}
    for o in objs:
        if o.get("kind") == "CXXMethodDecl" and any(c.get("kind") == "CompoundStmt" for c in inner(o)) and o.get("previousDecl"):
            defs.setdefault(o["name"], []).append(o)
    out = []
    for name in A.SETTERS:
        if len(defs.get(name, [])) != 1:
            err("expected one out-of-line definition of Circuit::%s" % name)
        d = defs[name][0]
        fn = A.Fn("Circuit", name, d, src)
        body = [c for c in inner(d) if c.get("kind") == "CompoundStmt"][0]
        ws = []
        walk_setter(fn, inner(body), "top", ws)
        params, sts = methods[name]
        out.append((name, params, merge(fn, sts, ws)))
    return out


def sites_in(st, fn, top):
    """every direct member write inside the statement (pre-order); `top`: the statement itself is at the top level"""
    found = []
    for d in T.walk(st):
        if d.get("kind") in ("CXXMemberCallExpr", "BinaryOperator", "CompoundAssignOperator", "CXXOperatorCallExpr"):
            c = classify(d, fn, "top" if (top and strip(st) is strip(d)) else "other")
            if c is not None:
                found.append(c)
    return found


def sized_constructor(surf, src):
    params, sts = E.constructor_skeleton(surf, src)
    d = surf.definition("Circuit")
    fn = A.Fn("Circuit", "Circuit", d, src)
    body = [c for c in inner(d) if c.get("kind") == "CompoundStmt"][0]
    ws = []
    for st in inner(body):
        ws += sites_in(st, fn, True)
    return ("Circuit", params, merge(fn, sts, ws))


def sized_expansion(name, surf, src):
    params, sts = E.skeleton(name, surf, src)
    d = surf.definition(name)
    fn = A.Fn("Circuit", name, d, src)
    body = [c for c in inner(d) if c.get("kind") == "CompoundStmt"][0]
    effs = {}
    for st in inner(body):
        for m, e in sites_in(st, fn, False):
            effs.setdefault(m, set()).add(e)
    res = []
    for st in sts:
        if st.startswith(".assign "):
            m = st[len(".assign "):].strip().strip('"')
            if m not in effs:
                err("%s: no write of %s was found" % (fn.where(), m))
            if m == LIMITS:
                err("%s: writes %s" % (fn.where(), LIMITS))
            e = list(effs[m])[0] if len(effs[m]) == 1 else ".anyLen"
            res.append('.write "%s" %s' % (m, e))
        else:
            res.append(".ctl (%s)" % st)
    return (name, params, res)


GETTERS = ["nbCells", "nbNets", "nbPins"]


def size_getters(surf, src_cpp):
    """the inline `int g() const { return <e>; }` of the class, e in terms of member sizes -> (g, LExpr)"""
    hdr = T.read("src/coloquinte.hpp")
    out = []
    for g in GETTERS:
        ms = [m for m in surf.methods if m[0] == g]
        if len(ms) != 1 or not ms[0][2] or ms[0][3]:
            err("expected one const method Circuit::%s()" % g)
        d = ms[0][4]
        bodies = [c for c in inner(d) if c.get("kind") == "CompoundStmt"]
        if len(bodies) != 1 or len(inner(bodies[0])) != 1 or inner(bodies[0])[0].get("kind") != "ReturnStmt":
            err("Circuit::%s is not an inline `return e;`" % g)
        fn = A.Fn("Circuit", g, d, hdr)
        e = lexpr(inner(inner(bodies[0])[0])[0], fn)
        if e is None:
            err("Circuit::%s: return expression not understood" % g)
        out.append((g, e))
    return out


def check_clauses(surf, src):
    """`Circuit::check()`: a sequence of `if (c) throw std::runtime_error(..);` with c one of
    (int)m.size() != g()  |  m.empty()  |  m.front() != <int literal>"""
    d = surf.definition("check")
    fn = A.Fn("Circuit", "check", d, src)
    body = [c for c in inner(d) if c.get("kind") == "CompoundStmt"][0]
    out = []
    for st in inner(body):
        s = strip(st)
        ii = inner(s)
        if s.get("kind") != "IfStmt" or s.get("hasElse") or len(ii) != 2 or not A.is_throw(ii[1], fn):
            err("Circuit::check: statement `%s` is not `if (c) throw`" % (A.src_text(src, s) or "")[:60])
        c = strip_casts(ii[0])
        what = A.src_text(src, c)
        cl = None
        if c.get("kind") == "BinaryOperator" and c.get("opcode") == "!=":
            a, b = [strip_casts(x) for x in inner(c)]
            ma = member_call(a)
            if ma and ma[1] == "size" and not ma[2] and is_vector_member(ma[3]) and b.get("kind") == "CXXMemberCallExpr" and \
                    len(inner(b)) == 1:
                callee = strip(inner(b)[0])
                obj = strip(inner(callee)[0]) if inner(callee) else {}
                if obj.get("kind") == "CXXThisExpr" and callee.get("name") in GETTERS:
                    cl = '.sizeNe "%s" "%s"' % (ma[0], callee.get("name"))
            elif ma and ma[1] == "front" and not ma[2] and b.get("kind") == "IntegerLiteral":
                cl = '.frontNe "%s" %d' % (ma[0], int(b["value"]))
        else:
            mc = member_call(c)
            if mc and mc[1] == "empty" and not mc[2] and is_vector_member(mc[3]):
                cl = '.isEmpty "%s"' % mc[0]
        if cl is None:
            err("Circuit::check: condition `%s` not understood" % what)
        out.append(cl)
    return out


def fn_lean(name, params, sts):
    return '  { name := "%s", params := [%s], body := [\n      %s] }' % (
        name, ", ".join('"%s"' % p for p in params), ",\n      ".join(sts))


def generate():
    # the three pieces below ask clang for the same ASTs several times: memoise for the duration of this call
    orig, cache = T.clang_ast, {}

    def memo(rel, filt, std="gnu++17"):
        key = (rel, filt, std)
        if key not in cache:
            cache[key] = orig(rel, filt, std)
        return cache[key]
    T.clang_ast = memo
    try:
        return generate_()
    finally:
        T.clang_ast = orig


def generate_():
    src = T.read(A.CIRCUIT_CPP)
    surf = E.Surface(T.clang_ast(A.CIRCUIT_CPP, "coloquinte::Circuit"))
    setters = sized_setters(src)
    ctor = sized_constructor(surf, src)
    exp = [sized_expansion(n, surf, src) for n in EXPANSION]
    getters = size_getters(surf, src)
    clauses = check_clauses(surf, src)
    L = []
    L.append("import ColoVerif.Model.BusySizes")
    L.append("/-! The skeletons of `Gen/Api.lean` (setters) and `Gen/ApiExpansion.lean` (constructor, expansion API) with the")
    L.append("effect of every member write on the length of the written member (see tools/gen/ApiSizes.py). -/")
    L.append("namespace ColoVerif.Gen.ApiSizes")
    L.append("open ColoVerif.ApiIR ColoVerif.BusySizes")
    L.append("")
    L.append('def sourceDigests : List (String × String) := [("%s", "%s")]' % (A.CIRCUIT_CPP, T.digest(src)))
    L.append("")
    L.append("/-- every `Circuit` setter of `Gen.Api.setters`, in the same order -/")
    L.append("def setters : List SFn := [")
    L.append(",\n".join(fn_lean(*s) for s in setters))
    L.append("]")
    L.append("")
    L.append("/-- `Circuit(int nbCells)` (`Gen.ApiExpansion.constructors`) -/")
    L.append("def constructors : List SFn := [")
    L.append(fn_lean(*ctor))
    L.append("]")
    L.append("")
    L.append("/-- the public non-const methods outside `Gen.Api` that write a member (from `Gen.ApiExpansion.validated`) -/")
    L.append("def expansion : List SFn := [")
    L.append(",\n".join(fn_lean(*s) for s in exp))
    L.append("]")
    L.append("")
    L.append("/-- the inline size getters of the class: name, value in terms of the member sizes -/")
    L.append("def getters : List (String × LExpr) := [%s]" % ", ".join('("%s", %s)' % g for g in getters))
    L.append("")
    L.append("/-- `Circuit::check()`: it throws iff one of these holds, in source order -/")
    L.append("def checkClauses : List CheckClause := [\n  %s]" % ",\n  ".join(clauses))
    L.append("")
    L.append("end ColoVerif.Gen.ApiSizes")
    info = {"effects": {n: [s for s in sts if s.startswith(".write")] for (n, p, sts) in setters + [ctor] + exp}}
    return {"ApiSizes.lean": "\n".join(L) + "\n", "info": info}
