"""Translator piece for C10/C19: the statement skeleton of the public mutating API.

  src/coloquinte.cpp            every `Circuit::set*`, `addNet`, `setupRows`  -> Gen.Api.setters
                                `Circuit::placeGlobal/legalize/placeDetailed` -> Gen.Api.placementCalls
                                `Circuit::checkNotInUse` (shape verified: `if (isInUse_) throw`)
  src/place_global/place_global.cpp      `GlobalPlacer::place`     \\
  src/place_detailed/place_detailed.cpp  `DetailedPlacer::legalize` > Gen.Api.placerEntries
                                         `DetailedPlacer::place`   /

IR (lean/ColoVerif/Model/ApiIR.lean): throwIf c / returnIf c / checkNotInUse / assign member /
setInUse b / call name / scopeGuard / restoreGuard / ret / assertC c / paramsCheck / pure text.

`scopeGuard` ("from here to the end of the function the in-use flag is set and it is cleared
on every exit") is emitted only for two shapes, both checked structurally:
  (a) `G g(isInUse_);` where G is a class of this file whose constructor binds a `bool&` member
      to its argument and assigns `true` to it, whose destructor assigns `false` to it, and which
      is neither copyable nor has other members/methods;
  (a') the same class with a second member `[const] bool p`, initialised from the constructor's
      argument (the value of the flag on entry), whose destructor assigns `p` to the reference:
      the re-entrant guard, emitted as `restoreGuard` ("... and on every exit the flag gets back
      the value it had on entry");
  (b) `isInUse_ = true; try { B } catch (...) { isInUse_ = false; throw; } isInUse_ = false;`
      as the whole remainder of the body.
Plain `isInUse_ = b;` statements are emitted as `setInUse b` (that is the pre-fix shape: it
translates, and the theorems about it fail).  Anything else raises TranslateError.
"""
import common as C
import translate as T

CIRCUIT_CPP = "src/coloquinte.cpp"
SETTERS = ["addNet", "setNets", "setNetWeights", "setCellX", "setCellY", "setRows", "setCellIsFixed",
           "setCellIsObstruction", "setCellOrientation", "setCellRowPolarity", "setCellWidth", "setCellHeight",
           "setSolution", "setupRows"]
PLACEMENT = ["placeGlobal", "legalize", "placeDetailed"]
ENTRIES = [("src/place_global/place_global.cpp", "GlobalPlacer", "place"),
           ("src/place_detailed/place_detailed.cpp", "DetailedPlacer", "legalize"),
           ("src/place_detailed/place_detailed.cpp", "DetailedPlacer", "place")]
MUTATORS = {"push_back", "emplace_back", "insert", "clear", "resize", "assign", "pop_back", "erase", "swap", "reserve"}
CONST_GETTERS = {"nbCells", "nbNets", "nbRows", "nbPins", "size", "empty", "front", "back", "begin", "end", "height",
                 "width"}
PURE_CALLEES = {"operator<<", "now", "hpwl", "setprecision", "count", "endl", "operator-", "has_value", "flush"}


def err(msg):
    raise T.TranslateError("Api: " + msg)


def inner(n):
    return [c for c in (n.get("inner") or []) if isinstance(c, dict) and c.get("kind") != "FullComment"]


def strip(n):
    while True:
        k = n.get("kind")
        if k in ("ParenExpr", "ExprWithCleanups", "CXXBindTemporaryExpr", "MaterializeTemporaryExpr", "ConstantExpr"):
            n = inner(n)[0]
        elif k in ("ImplicitCastExpr", "CStyleCastExpr", "CXXStaticCastExpr") and \
                n.get("castKind") in ("LValueToRValue", "NoOp", "FunctionToPointerDecay", "IntegralCast",
                                      "ArrayToPointerDecay", "UncheckedDerivedToBase", "DerivedToBase"):
            n = inner(n)[0]
        else:
            return n


def qual(n):
    return (n.get("type") or {}).get("qualType", "")


def src_text(src, n):
    r = n.get("range") or {}
    b, e = r.get("begin") or {}, r.get("end") or {}
    if "offset" in b and "offset" in e:
        return src[b["offset"]: e["offset"] + e.get("tokLen", 1)]
    return None


def is_this_member(n):
    """MemberExpr directly on `this` -> member name, else None"""
    n = strip(n)
    if n.get("kind") == "MemberExpr":
        b = strip(inner(n)[0]) if inner(n) else {}
        if b.get("kind") == "CXXThisExpr":
            return n.get("name")
    return None


class Fn:
    def __init__(self, cls, name, decl, src):
        self.cls, self.name, self.decl, self.src = cls, name, decl, src
        self.params = [c["name"] for c in inner(decl) if c.get("kind") == "ParmVarDecl"]

    def where(self):
        return "%s::%s" % (self.cls, self.name)


# --------------------------------------------------------------------------- conditions

def expr(n, fn, loopvar=None):
    n = strip(n)
    k = n.get("kind")
    if k == "IntegerLiteral":
        return "(.lit %d)" % int(n["value"])
    if k == "UnaryOperator" and n.get("opcode") == "-":
        s = strip(inner(n)[0])
        if s.get("kind") == "IntegerLiteral":
            return "(.lit (%d))" % -int(s["value"])
    if k == "DeclRefExpr":
        rd = n.get("referencedDecl") or {}
        if loopvar and rd.get("kind") == "VarDecl" and rd.get("name") == loopvar:
            return ".elem"
        if rd.get("kind") == "ParmVarDecl" and rd.get("name") in fn.params and qual(n) in ("int", "bool"):
            return "(.param %d)" % fn.params.index(rd["name"])
    if k == "BinaryOperator" and n.get("opcode") == "+":
        a, b = inner(n)
        return "(.add %s %s)" % (expr(a, fn, loopvar), expr(b, fn, loopvar))
    if k == "CXXMemberCallExpr":
        callee = strip(inner(n)[0])
        if callee.get("kind") == "MemberExpr" and len(inner(n)) == 1:
            m = callee.get("name")
            obj = strip(inner(callee)[0])
            if obj.get("kind") == "CXXThisExpr" and m == "nbCells":
                return ".nbCells"
            if obj.get("kind") == "CXXThisExpr" and m == "nbNets":
                return ".nbNets"
            if obj.get("kind") == "DeclRefExpr" and (obj.get("referencedDecl") or {}).get("kind") == "ParmVarDecl" and \
                    obj["referencedDecl"]["name"] in fn.params and m in ("size", "front", "back"):
                return "(.%s %d)" % (m, fn.params.index(obj["referencedDecl"]["name"]))
    err("%s: unsupported expression %s `%s`" % (fn.where(), k, src_text(fn.src, n)))


def param_index(n, fn):
    n = strip(n)
    if n.get("kind") == "DeclRefExpr" and (n.get("referencedDecl") or {}).get("kind") == "ParmVarDecl" and \
            n["referencedDecl"]["name"] in fn.params:
        return fn.params.index(n["referencedDecl"]["name"])
    return None


def cond(n, fn, loopvar=None):
    n = strip(n)
    k = n.get("kind")
    if k == "BinaryOperator" and n.get("opcode") in ("||", "&&"):
        a, b = inner(n)
        return "(.%s %s %s)" % ("or" if n["opcode"] == "||" else "and", cond(a, fn, loopvar), cond(b, fn, loopvar))
    if k == "UnaryOperator" and n.get("opcode") == "!":
        return "(.not %s)" % cond(inner(n)[0], fn, loopvar)
    if k == "BinaryOperator" and n.get("opcode") in ("<", "<=", ">", ">=", "==", "!="):
        a, b = inner(n)
        ea, eb = expr(a, fn, loopvar), expr(b, fn, loopvar)
        op = n["opcode"]
        if op == "<":
            return "(.lt %s %s)" % (ea, eb)
        if op == "<=":
            return "(.le %s %s)" % (ea, eb)
        if op == ">":
            return "(.lt %s %s)" % (eb, ea)
        if op == ">=":
            return "(.le %s %s)" % (eb, ea)
        if op == "==":
            return "(.eq %s %s)" % (ea, eb)
        return "(.not (.eq %s %s))" % (ea, eb)
    if k == "CXXMemberCallExpr":
        callee = strip(inner(n)[0])
        if callee.get("kind") == "MemberExpr" and callee.get("name") == "empty" and len(inner(n)) == 1:
            i = param_index(inner(callee)[0], fn)
            if i is not None:
                return "(.empty %d)" % i
    if k == "CallExpr":
        callee = strip(inner(n)[0])
        if (callee.get("referencedDecl") or {}).get("name") == "is_sorted" and len(inner(n)) == 3:
            ix = []
            for a, meth in zip(inner(n)[1:], ("begin", "end")):
                a = strip(a)
                if a.get("kind") == "CXXMemberCallExpr":
                    c2 = strip(inner(a)[0])
                    if c2.get("kind") == "MemberExpr" and c2.get("name") == meth:
                        ix.append(param_index(inner(c2)[0], fn))
            if len(ix) == 2 and ix[0] is not None and ix[0] == ix[1]:
                return "(.sorted %d)" % ix[0]
    if k == "DeclRefExpr" and qual(n) == "bool":
        i = param_index(n, fn)
        if i is not None:
            return "(.not (.eq (.param %d) (.lit 0)))" % i
    err("%s: unsupported condition %s `%s`" % (fn.where(), k, src_text(fn.src, n)))


# --------------------------------------------------------------------------- statements

def single(stmt):
    s = strip(stmt)
    if s.get("kind") == "CompoundStmt":
        ii = inner(s)
        if len(ii) == 1:
            return strip(ii[0])
        return None
    return s


def is_throw(stmt, fn):
    s = single(stmt)
    if s is None or s.get("kind") != "CXXThrowExpr":
        return False
    if not inner(s):
        return False   # rethrow
    types = [qual(d) for d in T.walk(s) if d.get("kind") in ("CXXConstructExpr", "CXXFunctionalCastExpr",
                                                              "CXXTemporaryObjectExpr")]
    if not types or types[0] != "std::runtime_error":
        err("%s: throws %s (not std::runtime_error)" % (fn.where(), types[:1]))
    return True


def is_return(stmt):
    s = single(stmt)
    return s is not None and s.get("kind") == "ReturnStmt" and not inner(s)


def assert_cond(st):
    s = strip(st)
    if s.get("kind") != "ConditionalOperator":
        return None
    ii = inner(s)
    if any(d.get("kind") == "DeclRefExpr" and (d.get("referencedDecl") or {}).get("name") == "__assert_fail"
           for d in T.walk(ii[2])):
        return ii[0]
    return None


def no_side_effect_expr(n, fn):
    """The expression neither writes a member of *this nor calls a non-const member function of *this."""
    for d in T.walk(n):
        k = d.get("kind")
        if k in ("BinaryOperator", "CompoundAssignOperator") and (d.get("opcode") or "").endswith("=") and \
                d.get("opcode") not in ("==", "!=", "<=", ">="):
            if is_this_member(inner(d)[0]) is not None:
                err("%s: member write hidden in an expression" % fn.where())
        if k == "CXXMemberCallExpr":
            callee = strip(inner(d)[0])
            obj = strip(inner(callee)[0]) if inner(callee) else {}
            if obj.get("kind") == "CXXThisExpr" and callee.get("name") not in CONST_GETTERS:
                err("%s: call of %s() inside an expression" % (fn.where(), callee.get("name")))
            if is_this_member(obj) is not None and callee.get("name") in MUTATORS:
                err("%s: member mutation hidden in an expression" % fn.where())


def guard_class_ok(name, src_rel):
    """Structural check of an RAII guard class (shapes (a) and (a') of the module docstring).
    Returns (IR statement, None) or (None, reason)."""
    recs = [o for o in T.clang_ast(src_rel, name) if o.get("kind") == "CXXRecordDecl" and o.get("name") == name
            and o.get("completeDefinition")]
    if len(recs) != 1:
        return None, "class %s not found" % name
    rec = recs[0]
    fields = [c for c in inner(rec) if c.get("kind") == "FieldDecl"]
    refs = [f for f in fields if qual(f) == "bool &"]
    saved = [f for f in fields if qual(f) in ("bool", "const bool")]
    if len(refs) != 1 or len(saved) > 1 or len(refs) + len(saved) != len(fields):
        return None, "%s must have exactly one member of type bool& and at most one saved bool" % name
    fname = refs[0]["name"]
    sname = saved[0]["name"] if saved else None
    if any(c.get("kind") in ("CXXRecordDecl", "VarDecl", "FriendDecl", "FunctionTemplateDecl") and not c.get("isImplicit")
           for c in inner(rec)):
        return None, "%s has nested declarations" % name
    if any(c.get("kind") == "CXXBaseSpecifier" for c in inner(rec)) or rec.get("bases"):
        return None, "%s has a base class" % name
    ctors = [c for c in inner(rec) if c.get("kind") == "CXXConstructorDecl" and not c.get("isImplicit")]
    dtors = [c for c in inner(rec) if c.get("kind") == "CXXDestructorDecl" and not c.get("isImplicit")]
    methods = [c for c in inner(rec) if c.get("kind") == "CXXMethodDecl" and not c.get("isImplicit")]
    for m in methods:
        if not (m.get("name") == "operator=" and m.get("explicitlyDeleted")):
            return None, "%s has a method %s" % (name, m.get("name"))
    live = [c for c in ctors if not c.get("explicitlyDeleted")]
    if len(live) != 1 or len(dtors) != 1:
        return None, "%s needs exactly one usable constructor and one destructor" % name
    copy_deleted = any(c.get("explicitlyDeleted") for c in ctors)
    if not copy_deleted:
        return None, "%s must delete its copy constructor" % name
    ctor = live[0]
    parms = [c for c in inner(ctor) if c.get("kind") == "ParmVarDecl"]
    if len(parms) != 1 or qual(parms[0]) != "bool &":
        return None, "constructor of %s must take a bool&" % name
    inits = {(c.get("anyInit") or {}).get("name"): c for c in inner(ctor) if c.get("kind") == "CXXCtorInitializer"}
    if set(inits) != ({fname, sname} if sname else {fname}):
        return None, "constructor of %s must initialise exactly its members" % name

    def is_param(n):
        n = strip(n)
        return n.get("kind") == "DeclRefExpr" and (n.get("referencedDecl") or {}).get("name") == parms[0]["name"] and \
            (n.get("referencedDecl") or {}).get("kind") == "ParmVarDecl"
    if len(inner(inits[fname])) != 1 or not is_param(inner(inits[fname])[0]):
        return None, "constructor of %s must bind %s to its argument" % (name, fname)
    if sname and (len(inner(inits[sname])) != 1 or not is_param(inner(inits[sname])[0])):
        # the value of the flag on entry, read through the constructor's argument before the body runs
        return None, "constructor of %s must initialise %s from its argument" % (name, sname)

    def sole_assign(decl, ok_rhs):
        body = [c for c in inner(decl) if c.get("kind") == "CompoundStmt"]
        if len(body) != 1 or len(inner(body[0])) != 1:
            return False
        s = strip(inner(body[0])[0])
        if s.get("kind") != "BinaryOperator" or s.get("opcode") != "=":
            return False
        lhs, rhs = inner(s)
        return is_this_member(lhs) == fname and ok_rhs(strip(rhs))

    def lit(val):
        return lambda r: r.get("kind") == "CXXBoolLiteralExpr" and r.get("value") is val
    if not sole_assign(ctor, lit(True)):
        return None, "constructor of %s must be `{ %s = true; }`" % (name, fname)
    if sname is None:
        if not sole_assign(dtors[0], lit(False)):
            return None, "destructor of %s must be `{ %s = false; }`" % (name, fname)
        return ".scopeGuard", None
    if not sole_assign(dtors[0], lambda r: is_this_member(r) == sname):
        return None, "destructor of %s must be `{ %s = %s; }`" % (name, fname, sname)
    return ".restoreGuard", None


def in_use_assign(s):
    """`isInUse_ = <bool literal>` -> bool, else None"""
    s = strip(s)
    if s.get("kind") == "BinaryOperator" and s.get("opcode") == "=":
        lhs, rhs = inner(s)
        r = strip(rhs)
        if is_this_member(lhs) == "isInUse_":
            if r.get("kind") == "CXXBoolLiteralExpr":
                return bool(r.get("value"))
            return "?"
    return None


def try_catch_guard(stmts, i, fn):
    """shape (b): stmts[i..] == [isInUse_=true, try{B}catch(...){isInUse_=false; throw;}, isInUse_=false] -> B"""
    if len(stmts) - i != 3:
        return None
    if in_use_assign(stmts[i]) is not True or in_use_assign(stmts[i + 2]) is not False:
        return None
    t = strip(stmts[i + 1])
    if t.get("kind") != "CXXTryStmt":
        return None
    ii = inner(t)
    if len(ii) != 2 or ii[0].get("kind") != "CompoundStmt" or ii[1].get("kind") != "CXXCatchStmt":
        return None
    c = ii[1]
    ci = inner(c)
    # catch (...) has no exception declaration: clang dumps a null child, then the handler block
    if len(ci) != 2 or ci[0].get("kind") is not None or ci[1].get("kind") != "CompoundStmt":
        return None
    h = inner(ci[1])
    if len(h) != 2 or in_use_assign(h[0]) is not False:
        return None
    th = strip(h[1])
    if th.get("kind") != "CXXThrowExpr" or inner(th):
        return None
    return inner(ii[0])


def stmts_of(fn, stmts, out, in_loop=False, file_rel=CIRCUIT_CPP):
    i = 0
    while i < len(stmts):
        st = stmts[i]
        s = strip(st)
        k = s.get("kind")
        # --- guards
        b = try_catch_guard(stmts, i, fn)
        if b is not None and not in_loop:
            out.append(".scopeGuard")
            stmts_of(fn, b, out, False, file_rel)
            return
        if k == "DeclStmt":
            for v in inner(s):
                if v.get("kind") != "VarDecl":
                    err("%s: unsupported declaration" % fn.where())
                t = qual(v)
                init = inner(v)
                uses_flag = any(is_this_member(d) == "isInUse_" for d in T.walk(v) if d.get("kind") == "MemberExpr")
                if uses_flag:
                    cls = t.split("::")[-1].strip()
                    ctor = strip(init[0]) if init else {}
                    args = inner(ctor) if ctor.get("kind") == "CXXConstructExpr" else []
                    if in_loop or len(args) != 1 or is_this_member(args[0]) != "isInUse_":
                        err("%s: `%s` uses isInUse_ in a shape that is not a scope guard" % (fn.where(), src_text(fn.src, s)))
                    stmt, why = guard_class_ok(cls, file_rel)
                    if why:
                        err("%s: %s is not a recognised scope guard: %s" % (fn.where(), cls, why))
                    out.append(stmt)
                else:
                    for e in init:
                        no_side_effect_expr(e, fn)
                        if fn.cls != "Circuit":
                            pass
            i += 1
            continue
        if k == "IfStmt":
            ii = inner(s)
            if s.get("hasElse") or len(ii) != 2:
                # if/else without throw or return: both branches are flattened (writes only)
                if any(d.get("kind") in ("CXXThrowExpr", "ReturnStmt") for d in T.walk(s)):
                    err("%s: if/else containing throw or return" % fn.where())
                no_side_effect_expr(ii[0], fn)
                for br in ii[1:]:
                    stmts_of(fn, inner(br) if br.get("kind") == "CompoundStmt" else [br], out, True, file_rel)
                i += 1
                continue
            if is_throw(ii[1], fn):
                if in_loop:
                    err("%s: throw inside a loop of unsupported shape" % fn.where())
                out.append(".throwIf %s" % cond(ii[0], fn))
            elif is_return(ii[1]):
                if in_loop:
                    err("%s: return inside a loop" % fn.where())
                out.append(".returnIf %s" % cond(ii[0], fn))
            else:
                if any(d.get("kind") in ("CXXThrowExpr", "ReturnStmt") for d in T.walk(s)):
                    err("%s: conditional throw/return of unsupported shape" % fn.where())
                no_side_effect_expr(ii[0], fn)
                stmts_of(fn, inner(ii[1]) if ii[1].get("kind") == "CompoundStmt" else [ii[1]], out, True, file_rel)
            i += 1
            continue
        if k == "CXXForRangeStmt":
            ii = [c for c in (s.get("inner") or []) if isinstance(c, dict)]
            body = ii[-1]
            loopdecl = [c for c in ii if c.get("kind") == "DeclStmt"][-1]
            lv = inner(loopdecl)[0]
            rangedecl = [c for c in ii if c.get("kind") == "DeclStmt"][0]
            rng = strip(inner(inner(rangedecl)[0])[0])
            bs = single(body)
            if bs is not None and bs.get("kind") == "IfStmt" and len(inner(bs)) == 2 and is_throw(inner(bs)[1], fn):
                ai = param_index(rng, fn)
                if ai is None or in_loop:
                    err("%s: validation loop over something that is not a parameter" % fn.where())
                out.append(".throwIf (.anyElem %d %s)" % (ai, cond(inner(bs)[0], fn, lv["name"])))
            else:
                if any(d.get("kind") in ("CXXThrowExpr", "ReturnStmt") for d in T.walk(body)):
                    err("%s: loop with throw/return of unsupported shape" % fn.where())
                stmts_of(fn, inner(body) if body.get("kind") == "CompoundStmt" else [body], out, True, file_rel)
            i += 1
            continue
        if k == "ForStmt":
            ii = [c for c in (s.get("inner") or []) if isinstance(c, dict)]
            body = ii[-1]
            if any(d.get("kind") in ("CXXThrowExpr", "ReturnStmt") for d in T.walk(s)):
                err("%s: for loop with throw/return" % fn.where())
            for e in ii[:-1]:
                if e.get("kind"):
                    no_side_effect_expr(e, fn)
            stmts_of(fn, inner(body) if body.get("kind") == "CompoundStmt" else [body], out, True, file_rel)
            i += 1
            continue
        if k == "ReturnStmt":
            if inner(s):
                err("%s: return with a value" % fn.where())
            out.append(".ret")
            i += 1
            continue
        ac = assert_cond(s)
        if ac is not None:
            out.append(".assertC %s" % cond(ac, fn))
            i += 1
            continue
        if k == "CXXMemberCallExpr":
            callee = strip(inner(s)[0])
            obj = strip(inner(callee)[0]) if inner(callee) else {}
            if obj.get("kind") == "CXXThisExpr" and callee.get("name") == "checkNotInUse":
                if in_loop:
                    err("%s: checkNotInUse inside a loop" % fn.where())
                out.append(".checkNotInUse")
                i += 1
                continue
            m = is_this_member(obj)
            if m is not None and callee.get("name") in MUTATORS:
                for a in inner(s)[1:]:
                    no_side_effect_expr(a, fn)
                out.append('.assign "%s"' % m)
                i += 1
                continue
            err("%s: unsupported call `%s`" % (fn.where(), src_text(fn.src, s)))
        if k in ("BinaryOperator", "CXXOperatorCallExpr", "CompoundAssignOperator"):
            ii = inner(s)
            if k == "CXXOperatorCallExpr":
                op = (strip(ii[0]).get("referencedDecl") or {}).get("name")
                if op != "operator=":
                    err("%s: unsupported operator call %s" % (fn.where(), op))
                lhs, rhs = ii[1], ii[2]
            else:
                if not (s.get("opcode") or "").endswith("=") or s.get("opcode") in ("==", "!=", "<=", ">="):
                    err("%s: expression statement without effect?" % fn.where())
                lhs, rhs = ii
            m = is_this_member(lhs)
            if m == "isInUse_":
                v = in_use_assign(s)
                if v not in (True, False) or in_loop:
                    err("%s: isInUse_ assigned a non-literal" % fn.where())
                out.append(".setInUse %s" % ("true" if v else "false"))
            elif m is not None:
                no_side_effect_expr(rhs, fn)
                out.append('.assign "%s"' % m)
            else:
                l = strip(lhs)
                if l.get("kind") == "DeclRefExpr" and (l.get("referencedDecl") or {}).get("kind") == "VarDecl":
                    no_side_effect_expr(rhs, fn)   # local variable
                else:
                    err("%s: assignment to `%s`" % (fn.where(), src_text(fn.src, lhs)))
            i += 1
            continue
        if k == "UnaryOperator" and s.get("opcode") in ("++", "--"):
            i += 1
            continue
        if k == "CallExpr" and fn.name in PLACEMENT:
            callee = strip(inner(s)[0])
            name = src_text(fn.src, callee) or (callee.get("referencedDecl") or {}).get("name")
            out.append('.call "%s"' % name.replace(" ", ""))
            i += 1
            continue
        if k == "CompoundStmt":
            stmts_of(fn, inner(s), out, in_loop, file_rel)
            i += 1
            continue
        err("%s: unsupported statement %s `%s`" % (fn.where(), k, (src_text(fn.src, s) or "")[:80]))


def translate_circuit_methods():
    src = T.read(CIRCUIT_CPP)
    objs = T.clang_ast(CIRCUIT_CPP, "coloquinte::Circuit::")
    defs = {}
    declared = set()
    for o in objs:
        if o.get("kind") == "CXXRecordDecl" and o.get("name") == "Circuit":
            for c in inner(o):
                if c.get("kind") == "CXXMethodDecl" and qual(c).startswith("void") and not qual(c).rstrip().endswith("const"):
                    declared.add(c["name"])
        if o.get("kind") == "CXXMethodDecl" and any(c.get("kind") == "CompoundStmt" for c in inner(o)) and o.get("previousDecl"):
            defs.setdefault(o["name"], []).append(o)
    # every non-const void method of Circuit must be classified (a new setter cannot slip through)
    inline_ok = {"place"}   # Circuit::place(int) = placeGlobal + placeDetailed, defined in the header
    known = set(SETTERS) | set(PLACEMENT) | inline_ok | {"expandCellsToDensity"}
    unknown = sorted(declared - known)
    if unknown:
        err("Circuit has mutating methods the translator does not know: %s" % unknown)
    out = {}
    for name in SETTERS + PLACEMENT + ["checkNotInUse"]:
        cands = defs.get(name, [])
        if name in PLACEMENT:
            cands = [c for c in cands if len([p for p in inner(c) if p.get("kind") == "ParmVarDecl"]) == 2]
        if len(cands) != 1:
            err("expected one out-of-line definition of Circuit::%s, found %d" % (name, len(cands)))
        d = cands[0]
        fn = Fn("Circuit", name, d, src)
        body = [c for c in inner(d) if c.get("kind") == "CompoundStmt"][0]
        if name == "checkNotInUse":
            st = inner(body)
            ok = len(st) == 1 and st[0].get("kind") == "IfStmt" and is_this_member(inner(st[0])[0]) == "isInUse_" and \
                is_throw(inner(st[0])[1], fn)
            if not ok:
                err("Circuit::checkNotInUse is not `if (isInUse_) throw std::runtime_error(...)`")
            continue
        sts = []
        stmts_of(fn, inner(body), sts)
        out[name] = (fn.params, sts)
    return out, T.digest(src)


def translate_entry(rel, cls, name):
    src = T.read(rel)
    objs = T.clang_ast(rel, "coloquinte::%s::%s" % (cls, name))
    cands = [o for o in objs if o.get("kind") == "CXXMethodDecl" and o.get("name") == name and
             any(c.get("kind") == "CompoundStmt" for c in inner(o))]
    if len(cands) != 1:
        err("expected one definition of %s::%s, found %d" % (cls, name, len(cands)))
    d = cands[0]
    fn = Fn(cls, name, d, src)
    if len(fn.params) != 3:
        err("%s::%s: expected (circuit, params, callback)" % (cls, name))
    circ, params = fn.params[0], fn.params[1]
    body = [c for c in inner(d) if c.get("kind") == "CompoundStmt"][0]
    out, seen_check = [], False

    def circuit_member(n):
        n = strip(n)
        if n.get("kind") == "MemberExpr":
            b = strip(inner(n)[0])
            if b.get("kind") == "DeclRefExpr" and (b.get("referencedDecl") or {}).get("name") == circ:
                return n.get("name")
        return None

    for st in inner(body):
        s = strip(st)
        k = s.get("kind")
        if k == "CXXMemberCallExpr":
            callee = strip(inner(s)[0])
            obj = strip(inner(callee)[0]) if inner(callee) else {}
            if callee.get("name") == "check" and obj.get("kind") == "DeclRefExpr" and \
                    (obj.get("referencedDecl") or {}).get("name") == params and len(inner(s)) == 1:
                out.append(".paramsCheck")
                seen_check = True
                continue
        if k == "BinaryOperator" and s.get("opcode") == "=":
            m = circuit_member(inner(s)[0])
            if m is not None:
                out.append('.assign "%s"' % m)
                continue
        # calls: the first callee that is not known to be pure names the statement
        callees = []
        for d2 in T.walk(s):
            if d2.get("kind") in ("CallExpr", "CXXMemberCallExpr", "CXXOperatorCallExpr"):
                c2 = strip(inner(d2)[0])
                nm = c2.get("name") or (c2.get("referencedDecl") or {}).get("name")
                txt = src_text(src, c2) if c2.get("kind") == "DeclRefExpr" else nm
                if c2.get("kind") == "DeclRefExpr" and (c2.get("referencedDecl") or {}).get("kind") == "CXXMethodDecl" and \
                        txt and "::" not in txt:
                    txt = cls + "::" + txt
                callees.append((nm, (txt or nm or "?").replace(" ", "")))
            if d2.get("kind") == "CXXConstructExpr" and qual(d2).startswith("coloquinte::"):
                callees.append(("ctor", qual(d2).split("::")[-1] + "::" + qual(d2).split("::")[-1]))
            if d2.get("kind") in ("BinaryOperator", "CompoundAssignOperator") and (d2.get("opcode") or "").endswith("=") \
                    and d2.get("opcode") not in ("==", "!=", "<=", ">=") and circuit_member(inner(d2)[0]) is not None \
                    and d2 is not s:
                callees.append(("write", "write:" + circuit_member(inner(d2)[0])))
        impure = [c for c in callees if c[0] not in PURE_CALLEES]
        if not impure:
            if k in ("DeclStmt", "CXXOperatorCallExpr", "ExprWithCleanups", "CallExpr", "CXXMemberCallExpr"):
                out.append('.pure "%s"' % k)
                continue
            if not seen_check:
                err("%s::%s: statement of kind %s before params.check() was not understood" % (cls, name, k))
            out.append('.call "<%s>"' % k)
            continue
        if not seen_check and k not in ("CallExpr", "CXXMemberCallExpr", "DeclStmt", "ExprWithCleanups"):
            err("%s::%s: statement of kind %s before params.check() was not understood" % (cls, name, k))
        out.append('.call "%s"' % impure[0][1])
    if not seen_check:
        # still a valid translation: the theorem about it fails
        pass
    return (fn.params, out), T.digest(src)


def fn_lean(name, params, sts):
    return '  { name := "%s", params := [%s], body := [\n      %s] }' % (
        name, ", ".join('"%s"' % p for p in params), ",\n      ".join(sts))


def generate():
    methods, dig = translate_circuit_methods()
    entries, digs = [], {CIRCUIT_CPP: dig}
    for rel, cls, name in ENTRIES:
        (params, sts), d = translate_entry(rel, cls, name)
        entries.append(("%s::%s" % (cls, name), params, sts))
        digs[rel] = d
    L = []
    L.append("import ColoVerif.Model.ApiIR")
    L.append("/-! Statement skeletons of the Circuit setters, the placement calls and the placer entry points,")
    L.append("translated from the C++ sources (see tools/gen/Api.py). -/")
    L.append("namespace ColoVerif.Gen.Api")
    L.append("open ColoVerif.ApiIR")
    L.append("")
    L.append("def sourceDigests : List (String × String) := [%s]" % ", ".join('("%s", "%s")' % kv for kv in sorted(digs.items())))
    L.append("")
    L.append("/-- every `Circuit` setter (argument positions index `params`) -/")
    L.append("def setters : List FnDef := [")
    L.append(",\n".join(fn_lean(n, methods[n][0], methods[n][1]) for n in SETTERS))
    L.append("]")
    L.append("")
    L.append("/-- `Circuit::placeGlobal/legalize/placeDetailed (params, callback)` -/")
    L.append("def placementCalls : List FnDef := [")
    L.append(",\n".join(fn_lean(n, methods[n][0], methods[n][1]) for n in PLACEMENT))
    L.append("]")
    L.append("")
    L.append("/-- `GlobalPlacer::place`, `DetailedPlacer::legalize`, `DetailedPlacer::place` -/")
    L.append("def placerEntries : List FnDef := [")
    L.append(",\n".join(fn_lean(n, p, s) for (n, p, s) in entries))
    L.append("]")
    L.append("")
    L.append("end ColoVerif.Gen.Api")
    info = {"digests": digs, "setters": {n: len(methods[n][1]) for n in SETTERS},
            "placement_calls": {n: methods[n][1] for n in PLACEMENT},
            "entries": {n: s[:4] for (n, p, s) in entries}}
    return {"Api.lean": "\n".join(L) + "\n", "info": info}
