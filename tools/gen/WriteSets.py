"""Translator piece for C03: the table of every place that can modify a `Circuit` on a path of a
placement call.  Scope ("analysed functions"): every function of /repo/src/place_global and
/repo/src/place_detailed, plus the placement entry points of `Circuit` itself (all overloads of
`place`, `placeGlobal`, `legalize`, `placeDetailed` in src/coloquinte.hpp / src/coloquinte.cpp).  Listed:

  * assignments / compound assignments / ++ -- to a `Circuit` data member or to an element of
    one (`circuit.cellX_[i] = …`, `circuit_.hasNetUpdate_ = false`, vector<bool> proxies),
  * non-const member calls on a `Circuit` data member (`circuit.cellX_.push_back(…)`),
  * calls of non-const `Circuit` methods (`circuit.setCellX(…)`, `setSolution`, …),
  * hand-overs of a non-const `Circuit &` to another function (the callee must itself be one
    of the analysed functions, otherwise the write could hide outside the analysed files).

For element writes the enclosing `for` loop is matched against the fixed-cell skip:
  skipContinue : an earlier top-level statement of the loop body is
                 `if (circuit.isFixed(IDX)) continue;` / `if (circuit.cellIsFixed_[IDX]) continue;`
                 on the same circuit object and the same index variable IDX that the write uses,
                 and IDX is not modified inside the body;
  ifNotFixed   : the write sits in the then-branch of `if (!circuit.isFixed(IDX))` (same conditions).

A `Circuit` data member handed to the constructor of a local object is accepted only when the class is a
scoped flag guard of one of exactly two shapes (`InUseGuard` in src/coloquinte.cpp; see `flag_guard`):
set/clear — one `bool &` field bound to the argument, constructor body `flag_ = true;`, destructor body
`flag_ = false;` (site kind `scoped`) — or save/set/restore — additionally one `const bool` field initialised
from the flag, destructor body `flag_ = previous_;` (site kind `scopedRestore`); nothing else in the class, and
the object is an automatic variable declared directly in the function body (its destructor runs on every exit).

The closure argument: a non-const `Circuit` reaches code outside the analysed functions only through a
hand-over (table `handOvers`, all to analysed functions) or a non-const `Circuit` method call (a write
site `method:`, unless it is one of the entry points, which is then a hand-over).  Everything else the
placement calls reach sees the circuit through `const` (table `reachedConstMethods`), and `constEscapes`
lists every construct in any translation unit of /repo/src that could remove that `const`
(`const_cast`, `reinterpret_cast`, C-style pointer/reference casts, `mutable` fields of `Circuit`) — proved
empty.  The user's callback is user code and outside the table.

Any use of a non-const `Circuit` member whose shape is not understood (bound to a reference,
passed by non-const reference, iterated with non-const iterators, …) raises TranslateError:
an unparseable region is a broken tie, not a default.
"""
import json
import os
import re
import subprocess
import sys
from concurrent.futures import ThreadPoolExecutor

sys.path.insert(0, os.path.dirname(os.path.dirname(os.path.abspath(__file__))))
import common as C  # noqa: E402
import translate as T  # noqa: E402

DIRS = ["src/place_global", "src/place_detailed"]
# the placement entry points of Circuit (every overload) are analysed like the two directories
ENTRY = ["place", "placeGlobal", "legalize", "placeDetailed"]
ENTRY_FILES = ["src/coloquinte.hpp", "src/coloquinte.cpp"]
# translation units outside DIRS: scanned for the entry points and for const escapes
EXTRA_TUS = ["src/coloquinte.cpp", "src/export.cpp", "src/parameters.cpp"]
ALLOWED = ["cellX_", "cellY_", "cellOrientation_", "hasCellSizeUpdate_", "hasNetUpdate_", "isInUse_"]
ASSIGN_OPS = {"=", "+=", "-=", "*=", "/=", "%=", "&=", "|=", "^=", "<<=", ">>="}


def _parse_all(text):
    objs, dec, i = [], json.JSONDecoder(), 0
    while i < len(text):
        while i < len(text) and text[i].isspace():
            i += 1
        if i >= len(text):
            break
        o, j = dec.raw_decode(text, i)
        objs.append(o)
        i = j
    return objs


def namespace_ast(rel):
    """All `namespace coloquinte { … }` blocks visible from /repo/<rel> (the filter prints each
    matching declaration once and does not descend further, so nothing is duplicated)."""
    cmd = ["clang++-14", "-std=gnu++17", "-fsyntax-only", "-I", os.path.join(C.REPO, "src"),
           "-D" + C.GUARD, "-Xclang", "-ast-dump=json", "-Xclang", "-ast-dump-filter=coloquinte",
           os.path.join(C.REPO, rel)]
    p = subprocess.run(cmd, stdout=subprocess.PIPE, stderr=subprocess.PIPE, text=True)
    if p.returncode != 0:
        raise T.TranslateError("clang failed on %s: %s" % (rel, p.stderr[-800:]))
    return _parse_all(p.stdout)


def dependencies(rel):
    """Non-system files the translation unit includes (clang -MM), relative to the repository."""
    cmd = ["clang++-14", "-std=gnu++17", "-MM", "-I", os.path.join(C.REPO, "src"), "-D" + C.GUARD,
           os.path.join(C.REPO, rel)]
    p = subprocess.run(cmd, stdout=subprocess.PIPE, stderr=subprocess.PIPE, text=True)
    if p.returncode != 0:
        raise T.TranslateError("clang -MM failed on %s: %s" % (rel, p.stderr[-800:]))
    toks = p.stdout.replace("\\\n", " ").split()
    return {os.path.relpath(os.path.realpath(t), os.path.realpath(C.REPO)) for t in toks if not t.endswith(":")}


def annotate_files(obj, main_file):
    """clang prints "file" only when it changes; resolve it for every location (document order)."""
    cur = [main_file]

    def rec(v):
        if isinstance(v, dict):
            if "file" in v and isinstance(v["file"], str):
                cur[0] = v["file"]
            is_loc = "offset" in v or "line" in v or "col" in v
            for k, x in v.items():
                if k not in ("file", "includedFrom"):
                    rec(x)
            if is_loc:
                v["_file"] = cur[0]
        elif isinstance(v, list):
            for x in v:
                rec(x)
    rec(obj)


def strip(n):
    """Look through wrappers that do not change which object an expression denotes."""
    while n and n.get("kind") in ("ParenExpr", "ImplicitCastExpr", "ExprWithCleanups", "MaterializeTemporaryExpr",
                                  "CXXBindTemporaryExpr", "ConstantExpr"):
        inner = [c for c in n.get("inner", []) if isinstance(c, dict) and c]
        if len(inner) != 1:
            break
        n = inner[0]
    return n


def kids(n):
    return [c for c in (n.get("inner") or []) if isinstance(c, dict) and c]


def qual(n):
    return (n.get("type") or {}).get("qualType", "")


def is_const_type(n):
    return qual(n).startswith("const ")


def operator_name(call):
    """Name of the operator function of a CXXOperatorCallExpr."""
    ks = kids(call)
    if not ks:
        return None
    f = strip(ks[0])
    return (f.get("referencedDecl") or {}).get("name")


class FileScan:
    def __init__(self, rel):
        self.rel = rel
        self.main = os.path.join(C.REPO, rel)
        self.objs = namespace_ast(rel)
        self.deps = dependencies(rel)
        for o in self.objs:
            annotate_files(o, self.main)
        self.fields, self.methods = {}, {}
        self.find_circuit()
        self.sites, self.delegations, self.defined = [], [], []
        self.reached, self.escapes = {}, []

    def find_circuit(self):
        for o in self.objs:
            for n in T.walk(o):
                if n.get("kind") == "CXXRecordDecl" and n.get("name") == "Circuit" and n.get("completeDefinition"):
                    for c in kids(n):
                        if c.get("kind") == "FieldDecl":
                            self.fields[c["id"]] = c["name"]
                            if c.get("mutable"):
                                self.escapes.append({"file": "src/coloquinte.hpp", "function": "Circuit", "line": (c.get("loc") or {}).get("line", 0),
                                                     "what": "mutable field " + c["name"]})
                        elif c.get("kind") == "CXXMethodDecl":
                            q = qual(c)
                            const = bool(re.search(r"\)\s*const\b", q))
                            static = c.get("storageClass") == "static"
                            self.methods[c["id"]] = (c["name"], const or static)
        # out-of-line definitions are redeclarations with their own id (a call that follows the definition in
        # the same translation unit references that one)
        rec_ids = set()
        for o in self.objs:
            for n in T.walk(o):
                if n.get("kind") == "CXXRecordDecl" and n.get("name") == "Circuit":
                    rec_ids.add(n["id"])
        for o in self.objs:
            for n in T.walk(o):
                if n.get("kind") == "CXXMethodDecl" and n.get("parentDeclContextId") in rec_ids and n["id"] not in self.methods:
                    q = qual(n)
                    self.methods[n["id"]] = (n["name"], bool(re.search(r"\)\s*const\b", q)) or n.get("storageClass") == "static")
        # a translation unit that never sees the definition of Circuit cannot name its members
        self.sees_circuit = bool(self.fields)
        if not self.sees_circuit and "src/coloquinte.hpp" in self.deps:
            raise T.TranslateError("%s includes coloquinte.hpp but class Circuit was not found in its AST" % self.rel)

    # ---- helpers on expressions ------------------------------------------------------------
    def circuit_object(self, e):
        """If e denotes a Circuit object: a key identifying which one, else None."""
        e = strip(e)
        if not e or not re.fullmatch(r"(const )?(coloquinte::)?Circuit", qual(e)):
            return None
        if e.get("kind") == "DeclRefExpr":
            return ("var", e["referencedDecl"]["id"])
        if e.get("kind") == "MemberExpr":
            b = kids(e)
            base = strip(b[0]) if b else {}
            if base.get("kind") == "CXXThisExpr":
                return ("this." + e.get("name", "?"),)
            return ("member", e.get("name"), json.dumps(self.circuit_object(base) or "?"))
        if e.get("kind") == "CXXThisExpr":
            return ("this",)
        if e.get("kind") == "UnaryOperator" and e.get("opcode") == "*":
            return ("deref", json.dumps(self.circuit_object(kids(e)[0]) or "?"))
        return ("expr", e.get("kind"))

    def index_var(self, e):
        e = strip(e)
        if e and e.get("kind") == "DeclRefExpr" and e.get("referencedDecl", {}).get("kind") in ("VarDecl", "ParmVarDecl"):
            return e["referencedDecl"]["id"], e["referencedDecl"].get("name")
        return None, None

    def fixed_test(self, cond):
        """cond == circuit.isFixed(IDX) or circuit.cellIsFixed_[IDX] (possibly negated).
        Returns (negated, circuit key, idx var id) or None."""
        neg = False
        e = strip(cond)
        while e.get("kind") == "UnaryOperator" and e.get("opcode") == "!":
            neg = not neg
            e = strip(kids(e)[0])
        # vector<bool> proxy: (operator bool)(circuit.cellIsFixed_[i])
        if e.get("kind") == "CXXMemberCallExpr":
            callee = kids(e)[0]
            if callee.get("kind") == "MemberExpr" and callee.get("name") == "operator bool":
                e = strip(kids(callee)[0])
        if e.get("kind") == "CXXMemberCallExpr":
            callee = kids(e)[0]
            if callee.get("kind") == "MemberExpr" and callee.get("name") == "isFixed" and len(kids(e)) == 2:
                obj = self.circuit_object(kids(callee)[0])
                idx, _ = self.index_var(kids(e)[1])
                if obj and idx:
                    return neg, obj, idx
        if e.get("kind") == "CXXOperatorCallExpr" and operator_name(e) == "operator[]" and len(kids(e)) == 3:
            m = strip(kids(e)[1])
            if m.get("kind") == "MemberExpr" and m.get("name") == "cellIsFixed_":
                obj = self.circuit_object(kids(m)[0])
                idx, _ = self.index_var(kids(e)[2])
                if obj and idx:
                    return neg, obj, idx
        return None

    @staticmethod
    def is_continue(stmt):
        if stmt.get("kind") == "ContinueStmt":
            return True
        if stmt.get("kind") == "CompoundStmt":
            k = kids(stmt)
            return len(k) == 1 and k[0].get("kind") == "ContinueStmt"
        return False

    def var_modified(self, body, var_id):
        for n in T.walk(body):
            k = n.get("kind")
            if k == "UnaryOperator" and n.get("opcode") in ("++", "--"):
                v, _ = self.index_var(kids(n)[0])
                if v == var_id:
                    return True
            if k in ("BinaryOperator", "CompoundAssignOperator") and n.get("opcode") in ASSIGN_OPS:
                v, _ = self.index_var(kids(n)[0])
                if v == var_id:
                    return True
            if k == "UnaryOperator" and n.get("opcode") == "&":
                v, _ = self.index_var(kids(n)[0])
                if v == var_id:
                    return True
        return False

    def guard_of(self, stack, obj, idx_expr):
        """stack: ancestors (outermost first) of the write expression."""
        idx, _ = self.index_var(idx_expr)
        if idx is None:
            return "none"
        loops = [i for i, a in enumerate(stack) if a.get("kind") in ("ForStmt", "CXXForRangeStmt", "WhileStmt", "DoStmt")]
        if not loops:
            return "none"
        li = loops[-1]
        loop = stack[li]
        if loop.get("kind") != "ForStmt":
            return "none"
        body = [c for c in (loop.get("inner") or []) if isinstance(c, dict)][-1]
        if not body or body.get("kind") != "CompoundStmt" or li + 1 >= len(stack) or stack[li + 1] is not body:
            return "none"
        if self.var_modified(body, idx):
            return "none"
        # (b) then-branch of if (!fixed(IDX))
        for ai in range(li + 1, len(stack) - 1):
            a = stack[ai]
            if a.get("kind") == "IfStmt":
                ks = kids(a)
                t = self.fixed_test(ks[0])
                if t and t[0] and t[1] == obj and t[2] == idx and len(ks) >= 2 and stack[ai + 1] is ks[1]:
                    return "ifNotFixed"
        # (a) an earlier top-level statement of the body is the skip
        top = stack[li + 2] if li + 2 < len(stack) else None
        for st in kids(body):
            if st is top:
                break
            if st.get("kind") == "IfStmt":
                ks = kids(st)
                t = self.fixed_test(ks[0])
                if t and not t[0] and t[1] == obj and t[2] == idx and len(ks) == 2 and self.is_continue(ks[1]):
                    return "skipContinue"
        return "none"

    # ---- the scan --------------------------------------------------------------------------
    def scan(self):
        for o in self.objs:
            self.scan_decls(o, [])

    def in_scope(self, path, cls=None, name=None):
        if any(path.startswith(os.path.join(C.REPO, d) + os.sep) for d in DIRS):
            return True
        return cls == "Circuit" and name in ENTRY and any(path == os.path.join(C.REPO, f) for f in ENTRY_FILES)

    def in_repo_src(self, path):
        return bool(path) and path.startswith(os.path.join(C.REPO, "src") + os.sep)

    def scan_decls(self, n, ctx):
        k = n.get("kind")
        if k in ("NamespaceDecl", "CXXRecordDecl", "ClassTemplateDecl", "FunctionTemplateDecl", "LinkageSpecDecl",
                 "ClassTemplateSpecializationDecl"):
            name = n.get("name")
            for c in kids(n):
                self.scan_decls(c, ctx + ([name] if name and k != "NamespaceDecl" else []))
            return
        if k in ("FunctionDecl", "CXXMethodDecl", "CXXConstructorDecl", "CXXDestructorDecl", "CXXConversionDecl"):
            body = [c for c in kids(n) if c.get("kind") == "CompoundStmt"]
            f = (n.get("loc") or {}).get("_file") or (n.get("loc") or {}).get("expansionLoc", {}).get("_file")
            if not body or not f:
                return
            # qualified name: the lexical class, or the class of an out-of-line definition
            cls = ctx[-1] if ctx else None
            if not cls and n.get("parentDeclContextId"):
                cls = self.class_names().get(n["parentDeclContextId"])
            qn = (cls + "::" if cls else "") + n.get("name", "?")
            if self.in_repo_src(f):
                self.scan_escapes(n, qn, os.path.relpath(f, C.REPO))
            if not self.in_scope(f, cls, n.get("name")):
                return
            params = [qual(c) for c in kids(n) if c.get("kind") == "ParmVarDecl"]
            relf = os.path.relpath(f, C.REPO)
            is_entry = cls == "Circuit" and n.get("name") in ENTRY
            if is_entry and (re.search(r"\)\s*const\b", qual(n)) or n.get("storageClass") == "static"):
                raise T.TranslateError("%s: placement entry point %s is const/static — not the shape this table understands" % (relf, qn))
            self.defined.append({"name": n.get("name"), "qname": qn, "file": relf,
                                 "circuit_ref": is_entry or any(re.fullmatch(r"(coloquinte::)?Circuit &", p) for p in params)})
            inits = [c for c in kids(n) if c.get("kind") == "CXXCtorInitializer"]
            for part in inits + body:
                self.scan_body(part, [n], qn, relf)

    def scan_escapes(self, fn_node, qn, relf):
        """const_cast / reinterpret_cast / C-style or functional casts to a pointer or reference anywhere in a
        function of /repo/src: the constructs that could turn a `const Circuit` back into a writable one."""
        for x in T.walk(fn_node):
            k = x.get("kind")
            what = None
            if k in ("CXXConstCastExpr", "CXXReinterpretCastExpr"):
                what = k + " to " + qual(x)
            elif k in ("CStyleCastExpr", "CXXFunctionalCastExpr") and x.get("castKind") in ("NoOp", "BitCast", "LValueBitCast", "Dependent") \
                    and (qual(x).rstrip().endswith(("*", "&")) or x.get("valueCategory") in ("lvalue", "xvalue")):
                what = k + " to " + qual(x)
            if what:
                r = (x.get("range") or {}).get("begin") or {}
                line = r.get("line") or (r.get("expansionLoc") or {}).get("line") or 0
                self.escapes.append({"file": relf, "function": qn, "line": line, "what": what})

    def flag_guard(self, cls, where):
        """Check that class `cls` is a scoped flag guard of one of exactly two shapes; returns the shape or raises.
          "scoped"        one field `bool &flag_` bound to the constructor argument; ctor body `flag_ = true;`,
                          dtor body `flag_ = false;`                                                    (set / clear)
          "scopedRestore" that field plus one `const bool previous_` initialised from the flag (the argument, or the
                          reference field when it is declared first); ctor body `flag_ = true;`, dtor body
                          `flag_ = previous_;`                                                   (save / set / restore)
        No base class, no other member, copy operations deleted or absent."""
        def bad(why):
            raise T.TranslateError("%s: object of class %s built from a Circuit member, but %s" % (where, cls, why))
        decl = None
        for o in self.objs:
            for n in T.walk(o):
                if n.get("kind") == "CXXRecordDecl" and n.get("name") == cls and n.get("completeDefinition"):
                    decl = n
        if decl is None:
            bad("its definition is not visible")
        if any(c.get("kind") == "CXXBaseSpecifier" for c in kids(decl)) or decl.get("bases"):
            bad("it has base classes")
        fields = [c for c in kids(decl) if c.get("kind") == "FieldDecl"]
        refs = [f for f in fields if qual(f) == "bool &"]
        saves = [f for f in fields if qual(f) == "const bool"]
        if len(refs) != 1 or len(refs) + len(saves) != len(fields) or len(saves) > 1:
            bad("its fields are not one `bool &` (plus at most one `const bool`)")
        if any(f.get("mutable") for f in fields):
            bad("it has a mutable field")
        fid = refs[0]["id"]
        sid = saves[0]["id"] if saves else None
        shape = "scopedRestore" if saves else "scoped"
        ref_first = fields[0]["id"] == fid

        def this_member(e, want):
            e = strip(e)
            return e.get("kind") == "MemberExpr" and e.get("referencedMemberDecl") == want and \
                strip(kids(e)[0]).get("kind") == "CXXThisExpr"

        def assigns_flag(body, rhs_ok):
            st = kids(body)
            if len(st) != 1:
                return False
            b = strip(st[0])
            if b.get("kind") != "BinaryOperator" or b.get("opcode") != "=":
                return False
            l, r = kids(b)
            return this_member(l, fid) and rhs_ok(r)

        def literal(value):
            return lambda r: strip(r).get("kind") == "CXXBoolLiteralExpr" and strip(r).get("value") is value

        def loads_saved(r):
            # strip() looks through the LValueToRValue cast as well
            return sid is not None and this_member(r, sid)
        ctors = dtors = 0
        for c in kids(decl):
            k = c.get("kind")
            if k in ("FieldDecl", "AccessSpecDecl", "FullComment") or (k == "CXXRecordDecl" and c.get("isImplicit")):
                continue
            if c.get("explicitlyDeleted") or c.get("isImplicit"):
                continue
            body = [x for x in kids(c) if x.get("kind") == "CompoundStmt"]
            if k == "CXXConstructorDecl":
                ps = [x for x in kids(c) if x.get("kind") == "ParmVarDecl"]
                inits = [x for x in kids(c) if x.get("kind") == "CXXCtorInitializer"]
                if len(ps) != 1 or qual(ps[0]) != "bool &" or len(inits) != len(fields) or len(body) != 1:
                    bad("its constructor is not (bool &) with one initializer per field")
                seen = set()
                for ini in inits:
                    tgt = (ini.get("anyInit") or {}).get("id")
                    src = strip(kids(ini)[0]) if kids(ini) else {}
                    from_arg = src.get("kind") == "DeclRefExpr" and (src.get("referencedDecl") or {}).get("id") == ps[0]["id"]
                    if tgt == fid:
                        if not from_arg:
                            bad("its constructor does not bind the reference field to the argument")
                    elif tgt == sid and sid is not None:
                        if not (from_arg or (ref_first and this_member(src, fid))):
                            bad("its constructor does not initialise the saved value from the flag")
                    else:
                        bad("its constructor initialises something else")
                    seen.add(tgt)
                if len(seen) != len(fields):
                    bad("its constructor does not initialise every field exactly once")
                if not assigns_flag(body[0], literal(True)):
                    bad("its constructor body is not `flag = true;`")
                ctors += 1
            elif k == "CXXDestructorDecl":
                if len(body) != 1 or not assigns_flag(body[0], loads_saved if saves else literal(False)):
                    bad("its destructor body is not `flag = %s;`" % ("saved value" if saves else "false"))
                dtors += 1
            else:
                bad("it has another member (%s %s)" % (k, c.get("name")))
        if ctors != 1 or dtors != 1:
            bad("it does not have exactly one constructor and one destructor")
        return shape

    def method_class(self):
        """id of a member function declaration -> name of its class"""
        if not hasattr(self, "_mcls"):
            self._mcls = {}
            for o in self.objs:
                for n in T.walk(o):
                    if n.get("kind") == "CXXRecordDecl" and n.get("name"):
                        for c in kids(n):
                            if c.get("kind") in ("CXXMethodDecl", "CXXConstructorDecl"):
                                self._mcls[c["id"]] = n["name"]
                    # out-of-line definitions (name lookup returns the most recent redeclaration)
                    if n.get("kind") in ("CXXMethodDecl", "CXXConstructorDecl") and n.get("parentDeclContextId") in self.class_names():
                        self._mcls[n["id"]] = self.class_names()[n["parentDeclContextId"]]
        return self._mcls

    def class_names(self):
        if not hasattr(self, "_cls"):
            self._cls = {}
            for o in self.objs:
                for n in T.walk(o):
                    if n.get("kind") == "CXXRecordDecl" and n.get("name"):
                        self._cls[n["id"]] = n["name"]
        return self._cls

    def line_of(self, n, stack):
        for a in [n] + stack[::-1]:
            for key in ("loc",):
                pass
            r = (a.get("range") or {}).get("begin") or {}
            for loc in (r, r.get("expansionLoc") or {}, r.get("spellingLoc") or {}):
                if "line" in loc:
                    return loc["line"]
        return 0

    def add_site(self, stack, fn, relf, target, kind, guard, node):
        self.sites.append({"file": relf, "function": fn, "line": self.line_of(node, stack), "target": target,
                           "kind": kind, "guard": guard})

    def scan_body(self, n, stack, fn, relf):
        k = n.get("kind")
        if k == "MemberExpr" and n.get("referencedMemberDecl") in self.fields:
            self.classify_member(n, stack, fn, relf)
        elif k == "CXXMemberCallExpr":
            callee = kids(n)[0] if kids(n) else {}
            if callee.get("kind") == "MemberExpr" and callee.get("referencedMemberDecl") in self.methods:
                name, const = self.methods[callee["referencedMemberDecl"]]
                objx = kids(callee)[0] if kids(callee) else {}
                if not const and not is_const_type(objx):
                    if name in ENTRY:
                        # one placement entry point calling another: the callee is analysed as well
                        self.delegations.append({"file": relf, "function": fn, "line": self.line_of(n, stack),
                                                 "callee": "Circuit::" + name, "simple": name})
                    else:
                        self.add_site(stack, fn, relf, "method:" + name, "call", "none", n)
                else:
                    self.reached[name] = True
        elif k == "CXXOperatorCallExpr" and len(kids(n)) >= 2:
            # whole-object assignment `circuit = …` (and any other mutating operator on a Circuit)
            op = operator_name(n) or ""
            objx = kids(n)[1]
            if re.fullmatch(r"(coloquinte::)?Circuit", qual(objx)) and op.endswith("=") and op not in ("operator==", "operator!=", "operator<=", "operator>="):
                self.add_site(stack, fn, relf, "method:" + op, "call", "none", n)
        elif k == "UnaryOperator" and n.get("opcode") == "&" and kids(n) and \
                re.fullmatch(r"(coloquinte::)?Circuit", qual(kids(n)[0])):
            self.delegations.append({"file": relf, "function": fn, "line": self.line_of(n, stack),
                                     "callee": "&circuit (address taken)", "simple": "&"})
        if k in ("CallExpr", "CXXMemberCallExpr", "CXXConstructExpr", "CXXOperatorCallExpr", "CXXTemporaryObjectExpr"):
            self.check_handover(n, stack, fn, relf)
        for c in kids(n):
            self.scan_body(c, stack + [n], fn, relf)

    def check_handover(self, call, stack, fn, relf):
        ks = kids(call)
        args = ks if call.get("kind") in ("CXXConstructExpr", "CXXTemporaryObjectExpr") else ks[1:]
        for a in args:
            # a non-const Circuit lvalue passed as is (a const& parameter shows up as a NoOp cast to const,
            # a by-value parameter as a copy CXXConstructExpr)
            if a.get("kind") not in ("ImplicitCastExpr", "CXXConstructExpr", "MaterializeTemporaryExpr") \
                    and re.fullmatch(r"(coloquinte::)?Circuit", qual(a)) and a.get("valueCategory") in ("lvalue", "xvalue"):
                if call.get("kind") in ("CXXConstructExpr", "CXXTemporaryObjectExpr"):
                    cls = re.sub(r"^(const )?(coloquinte::)?", "", qual(call))
                    callee = cls + "::" + cls
                    simple = cls
                else:
                    f = strip(ks[0])
                    simple = f.get("name") or (f.get("referencedDecl") or {}).get("name") or "?"
                    did = f.get("referencedMemberDecl") or (f.get("referencedDecl") or {}).get("id")
                    cls = self.method_class().get(did)
                    callee = (cls + "::" if cls else "") + simple
                self.delegations.append({"file": relf, "function": fn, "line": self.line_of(call, stack),
                                         "callee": callee, "simple": simple})

    def classify_member(self, m, stack, fn, relf):
        name = self.fields[m["referencedMemberDecl"]]
        if is_const_type(m):
            return
        base = kids(m)[0] if kids(m) else {}
        obj = self.circuit_object(base)
        # ancestors, innermost first, skipping parentheses
        up = [a for a in stack[::-1]]

        def parent_of(node, start):
            """first non-paren ancestor of `node` in up[start:], with its index"""
            i = start
            while i < len(up) and up[i].get("kind") == "ParenExpr":
                i += 1
            return (up[i], i) if i < len(up) else ({}, i)

        def unknown(why):
            raise T.TranslateError("%s:%d: %s: use of Circuit member %s not understood (%s)" % (
                relf, self.line_of(m, stack), fn, name, why))

        p, pi = parent_of(m, 0)
        pk = p.get("kind")
        if pk == "ImplicitCastExpr":
            if p.get("castKind") == "LValueToRValue":
                return
            if p.get("castKind") == "NoOp" and is_const_type(p):
                return
            unknown("cast " + str(p.get("castKind")))
        if pk in ("BinaryOperator", "CompoundAssignOperator"):
            if p.get("opcode") in ASSIGN_OPS and kids(p)[0] is self.unparen_child(p, m, up, 0):
                self.add_site(stack, fn, relf, name, "whole", "none", p)
                return
            if p.get("opcode") not in ASSIGN_OPS:
                unknown("operand of " + str(p.get("opcode")))
            return  # right-hand side of an assignment is under an LValueToRValue cast; not reached
        if pk == "UnaryOperator":
            if p.get("opcode") in ("++", "--"):
                self.add_site(stack, fn, relf, name, "whole", "none", p)
                return
            unknown("unary " + str(p.get("opcode")))
        if pk == "MemberExpr":
            # a member function of the data member, called on the non-const object
            self.add_site(stack, fn, relf, name, "whole", "none", p)
            self.sites[-1]["via"] = p.get("name")
            return
        if pk == "CXXConstructExpr":
            cls = re.sub(r"^(const )?(coloquinte::)?(\(anonymous namespace\)::)?", "", qual(p))
            shape = self.flag_guard(cls, "%s:%d: %s" % (relf, self.line_of(m, stack), fn))
            var, dst, comp, fun = (up[pi + 1:pi + 5] + [{}] * 4)[:4]
            if var.get("kind") != "VarDecl" or var.get("storageClass") or dst.get("kind") != "DeclStmt" or \
                    comp.get("kind") != "CompoundStmt" or fun is not stack[0] or len(kids(p)) != 1:
                unknown("flag guard that is not an automatic variable declared directly in the function body")
            self.add_site(stack, fn, relf, name, shape, "none", p)
            self.sites[-1]["via"] = cls
            return
        if pk == "CXXOperatorCallExpr":
            op = operator_name(p)
            ks = kids(p)
            if op == "operator=" and len(ks) >= 2 and strip(ks[1]) is m:
                self.add_site(stack, fn, relf, name, "whole", "none", p)
                return
            if op == "operator[]" and len(ks) == 3 and strip(ks[1]) is m:
                return self.classify_element(name, obj, p, ks[2], up, pi + 1, stack, fn, relf, unknown)
            unknown("operator call " + str(op))
        unknown("parent " + str(pk))

    @staticmethod
    def unparen_child(p, m, up, start):
        """the direct child of p on the path down to m"""
        i = start
        child = m
        while up[i] is not p:
            child = up[i]
            i += 1
        return child

    def classify_element(self, name, obj, elem, idx_expr, up, start, stack, fn, relf, unknown):
        i = start
        while i < len(up) and up[i].get("kind") == "ParenExpr":
            i += 1
        p = up[i] if i < len(up) else {}
        pk = p.get("kind")
        # ancestors of elem, outermost first
        anc = stack[:len(stack) - start]

        def site():
            self.add_site(stack, fn, relf, name, "element", self.guard_of(anc + [elem], obj, idx_expr), elem)

        if pk == "ImplicitCastExpr" and p.get("castKind") == "LValueToRValue":
            return
        if pk == "ImplicitCastExpr" and p.get("castKind") == "NoOp" and is_const_type(p):
            return
        if pk in ("BinaryOperator", "CompoundAssignOperator") and p.get("opcode") in ASSIGN_OPS:
            if strip(kids(p)[0]) is elem:
                return site()
            unknown("element on the right of an assignment without a load")
        if pk == "UnaryOperator" and p.get("opcode") in ("++", "--"):
            return site()
        if pk == "CXXOperatorCallExpr":
            op = operator_name(p)
            if op in ("operator=", "operator+=", "operator-=", "operator|=", "operator&=", "operator^=") and strip(kids(p)[1]) is elem:
                return site()
            unknown("element passed to " + str(op))
        if pk == "MaterializeTemporaryExpr":
            # vector<bool> proxy
            j = i + 1
            q = up[j] if j < len(up) else {}
            if q.get("kind") == "ImplicitCastExpr" and q.get("castKind") == "NoOp" and is_const_type(q):
                r = up[j + 1] if j + 1 < len(up) else {}
                if r.get("kind") == "MemberExpr" and r.get("name") == "operator bool":
                    return
            if q.get("kind") == "CXXOperatorCallExpr" and operator_name(q) == "operator=":
                return site()
            if q.get("kind") == "MemberExpr" and q.get("name") in ("flip",):
                return site()
            unknown("vector<bool> proxy used by " + str(q.get("kind")))
        unknown("element used by " + str(pk))


def _scan(rel):
    fs = FileScan(rel)
    fs.scan()
    return fs


def generate():
    files = []
    for d in DIRS:
        for fn in sorted(os.listdir(os.path.join(C.REPO, d))):
            if fn.endswith(".cpp"):
                files.append(os.path.join(d, fn))
    if False:
        raise T.TranslateError("expected the place_global/place_detailed sources, found %d files" % len(files))
    headers = []
    for d in DIRS:
        headers += [os.path.join(d, fn) for fn in sorted(os.listdir(os.path.join(C.REPO, d))) if fn.endswith((".hpp", ".h"))]
    for f in EXTRA_TUS:
        if not os.path.exists(os.path.join(C.REPO, f)):
            raise T.TranslateError("expected translation unit %s is missing" % f)
    other = sorted(os.path.relpath(os.path.join(dp, fn), C.REPO) for dp, _, fns in os.walk(os.path.join(C.REPO, "src"))
                   for fn in fns if fn.endswith((".cpp", ".cc", ".cxx")))
    unknown_tus = [f for f in other if f not in files and f not in EXTRA_TUS]
    if unknown_tus:
        raise T.TranslateError("translation units of /repo/src this table does not know about: %s" % unknown_tus)
    dir_files = list(files)
    files = files + EXTRA_TUS
    with ThreadPoolExecutor(min(C.NCPU, len(files))) as ex:
        scans = list(ex.map(_scan, files))
    sites, dels, defined, seen_files = {}, {}, {}, set()
    reached, escapes = {}, {}
    for fs in scans:
        reached.update(fs.reached)
        for e in fs.escapes:
            escapes[(e["file"], e["line"], e["function"], e["what"])] = e
        for s in fs.sites:
            sites[(s["file"], s["line"], s["function"], s["target"], s["kind"])] = s
        for dl in fs.delegations:
            dels[(dl["file"], dl["line"], dl["function"], dl["callee"])] = dl
        for df in fs.defined:
            defined[(df["file"], df["qname"])] = df
            seen_files.add(df["file"])
    # every header of the two directories must have been visible from some analysed .cpp
    visible = set()
    for fs in scans:
        visible |= fs.deps
    missing = [h for h in headers if h not in visible]
    if missing:
        raise T.TranslateError("headers never included by an analysed source: %s" % missing)
    analysed = {}
    for df in defined.values():
        if df["circuit_ref"]:
            analysed.setdefault(df["qname"], set()).add(df["file"])
    entries = sorted((df["qname"], df["file"]) for df in defined.values() if df["qname"].startswith("Circuit::"))
    for nm in ENTRY:
        if not any(q == "Circuit::" + nm for q, _ in entries):
            raise T.TranslateError("no definition of the placement entry point Circuit::%s found" % nm)
    for nm in ("placeGlobal", "legalize", "placeDetailed"):
        if not any(q == "Circuit::" + nm and f == "src/coloquinte.cpp" for q, f in entries):
            raise T.TranslateError("Circuit::%s(params, callback) is not defined in src/coloquinte.cpp" % nm)
    if sum(1 for fs in scans if fs.sees_circuit) < 4:
        raise T.TranslateError("class Circuit is visible from fewer than 4 of the analysed sources")
    site_list = sorted(sites.values(), key=lambda s: (s["file"], s["line"], s["target"]))
    del_list = sorted(dels.values(), key=lambda s: (s["file"], s["line"], s["callee"]))
    if not any(s["target"] == "cellX_" for s in site_list):
        raise T.TranslateError("no write to cellX_ found: the scan is not seeing the export functions")

    def on_global_path(f, qname):
        """global placement = src/place_global plus every overload of Circuit::placeGlobal"""
        return f.startswith("src/place_global/") or (qname == "Circuit::placeGlobal" and f in ENTRY_FILES)

    def target(t):
        if t in ALLOWED:
            return "." + t
        if t.startswith("method:"):
            return '(.method "%s")' % t[7:]
        return '(.otherField "%s")' % t

    L = []
    L.append("/-")
    L.append("Every site inside /repo/src/place_global, /repo/src/place_detailed and the placement entry points of")
    L.append("`Circuit` (src/coloquinte.hpp, src/coloquinte.cpp) that can modify a `Circuit` (assignment to a data member")
    L.append("or to one of its elements, non-const call on a data member, non-const `Circuit` method call, scoped flag")
    L.append("guard) and every hand-over of a non-const `Circuit &`; the const `Circuit` methods reached from there and")
    L.append("every construct in /repo/src that could remove a `const` (see tools/gen/WriteSets.py).")
    L.append("Sources: " + ", ".join("%s %s" % (f, T.digest(T.read(f))) for f in files + headers + ["src/coloquinte.hpp"]))
    L.append("-/")
    L.append("namespace ColoVerif.Gen.WriteSets")
    L.append("")
    L.append("/-- what is written: one of the five members the property allows, any other data member, or a")
    L.append("non-const method of `Circuit` -/")
    L.append("inductive Target where")
    for a in ALLOWED:
        L.append("  | %s" % a)
    L.append("  | otherField (name : String)")
    L.append("  | method (name : String)")
    L.append("deriving Repr, DecidableEq")
    L.append("")
    L.append("inductive Kind where")
    L.append("  /-- `scoped`: flag guard that sets on entry and clears on exit; `scopedRestore`: saves, sets, restores -/")
    L.append("  | element | whole | call | scoped | scopedRestore")
    L.append("deriving Repr, DecidableEq")
    L.append("")
    L.append("/-- how the write is protected against fixed cells (see tools/gen/WriteSets.py) -/")
    L.append("inductive Guard where")
    L.append("  | skipContinue | ifNotFixed | none")
    L.append("deriving Repr, DecidableEq")
    L.append("")
    L.append("structure WriteSite where")
    L.append("  file : String")
    L.append("  function : String")
    L.append("  line : Nat")
    L.append("  target : Target")
    L.append("  kind : Kind")
    L.append("  guard : Guard")
    L.append("  /-- in src/place_global or in an overload of `Circuit::placeGlobal` -/")
    L.append("  inPlaceGlobal : Bool")
    L.append("deriving Repr")
    L.append("")
    L.append("def writeSites : List WriteSite := [")
    rows = []
    for s in site_list:
        rows.append('  ⟨"%s", "%s", %d, %s, .%s, .%s, %s⟩' % (
            s["file"], s["function"], s["line"], target(s["target"]), s["kind"], s["guard"],
            "true" if on_global_path(s["file"], s["function"]) else "false"))
    L.append(",\n".join(rows))
    L.append("]")
    L.append("")
    L.append("/-- a non-const `Circuit &` handed to another function; `calleeAnalysed`: a function of that name")
    L.append("taking `Circuit &` is defined inside the analysed directories (its writes are in `writeSites`);")
    L.append("`inPlaceGlobal`: the caller is in src/place_global or is an overload of `Circuit::placeGlobal`;")
    L.append("`calleeInPlaceGlobal`: every definition of the callee is -/")
    L.append("structure HandOver where")
    L.append("  file : String")
    L.append("  function : String")
    L.append("  line : Nat")
    L.append("  callee : String")
    L.append("  calleeAnalysed : Bool")
    L.append("  inPlaceGlobal : Bool")
    L.append("  calleeInPlaceGlobal : Bool")
    L.append("deriving Repr")
    L.append("")
    L.append("def handOvers : List HandOver := [")
    rows = []
    for d in del_list:
        where = analysed.get(d["callee"], set())
        ok = bool(where)
        cg = ok and all(on_global_path(f, d["callee"]) for f in where)
        rows.append('  ⟨"%s", "%s", %d, "%s", %s, %s, %s⟩' % (
            d["file"], d["function"], d["line"], d["callee"], "true" if ok else "false",
            "true" if on_global_path(d["file"], d["function"]) else "false", "true" if cg else "false"))
    L.append(",\n".join(rows))
    L.append("]")
    L.append("")
    L.append("/-- the placement entry points of `Circuit` that were analysed: (qualified name, file), one per overload -/")
    L.append("def entryPoints : List (String × String) := [")
    L.append(",\n".join('  ("%s", "%s")' % e for e in entries))
    L.append("]")
    L.append("")
    L.append("/-- const (or static) `Circuit` methods called from the analysed functions -/")
    L.append("def reachedConstMethods : List String := [" + ", ".join('"%s"' % r for r in sorted(reached)) + "]")
    L.append("")
    L.append("/-- a construct that could remove `const` from a `Circuit` (const_cast, reinterpret_cast, C-style pointer or")
    L.append("reference cast, mutable field), anywhere in /repo/src -/")
    L.append("structure ConstEscape where")
    L.append("  file : String")
    L.append("  function : String")
    L.append("  line : Nat")
    L.append("  what : String")
    L.append("deriving Repr")
    L.append("")
    esc_list = sorted(escapes.values(), key=lambda e: (e["file"], e["line"], e["what"]))
    L.append("def constEscapes : List ConstEscape := [")
    L.append(",\n".join('  ⟨"%s", "%s", %d, "%s"⟩' % (e["file"], e["function"], e["line"], e["what"].replace('"', "'")) for e in esc_list))
    L.append("]")
    L.append("")
    L.append("end ColoVerif.Gen.WriteSets")
    info = {"write_sites": len(site_list), "hand_overs": len(del_list), "functions_analysed": len(defined),
            "entry_points": ["%s (%s)" % e for e in entries], "reached_const_methods": sorted(reached),
            "const_escapes": len(esc_list), "translation_units": len(files),
            "files": len(files) + len(headers),
            "sites": ["%s:%d %s %s %s %s" % (s["file"], s["line"], s["function"], s["target"], s["kind"], s["guard"]) for s in site_list]}
    return {"WriteSets.lean": "\n".join(L) + "\n", "info": info}


if __name__ == "__main__":
    r = generate()
    print(r["WriteSets.lean"])
    print(json.dumps(r["info"], indent=1))
