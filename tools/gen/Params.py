"""Translator piece for C19: src/parameters.cpp -> lean/ColoVerif/Gen/Params.lean
(+ $VERIF_CACHE/gen/c19_params.hpp, the field / bound lists the C++ harness iterates over).

What is read from the source on every run (clang-14 JSON AST, nothing is defaulted):
  * the seven `*Parameters` records (field names and types, nesting);
  * the seven `check()` bodies: a sequence of `sub.check();` calls and
    `if (<cond>) throw std::runtime_error("<msg>");` statements.  Conditions are
    comparisons of fields with literals joined by || && !.  A `float` literal such as
    `0.9f` is emitted as the exact binary32 rational (the field is a double and the
    comparison is done in double); a double literal as the exact binary64 rational;
  * the seven constructors as a flattened event list (effort range check / array index
    `a[effort+k]` with the declared array size / `assert(lo <= effort <= hi)` reached through
    interpolateEffort / nested constructor entry+exit), in evaluation order;
  * default values for effort 1..9: printed by the compiled harness
    (`h_C19 --dump-defaults`, exact mantissa/exponent) and turned into a Lean table.
Any statement or expression outside these shapes raises TranslateError.
"""
import os
import struct
import subprocess
from fractions import Fraction

import common as C
import translate as T

SRC = "src/parameters.cpp"
STRUCTS = ["RoughLegalizationParameters", "PenaltyParameters", "ContinuousModelParameters",
           "GlobalPlacerParameters", "LegalizationParameters", "DetailedPlacerParameters",
           "ColoquinteParameters"]
# the generated header lives in the (per-run-environment) cache, next to the library built from the same tree
HDR_DIR = os.path.join(C.CACHE, "gen")
HDR = os.path.join(HDR_DIR, "c19_params.hpp")
HARNESS_FLAGS = ("-I" + HDR_DIR,)


def err(msg):
    raise T.TranslateError("Params: " + msg)


def inner(n):
    return [c for c in (n.get("inner") or []) if isinstance(c, dict) and c.get("kind") != "FullComment"]


def strip(n):
    """Remove wrappers that do not change the value."""
    while True:
        k = n.get("kind")
        if k in ("ParenExpr", "ExprWithCleanups", "CXXBindTemporaryExpr", "MaterializeTemporaryExpr", "ConstantExpr"):
            n = inner(n)[0]
        elif k == "ImplicitCastExpr" and n.get("castKind") in ("LValueToRValue", "NoOp", "FunctionToPointerDecay",
                                                                "ArrayToPointerDecay"):
            n = inner(n)[0]
        elif k in ("CXXStaticCastExpr",) and n.get("castKind") == "NoOp":
            n = inner(n)[0]
        else:
            return n


def qual(n):
    return (n.get("type") or {}).get("qualType", "")


def frac_lean(fr):
    fr = Fraction(fr)
    if fr.denominator == 1:
        return "(%d : Rat)" % fr.numerator
    return "((%d : Rat) / %d)" % (fr.numerator, fr.denominator)


def float_literal(n):
    """Exact value of a FloatingLiteral as a Fraction, honouring its type."""
    t = qual(n)
    v = float(n["value"])
    if t == "float":
        v = struct.unpack("f", struct.pack("f", v))[0]
    elif t != "double":
        err("floating literal of unexpected type %s" % t)
    return Fraction(v)


class Ctx:
    def __init__(self):
        self.records = {}     # name -> [(field, kind, typeName)]   kind in I D B E S
        self.record_id = {}   # decl id -> name
        self.enums = {}       # enum name -> {const: value}
        self.checks = {}      # record -> items
        self.ctors = {}       # record -> ctor decl
        self.funcs = {}       # helper function name -> decl
        self.bounds = []      # (struct, field, kind, Fraction)
        self.pairs = []       # (struct, fieldA, fieldB): fieldA compared with fieldB


def load(ctx):
    objs = T.clang_ast(SRC, "Parameters")
    for o in objs:
        if o.get("kind") == "CXXRecordDecl" and o.get("name") in STRUCTS and o.get("completeDefinition"):
            fields = []
            for c in inner(o):
                if c.get("kind") == "FieldDecl":
                    t = qual(c)
                    if t == "int":
                        fields.append((c["name"], "I", t))
                    elif t == "double":
                        fields.append((c["name"], "D", t))
                    elif t == "bool":
                        fields.append((c["name"], "B", t))
                    elif t.startswith("coloquinte::") and t.split("::")[1] in STRUCTS:
                        fields.append((c["name"], "S", t.split("::")[1]))
                    elif t.startswith("coloquinte::"):
                        fields.append((c["name"], "E", t.split("::")[1]))
                    else:
                        err("field %s.%s has unsupported type %s" % (o["name"], c["name"], t))
            ctx.records[o["name"]] = fields
            ctx.record_id[o["id"]] = o["name"]
    missing = [s for s in STRUCTS if s not in ctx.records]
    if missing:
        err("records not found: %s" % missing)
    for o in objs:
        par = ctx.record_id.get(o.get("parentDeclContextId"))
        if par is None or not any(c.get("kind") == "CompoundStmt" for c in inner(o)):
            continue
        if o.get("kind") == "CXXMethodDecl" and o.get("name") == "check":
            ctx.checks[par] = o
        if o.get("kind") == "CXXConstructorDecl":
            if par in ctx.ctors:
                err("two constructor definitions for " + par)
            ctx.ctors[par] = o
    for s in STRUCTS:
        if s not in ctx.checks:
            err("no definition of %s::check" % s)
        if s not in ctx.ctors:
            err("no constructor definition for " + s)
    # enums used by the fields
    for rec in ctx.records.values():
        for (_, k, tn) in rec:
            if k == "E" and tn not in ctx.enums:
                vals, nxt = {}, 0
                found = False
                for o in T.clang_ast(SRC, "coloquinte::" + tn):
                    if o.get("kind") == "EnumDecl" and o.get("name") == tn:
                        found = True
                        for c in inner(o):
                            if c.get("kind") == "EnumConstantDecl":
                                ii = inner(c)
                                if ii:
                                    lit = strip(ii[0])
                                    if lit.get("kind") != "IntegerLiteral":
                                        err("enum %s: non-literal initialiser" % tn)
                                    nxt = int(lit["value"])
                                vals[c["name"]] = nxt
                                nxt += 1
                if not found:
                    err("enum %s not found" % tn)
                ctx.enums[tn] = vals
    for o in T.clang_ast(SRC, "Effort"):
        if o.get("kind") == "FunctionDecl" and any(c.get("kind") == "CompoundStmt" for c in inner(o)):
            ctx.funcs[o["name"]] = o


# --------------------------------------------------------------------------- check() bodies

def this_field(n, rec, ctx):
    """MemberExpr on `this` -> (name, kind, type) or None."""
    n = strip(n)
    if n.get("kind") != "MemberExpr":
        return None
    base = strip(inner(n)[0])
    if base.get("kind") != "CXXThisExpr":
        return None
    for f in ctx.records[rec]:
        if f[0] == n["name"]:
            return f
    err("%s::check uses unknown member %s" % (rec, n.get("name")))


def num_expr(n, rec, ctx):
    """Numeric expression -> (lean Rat term, kind, description) ; kind 'field'/'lit'."""
    n = strip(n)
    k = n.get("kind")
    if k == "ImplicitCastExpr" and n.get("castKind") in ("IntegralToFloating", "IntegralCast"):
        return num_expr(inner(n)[0], rec, ctx)
    if k == "ImplicitCastExpr" and n.get("castKind") == "FloatingCast":
        src = strip(inner(n)[0])
        if qual(n) == "double" and qual(src) in ("float", "double"):
            return num_expr(src, rec, ctx)
        err("%s::check: narrowing floating cast %s -> %s" % (rec, qual(src), qual(n)))
    if k == "FloatingLiteral":
        fr = float_literal(n)
        return (frac_lean(fr), "lit", fr)
    if k == "IntegerLiteral":
        return ("(%d : Rat)" % int(n["value"]), "lit", Fraction(int(n["value"])))
    if k == "UnaryOperator" and n.get("opcode") == "-":
        t, kk, v = num_expr(inner(n)[0], rec, ctx)
        if kk != "lit":
            err("%s::check: negation of a non-literal" % rec)
        return (frac_lean(-v), "lit", -v)
    f = this_field(n, rec, ctx)
    if f is not None:
        if f[1] == "I":
            return ("(p.%s : Rat)" % f[0], "field", f)
        if f[1] == "D":
            return ("p.%s" % f[0], "field", f)
        err("%s::check: member %s used as a number" % (rec, f[0]))
    err("%s::check: unsupported numeric expression %s" % (rec, k))


CMP = {"<": "<", "<=": "≤", ">": ">", ">=": "≥", "==": "=", "!=": "≠"}


def bool_expr(n, rec, ctx):
    n = strip(n)
    k = n.get("kind")
    if k == "BinaryOperator" and n.get("opcode") in ("||", "&&"):
        a, b = inner(n)
        return "(%s %s %s)" % (bool_expr(a, rec, ctx), n["opcode"], bool_expr(b, rec, ctx))
    if k == "UnaryOperator" and n.get("opcode") == "!":
        return "(!%s)" % bool_expr(inner(n)[0], rec, ctx)
    if k == "BinaryOperator" and n.get("opcode") in CMP:
        a, b = inner(n)
        sa, sb = strip(a), strip(b)
        # enum comparison
        for x, y in ((sa, sb), (sb, sa)):
            if y.get("kind") == "DeclRefExpr" and (y.get("referencedDecl") or {}).get("kind") == "EnumConstantDecl":
                f = this_field(x, rec, ctx)
                if f is None or f[1] != "E":
                    err("%s::check: enum constant compared with a non-enum member" % rec)
                if n["opcode"] not in ("==", "!="):
                    err("%s::check: ordered comparison of an enum" % rec)
                val = ctx.enums[f[2]].get(y["referencedDecl"]["name"])
                if val is None:
                    err("%s::check: unknown enum constant %s" % (rec, y["referencedDecl"]["name"]))
                return "(decide (p.%s %s %d))" % (f[0], CMP[n["opcode"]], val)
        ta, ka, va = num_expr(a, rec, ctx)
        tb, kb, vb = num_expr(b, rec, ctx)
        # record the bound for the harness (field vs literal)
        if ka == "field" and kb == "lit":
            ctx.bounds.append((rec, va[0], va[1], vb))
        elif kb == "field" and ka == "lit":
            ctx.bounds.append((rec, vb[0], vb[1], va))
        elif ka == "field" and kb == "field":
            if va[1] != "I" or vb[1] != "I":
                err("%s::check: comparison of two non-int members" % rec)
            ctx.pairs.append((rec, va[0], vb[0]))
        return "(decide (%s %s %s))" % (ta, CMP[n["opcode"]], tb)
    f = this_field(n, rec, ctx)
    if f is not None and f[1] == "B":
        return "p.%s" % f[0]
    err("%s::check: unsupported condition of kind %s" % (rec, k))


def throw_message(stmt, where):
    """`throw std::runtime_error("...")` (possibly inside a compound) -> (class, message)."""
    s = strip(stmt)
    if s.get("kind") == "CompoundStmt":
        ii = inner(s)
        if len(ii) != 1:
            err("%s: then-branch is not a single throw" % where)
        s = strip(ii[0])
    if s.get("kind") != "CXXThrowExpr":
        err("%s: then-branch is not a throw (%s)" % (where, s.get("kind")))
    msg, cls = None, None
    for d in T.walk(s):
        if d.get("kind") == "StringLiteral" and msg is None:
            msg = d["value"]
        if d.get("kind") in ("CXXConstructExpr", "CXXFunctionalCastExpr", "CXXTemporaryObjectExpr") and cls is None:
            cls = qual(d)
    if cls != "std::runtime_error":
        err("%s: throws %s, not std::runtime_error" % (where, cls))
    if msg is None:
        err("%s: throw without a literal message" % where)
    return cls, msg


def parse_check(rec, ctx):
    body = [c for c in inner(ctx.checks[rec]) if c.get("kind") == "CompoundStmt"][0]
    items = []
    for st in inner(body):
        s = strip(st)
        if s.get("kind") == "CXXMemberCallExpr":
            callee = strip(inner(s)[0])
            if callee.get("kind") == "MemberExpr" and callee.get("name") == "check" and len(inner(s)) == 1:
                f = this_field(inner(callee)[0], rec, ctx)
                if f is None or f[1] != "S":
                    err("%s::check calls check() on something that is not a parameter member" % rec)
                items.append(("sub", f[0], f[2]))
                continue
            err("%s::check: unsupported call" % rec)
        if s.get("kind") == "IfStmt":
            ii = inner(s)
            if len(ii) != 2 or s.get("hasElse"):
                err("%s::check: if with else / init" % rec)
            cond = bool_expr(ii[0], rec, ctx)
            _, msg = throw_message(ii[1], rec + "::check")
            items.append(("if", cond, msg))
            continue
        err("%s::check: unsupported statement %s" % (rec, s.get("kind")))
    return items


# --------------------------------------------------------------------------- constructors

def int_const(n, env=None):
    n = strip(n)
    if n.get("kind") == "IntegerLiteral":
        return int(n["value"])
    if n.get("kind") == "UnaryOperator" and n.get("opcode") == "-":
        v = int_const(inner(n)[0], env)
        return None if v is None else -v
    if env is not None and n.get("kind") == "DeclRefExpr":
        return env.get((n.get("referencedDecl") or {}).get("name"))
    return None


def is_param(n, name):
    n = strip(n)
    return n.get("kind") == "DeclRefExpr" and (n.get("referencedDecl") or {}).get("kind") == "ParmVarDecl" and \
        n["referencedDecl"].get("name") == name


def range_check_cond(n, var):
    """`var < lo || var > hi` -> (lo, hi)"""
    n = strip(n)
    if n.get("kind") == "BinaryOperator" and n.get("opcode") == "||":
        a, b = [strip(x) for x in inner(n)]
        if a.get("opcode") == "<" and b.get("opcode") == ">" and is_param(inner(a)[0], var) and is_param(inner(b)[0], var):
            lo, hi = int_const(inner(a)[1]), int_const(inner(b)[1])
            if lo is not None and hi is not None:
                return lo, hi
    return None


def checked_effort_summary(ctx):
    """checkedEffort(int e): `if (e < lo || e > hi) throw ...; return e;` -> (lo, hi) or None if absent."""
    f = ctx.funcs.get("checkedEffort")
    if f is None:
        return None
    parms = [c["name"] for c in inner(f) if c.get("kind") == "ParmVarDecl"]
    body = [c for c in inner(f) if c.get("kind") == "CompoundStmt"][0]
    st = inner(body)
    if len(parms) != 1 or len(st) != 2 or st[0].get("kind") != "IfStmt" or st[1].get("kind") != "ReturnStmt":
        err("checkedEffort has an unexpected shape")
    r = range_check_cond(inner(st[0])[0], parms[0])
    if r is None:
        err("checkedEffort: condition is not `e < lo || e > hi`")
    throw_message(inner(st[0])[1], "checkedEffort")
    if not is_param(inner(st[1])[0], parms[0]):
        err("checkedEffort does not return its argument")
    return r


def assert_cond(st):
    """assert(c) as expanded by glibc -> c, else None"""
    s = strip(st)
    if s.get("kind") != "ConditionalOperator":
        return None
    ii = inner(s)
    callee = [d for d in T.walk(ii[2]) if d.get("kind") == "DeclRefExpr" and
              (d.get("referencedDecl") or {}).get("name") == "__assert_fail"]
    if not callee:
        return None
    return strip(ii[0])


def helper_summary(name, ctx, depth=0):
    """Events of interpolateEffort / interpolateLogEffort in terms of (effortParam, {param defaults}).
    Returns (param names, defaults dict, list of ('assertRange', loExpr, hiExpr) / ('assertLt', a, b) / ('call', fn, argnodes))"""
    f = ctx.funcs.get(name)
    if f is None or depth > 3:
        err("helper %s not found" % name)
    parms, defaults = [], {}
    for c in inner(f):
        if c.get("kind") == "ParmVarDecl":
            parms.append(c["name"])
            if inner(c):
                v = int_const(inner(c)[0])
                if v is not None:
                    defaults[c["name"]] = v
    body = [c for c in inner(f) if c.get("kind") == "CompoundStmt"][0]
    evs = []
    for st in inner(body):
        c = assert_cond(st)
        if c is not None:
            evs.append(("assert", c))
            continue
        for d in T.walk(st):
            if d.get("kind") == "CallExpr":
                cal = strip(inner(d)[0])
                fn = (cal.get("referencedDecl") or {}).get("name")
                if fn in ctx.funcs:
                    evs.append(("call", fn, inner(d)[1:]))
            if d.get("kind") == "ArraySubscriptExpr":
                err("helper %s indexes an array" % name)
    return parms, defaults, evs


def helper_events(name, args, caller_env, ctx, depth=0):
    """Events produced by calling helper `name` with argument nodes `args`; the effort is passed symbolically.
    caller_env maps the caller's int parameter names to constants or to 'EFFORT'."""
    parms, defaults, evs = helper_summary(name, ctx, depth)
    env = {}
    for i, p in enumerate(parms):
        a = args[i] if i < len(args) else None
        if a is None or a.get("kind") == "CXXDefaultArgExpr":
            env[p] = defaults.get(p)
            continue
        sa = strip(a)
        if sa.get("kind") == "DeclRefExpr" and caller_env.get((sa.get("referencedDecl") or {}).get("name")) is not None:
            env[p] = caller_env[sa["referencedDecl"]["name"]]
        else:
            env[p] = int_const(sa)   # None for the double arguments: irrelevant
    out = []
    for e in evs:
        if e[0] == "assert":
            c = e[1]

            def val(n):
                n = strip(n)
                if n.get("kind") == "DeclRefExpr":
                    return env.get((n.get("referencedDecl") or {}).get("name"))
                return int_const(n)
            if c.get("kind") == "BinaryOperator" and c.get("opcode") == "&&":
                a, b = [strip(x) for x in inner(c)]
                if a.get("opcode") == ">=" and b.get("opcode") == "<=" and val(inner(a)[0]) == "EFFORT" and \
                        val(inner(b)[0]) == "EFFORT":
                    lo, hi = val(inner(a)[1]), val(inner(b)[1])
                    if isinstance(lo, int) and isinstance(hi, int):
                        out.append("CtorEv.assertRange %d %d" % (lo, hi))
                        continue
                err("helper %s: unsupported assert over effort" % name)
            elif c.get("kind") == "BinaryOperator" and c.get("opcode") in CMP:
                a, b = val(inner(c)[0]), val(inner(c)[1])
                if isinstance(a, int) and isinstance(b, int):
                    ok = {"<": a < b, "<=": a <= b, ">": a > b, ">=": a >= b, "==": a == b, "!=": a != b}[c["opcode"]]
                    if not ok:
                        out.append("CtorEv.assertRange 1 0")   # an assertion that always fails
                    continue
                if a == "EFFORT" or b == "EFFORT":
                    err("helper %s: unsupported assert over effort" % name)
                err("helper %s: assert over values the translator cannot evaluate" % name)
            else:
                err("helper %s: unsupported assert" % name)
        else:
            out += helper_events(e[1], e[2], env, ctx, depth + 1)
    return out


def ctor_events(rec, ctx, stack=()):
    if rec in stack:
        err("recursive constructor " + rec)
    ctor = ctx.ctors[rec]
    parms = [c["name"] for c in inner(ctor) if c.get("kind") == "ParmVarDecl"]
    if not parms:
        err("constructor of %s takes no effort" % rec)
    eff = parms[0]
    ce = checked_effort_summary(ctx)
    evs = []
    consumed = set()   # ids of DeclRefExpr(effort) nodes that were understood

    def effort_like(n):
        """n is `effort` or `checkedEffort(effort)`; emits the check event in the latter case."""
        s = strip(n)
        if is_param(s, eff):
            consumed.add(s["id"])
            return True
        if s.get("kind") == "CallExpr":
            cal = strip(inner(s)[0])
            if (cal.get("referencedDecl") or {}).get("name") == "checkedEffort" and len(inner(s)) == 2 and \
                    is_param(inner(s)[1], eff):
                if ce is None:
                    err("call to an unknown checkedEffort")
                consumed.add(strip(inner(s)[1])["id"])
                evs.append("CtorEv.effortCheck %d %d" % ce)
                return True
        return False

    def expr(n):
        """post-order walk of an expression, emitting events"""
        s = strip(n)
        k = s.get("kind")
        if k == "ArraySubscriptExpr":
            base, idx = inner(s)
            b = strip(base)
            t = qual(b)
            if b.get("kind") != "DeclRefExpr" or "[" not in t:
                err("%s ctor: subscript of something that is not a local array (%s)" % (rec, t))
            size = int(t[t.index("[") + 1:t.index("]")])
            i = strip(idx)
            off = 0
            if i.get("kind") == "BinaryOperator" and i.get("opcode") in ("-", "+"):
                kk = int_const(inner(i)[1])
                if kk is None:
                    err("%s ctor: array index is not effort +/- constant" % rec)
                off = -kk if i["opcode"] == "-" else kk
                i = inner(i)[0]
            if effort_like(i):
                evs.append('CtorEv.arrayIndex "%s" %d (%d)' % (b["referencedDecl"]["name"], size, off))
                return
            c = int_const(i)
            if c is not None and 0 <= c + off < size:
                return
            err("%s ctor: unsupported array index" % rec)
        if k == "CallExpr":
            cal = strip(inner(s)[0])
            fn = (cal.get("referencedDecl") or {}).get("name")
            if fn == "checkedEffort":
                if not effort_like(s):
                    err("%s ctor: checkedEffort applied to something else than the effort" % rec)
                return
            if fn in ctx.funcs:
                args = inner(s)[1:]
                for a in args:
                    sa = strip(a)
                    if is_param(sa, eff):
                        consumed.add(sa["id"])
                    else:
                        expr(a)
                evs.extend(helper_events(fn, args, {eff: "EFFORT"}, ctx))
                return
        if k == "CXXConstructExpr" and qual(s).startswith("coloquinte::") and qual(s).split("::")[1] in STRUCTS:
            sub = qual(s).split("::")[1]
            args = inner(s)
            if len(args) < 1 or not effort_like(args[0]):
                err("%s ctor: member %s is not built from the effort" % (rec, sub))
            evs.append('CtorEv.enter "%s"' % sub)
            evs.extend(ctor_events(sub, ctx, stack + (rec,)))
            evs.append('CtorEv.leave "%s"' % sub)
            return
        for c in inner(s):
            expr(c)

    for c in inner(ctor):
        if c.get("kind") == "CXXCtorInitializer":
            for e in inner(c):
                expr(e)
    body = [c for c in inner(ctor) if c.get("kind") == "CompoundStmt"][0]
    for st in inner(body):
        s = strip(st)
        if s.get("kind") == "IfStmt":
            r = range_check_cond(inner(s)[0], eff)
            if r is None:
                err("%s ctor: unsupported if statement" % rec)
            throw_message(inner(s)[1], rec + " ctor")
            for d in T.walk(inner(s)[0]):
                if d.get("kind") == "DeclRefExpr" and is_param(d, eff):
                    consumed.add(d["id"])
            evs.append("CtorEv.effortCheck %d %d" % r)
            continue
        if s.get("kind") in ("ForStmt", "WhileStmt", "DoStmt", "SwitchStmt", "CXXTryStmt", "ReturnStmt"):
            err("%s ctor: unsupported statement %s" % (rec, s.get("kind")))
        expr(s)
    # every use of the effort must have been understood
    for d in T.walk(ctor):
        if d.get("kind") == "DeclRefExpr" and is_param(d, eff) and d["id"] not in consumed:
            err("%s ctor: a use of `%s` was not understood (line %s)" % (rec, eff, (d.get("range", {}).get("begin", {}) or {}).get("line")))
    return evs


# --------------------------------------------------------------------------- output

def flat_fields(rec, ctx, prefix=""):
    out = []
    for (n, k, t) in ctx.records[rec]:
        if k == "S":
            out += flat_fields(t, ctx, prefix + n + ".")
        else:
            out.append((prefix + n, k, t, rec))
    return out


def struct_paths(rec, ctx, prefix=""):
    out = [(rec, prefix.rstrip("."))]
    for (n, k, t) in ctx.records[rec]:
        if k == "S":
            out += struct_paths(t, ctx, prefix + n + ".")
    return out


LEAN_T = {"I": "Int", "D": "Rat", "B": "Bool", "E": "Int"}


def lean_string(s):
    # s is the C literal including quotes; messages are plain ASCII without escapes in this code base
    body = s[1:-1]
    if "\\" in body:
        err("message with escape sequence: " + s)
    return '"' + body + '"'


def gen_header(ctx, flat):
    lines = ["// GENERATED by tools/gen/Params.py from the working tree of the repository under test; do not edit.",
             "#pragma once",
             "// X(lvalue on a ColoquinteParameters named p, kind I/D/B/E, C++ type, dotted name)",
             "#define C19_FIELDS(X) \\"]
    for (path, k, t, _) in flat:
        ct = {"I": "int", "D": "double", "B": "bool"}.get(k, "coloquinte::" + t)
        lines.append('  X(p.%s, %s, %s, "%s") \\' % (path, k, ct, path))
    lines.append("")
    lines.append("// S(record name, object expression on a ColoquinteParameters named p)")
    lines.append("#define C19_STRUCTS(S) \\")
    for (rec, path) in struct_paths("ColoquinteParameters", ctx):
        lines.append("  S(%s, %s) \\" % (rec, "p." + path if path else "p"))
    lines.append("")
    lines.append("// B(record whose check() holds the comparison, dotted field name, kind, literal as exact hex double)")
    lines.append("#define C19_BOUNDS(B) \\")
    paths = dict((r, p) for r, p in struct_paths("ColoquinteParameters", ctx))
    for (rec, f, k, v) in ctx.bounds:
        full = (paths[rec] + "." if paths[rec] else "") + f
        lines.append('  B("%s", "%s", %s, %s) \\' % (rec, full, k, float(v).hex()))
        if Fraction(float(v)) != v:
            err("bound %s is not a double" % v)
    lines.append("")
    lines.append("// P(record, dotted int field a, dotted int field b): a is compared with b")
    lines.append("#define C19_PAIRS(P) \\")
    for (rec, fa, fb) in ctx.pairs:
        pre = paths[rec] + "." if paths[rec] else ""
        lines.append('  P("%s", "%s", "%s") \\' % (rec, pre + fa, pre + fb))
    lines.append("")
    return "\n".join(lines) + "\n"


def dump_defaults(flat):
    exe = C.build_harness("h_C19", "san", extra_flags=HARNESS_FLAGS)
    p = subprocess.run([exe, "--dump-defaults"], stdout=subprocess.PIPE, stderr=subprocess.PIPE, text=True,
                       env=dict(os.environ, **C.SAN_ENV))
    if p.returncode != 0:
        err("h_C19 --dump-defaults failed: " + p.stderr[-800:])
    rows = {}
    for ln in p.stdout.splitlines():
        w = ln.split()
        if not w or w[0] != "defaults":
            continue
        e = int(w[1])
        vals = w[2:]
        if len(vals) != 2 * len(flat):
            err("defaults row for effort %d has %d numbers, expected %d" % (e, len(vals), 2 * len(flat)))
        rows[e] = [Fraction(int(vals[2 * i])) * (Fraction(2) ** int(vals[2 * i + 1])) for i in range(len(flat))]
    if sorted(rows) != list(range(1, 10)):
        err("defaults for efforts %s, expected 1..9" % sorted(rows))
    return rows


def lean_value(k, v):
    if k == "D":
        return frac_lean(v)
    if k in ("I", "E"):
        if v.denominator != 1:
            err("non-integer default for an int field")
        return "(%d)" % v.numerator
    return "true" if v != 0 else "false"


def lean_record_literal(rec, ctx, values, prefix=""):
    parts = []
    for (n, k, t) in ctx.records[rec]:
        if k == "S":
            parts.append("%s := %s" % (n, lean_record_literal(t, ctx, values, prefix + n + ".")))
        else:
            parts.append("%s := %s" % (n, lean_value(k, values[prefix + n])))
    return "{ " + ", ".join(parts) + " }"


def generate():
    ctx = Ctx()
    load(ctx)
    order = ["PenaltyParameters", "ContinuousModelParameters", "RoughLegalizationParameters",
             "GlobalPlacerParameters", "LegalizationParameters", "DetailedPlacerParameters", "ColoquinteParameters"]
    checks = {r: parse_check(r, ctx) for r in order}
    ctors = {r: ctor_events(r, ctx) for r in order}
    flat = flat_fields("ColoquinteParameters", ctx)
    hdr = gen_header(ctx, flat)
    T.write_if_changed(HDR, hdr)
    rows = dump_defaults(flat)

    L = []
    L.append("import ColoVerif.Model.ApiIR")
    L.append("/-! Parameter records, `check()` predicates, constructor event lists and the default table,")
    L.append("translated from `src/parameters.cpp` (see tools/gen/Params.py). -/")
    L.append("namespace ColoVerif.Gen.Params")
    L.append("open ColoVerif.ApiIR")
    L.append("")
    L.append("/-- digest of the translated source file -/")
    L.append('def sourceDigest : String := "%s"' % T.digest(T.read(SRC)))
    L.append("")
    for r in order:
        L.append("structure %s where" % r)
        for (n, k, t) in ctx.records[r]:
            L.append("  %s : %s" % (n, t if k == "S" else LEAN_T[k]))
        L.append("")
    for r in order:
        L.append("/-- `%s::check()`: (condition under which it throws, message), in source order. -/" % r)
        L.append("def %s.checkItems (p : %s) : List (Bool × String) :=" % (r, r))
        segs, cur = [], []
        for it in checks[r]:
            if it[0] == "sub":
                if cur:
                    segs.append("[" + ",\n    ".join(cur) + "]")
                    cur = []
                segs.append("%s.checkItems p.%s" % (it[2], it[1]))
            else:
                cur.append("(%s, %s)" % (it[1], lean_string(it[2])))
        if cur:
            segs.append("[" + ",\n    ".join(cur) + "]")
        L.append("  " + "\n  ++ ".join(segs or ["[]"]))
        L.append("")
        L.append("/-- `%s::check()` returns normally -/" % r)
        L.append("def %s.check (p : %s) : Bool := checkPasses (%s.checkItems p)" % (r, r, r))
        L.append("")
    # positional reader
    L.append("/-- field order of the harness' `params` line -/")
    L.append("def fieldNames : List String := [%s]" % ", ".join('"%s"' % f[0] for f in flat))
    L.append("")
    idx = {f[0]: i for i, f in enumerate(flat)}

    def reader(rec, prefix=""):
        parts = []
        for (n, k, t) in ctx.records[rec]:
            if k == "S":
                parts.append("%s := %s" % (n, reader(t, prefix + n + ".")))
            else:
                i = idx[prefix + n]
                g = "(l.getD %d 0)" % i
                parts.append("%s := %s" % (n, g if k == "D" else (g + ".num" if k in ("I", "E") else "(%s != 0)" % g)))
        return "{ " + ", ".join(parts) + " }"
    L.append("def ColoquinteParameters.ofList (l : List Rat) : ColoquinteParameters :=")
    L.append("  " + reader("ColoquinteParameters"))
    L.append("")
    def writer(rec, obj):
        parts = []
        for (n, k, t) in ctx.records[rec]:
            if k == "S":
                parts += writer(t, obj + "." + n)
            elif k == "D":
                parts.append("%s.%s" % (obj, n))
            elif k in ("I", "E"):
                parts.append("(%s.%s : Rat)" % (obj, n))
            else:
                parts.append("(if %s.%s then 1 else 0)" % (obj, n))
        return parts
    L.append("def ColoquinteParameters.toList (p : ColoquinteParameters) : List Rat :=")
    L.append("  [" + ", ".join(writer("ColoquinteParameters", "p")) + "]")
    L.append("")
    L.append("/-- `check()` of the record called `name`, on the sub-object of `p` it belongs to -/")
    L.append("def checkItemsOf (p : ColoquinteParameters) : String → Option (List (Bool × String))")
    for (rec, path) in struct_paths("ColoquinteParameters", ctx):
        L.append('  | "%s" => some (%s.checkItems p%s)' % (rec, rec, "." + path if path else ""))
    L.append("  | _ => none")
    L.append("")
    L.append("/-- constructor event lists (nested constructors inlined between `enter`/`leave`), evaluation order -/")
    L.append("def ctorIR : List (String × List CtorEv) := [")
    L.append(",\n".join('  ("%s", [%s])' % (r, ", ".join(ctors[r])) for r in order))
    L.append("]")
    L.append("")
    L.append("/-- `ColoquinteParameters(effort)` for effort 1..9 as built by the compiled code (exact values) -/")
    L.append("def defaults : List (Int × ColoquinteParameters) := [")
    rows_txt = []
    for e in range(1, 10):
        values = {flat[i][0]: rows[e][i] for i in range(len(flat))}
        rows_txt.append("  (%d, %s)" % (e, lean_record_literal("ColoquinteParameters", ctx, values)))
    L.append(",\n".join(rows_txt))
    L.append("]")
    L.append("")
    L.append("end ColoVerif.Gen.Params")
    info = {"source_digest": T.digest(T.read(SRC)), "records": {r: len(ctx.records[r]) for r in order},
            "check_conditions": {r: sum(1 for it in checks[r] if it[0] == "if") for r in order},
            "bounds": len(ctx.bounds), "ctor_events": {r: len(ctors[r]) for r in order},
            "header": HDR}
    return {"Params.lean": "\n".join(L) + "\n", "info": info}
