"""Translator piece for C20: the pybind11 binding table of pycoloquinte/module.cpp.

module.cpp cannot be compiled or parsed by clang (the pybind11 submodule is
empty), so this is a strict *text* scan: the body of PYBIND11_MODULE is split
into statements; every statement must be `m.doc() = ...`, a `py::enum_<E>(m,
"Name")` chain or a `py::class_<S[, Base]>(m, "Name")` chain, and every call of
a chain must have one of the shapes below.  Anything else raises
TranslateError (a broken tie), never a silent default.

  .value("P", E::C[, "doc"])                       .export_values()
  .def(py::init<T...>(), [doc,] py::arg(...)...)
  .def("name", &S::f[, py::arg(...)[= v] | "doc"]...)
  .def("name", [](S &self, ...) { ...; self.f(...); }[, "doc"])
  .def_readwrite("p", &S::m[, "doc"])
  .def_property_readonly("p", &S::g[, "doc"])
  .def_property("p", &S::g, &S::s[, "doc"])

Output: lean/ColoVerif/Gen/Bindings.lean (tables of strings).
"""
import re

from translate import TranslateError, read, digest, clang_ast

SRC = "pycoloquinte/module.cpp"


def _strip(src):
    """Remove comments; replace raw strings by "" and ordinary string literals'
    contents are kept (they carry the Python names)."""
    out, i, n = [], 0, len(src)
    while i < n:
        if src.startswith("//", i):
            while i < n and src[i] != "\n":
                i += 1
        elif src.startswith("/*", i):
            j = src.find("*/", i + 2)
            if j < 0:
                raise TranslateError("unterminated comment in " + SRC)
            i = j + 2
        elif src.startswith('R"', i):
            m = re.match(r'R"([^()\\ ]{0,16})\(', src[i:])
            if not m:
                raise TranslateError("bad raw string at offset %d" % i)
            end = ")" + m.group(1) + '"'
            j = src.find(end, i + m.end())
            if j < 0:
                raise TranslateError("unterminated raw string at offset %d" % i)
            out.append('"<raw>"')
            i = j + len(end)
        elif src[i] == '"':
            j = i + 1
            while j < n and src[j] != '"':
                j += 2 if src[j] == "\\" else 1
            if j >= n:
                raise TranslateError("unterminated string literal")
            out.append(src[i:j + 1])
            i = j + 1
        else:
            out.append(src[i])
            i += 1
    return "".join(out)


OPEN = {"(": ")", "[": "]", "{": "}"}
CLOSE = {")", "]", "}"}


def _scan(text, i, stop_chars, angle_after=("py::init", "py::class_", "py::enum_", "std::optional", "py::init")):
    """Advance from i to the first char in stop_chars at bracket depth 0.
    Returns that index (or len).  Strings are skipped; `<...>` is a bracket only
    directly after one of `angle_after`."""
    stack, n = [], len(text)
    while i < n:
        c = text[i]
        if c == '"':
            j = i + 1
            while text[j] != '"':
                j += 2 if text[j] == "\\" else 1
            i = j + 1
            continue
        if not stack and c in stop_chars:
            return i
        if c in OPEN:
            stack.append(OPEN[c])
        elif c == "<" and any(text[:i].rstrip().endswith(a) for a in angle_after):
            stack.append(">")
        elif stack and c == stack[-1]:
            stack.pop()
        elif c in CLOSE:
            if not stack:
                return i if c in stop_chars else _err("unbalanced '%s' near: %s" % (c, text[max(0, i - 40):i + 10]))
            _err("mismatched '%s' near: %s" % (c, text[max(0, i - 40):i + 10]))
        i += 1
    if stack:
        _err("unbalanced brackets in: " + text[:80])
    return n


def _err(msg):
    raise TranslateError("module.cpp: " + msg)


def _split(text, sep):
    parts, i = [], 0
    while True:
        j = _scan(text, i, sep)
        parts.append(text[i:j].strip())
        if j >= len(text):
            break
        i = j + 1
    return parts


def _str(tok, what):
    m = re.fullmatch(r'"((?:[^"\\]|\\.)*)"(?:\s*"(?:[^"\\]|\\.)*")*', tok, re.S)
    if not m:
        _err("expected a string literal for %s, got: %s" % (what, tok[:80]))
    return m.group(1)


def _is_str(tok):
    return re.fullmatch(r'"(?:[^"\\]|\\.)*"(?:\s*"(?:[^"\\]|\\.)*")*', tok, re.S) is not None


def _member(tok, what):
    m = re.fullmatch(r"&\s*(\w+)::(\w+)", tok)
    if not m:
        _err("expected &Class::member for %s, got: %s" % (what, tok[:80]))
    return m.group(1), m.group(2)


def _extras(toks, where):
    """Trailing arguments: docstrings and py::arg("x")[ = literal]."""
    names = []
    for t in toks:
        if _is_str(t):
            continue
        m = re.fullmatch(r'py::arg\(\s*"(\w+)"\s*\)(?:\s*=\s*(-?[\w.]+))?', t)
        if not m:
            _err("unrecognised argument in %s: %s" % (where, t[:80]))
        names.append(m.group(1))
    return names


def _chain(text, where):
    """`.a(x).b(y)` -> [(a, "x"), (b, "y")]"""
    calls, i, n = [], 0, len(text)
    while True:
        while i < n and text[i].isspace():
            i += 1
        if i >= n:
            return calls
        m = re.match(r"\.\s*(\w+)\s*\(", text[i:])
        if not m:
            _err("unrecognised binding syntax in %s: %s" % (where, text[i:i + 80]))
        j = i + m.end()
        k = _scan(text, j, ")")
        if k >= n:
            _err("unterminated call in %s" % where)
        calls.append((m.group(1), text[j:k]))
        i = k + 1


def parse(src):
    txt = _strip(src)
    m = re.search(r"PYBIND11_MODULE\s*\(\s*(\w+)\s*,\s*(\w+)\s*\)\s*\{", txt)
    if not m:
        _err("PYBIND11_MODULE not found")
    modname, mvar = m.group(1), m.group(2)
    end = _scan(txt, m.end(), "}")
    body = txt[m.end():end]
    if txt[end + 1:].strip():
        _err("text after the module body: " + txt[end + 1:][:60])
    T = {"module": modname, "enums": [], "enumValues": [], "exported": [], "classes": [], "bases": [],
         "constructors": [], "attributes": [], "roProperties": [], "rwProperties": [], "methods": [],
         "lambdas": [], "argNames": []}
    for st in _split(body, ";"):
        if not st:
            continue
        if re.fullmatch(re.escape(mvar) + r'\.doc\(\)\s*=\s*"(?:[^"\\]|\\.)*"', st, re.S):
            continue
        me = re.match(r"py::enum_<\s*(\w+)\s*>\s*\(\s*%s\s*,\s*\"(\w+)\"\s*\)" % re.escape(mvar), st)
        mc = re.match(r"py::class_<\s*(\w+)\s*(?:,\s*(\w+)\s*)?>\s*\(\s*%s\s*,\s*\"(\w+)\"\s*\)" % re.escape(mvar), st)
        if me:
            cpp, py = me.group(1), me.group(2)
            T["enums"].append((py, cpp))
            for name, args in _chain(st[me.end():], "enum " + py):
                a = _split(args, ",") if args.strip() else []
                if name == "value" and len(a) in (2, 3):
                    p = _str(a[0], "enum value name")
                    mm = re.fullmatch(r"(\w+)::(\w+)", a[1])
                    if not mm:
                        _err("expected Enum::Value in enum %s: %s" % (py, a[1]))
                    if len(a) == 3:
                        _str(a[2], "doc")
                    T["enumValues"].append((cpp, p, mm.group(1), mm.group(2)))
                elif name == "export_values" and not a:
                    T["exported"].append(py)
                else:
                    _err("unrecognised enum binding .%s(%s)" % (name, args[:80]))
        elif mc:
            cpp, base, py = mc.group(1), mc.group(2), mc.group(3)
            T["classes"].append((py, cpp))
            if base:
                T["bases"].append((cpp, base))
            for name, args in _chain(st[mc.end():], "class " + py):
                a = _split(args, ",")
                where = "class %s .%s(%s…)" % (py, name, a[0][:30])
                if name == "def" and re.fullmatch(r"py::init<(.*)>\(\)", a[0], re.S):
                    types = re.fullmatch(r"py::init<(.*)>\(\)", a[0], re.S).group(1)
                    names = _extras(a[1:], where)
                    T["constructors"].append((cpp, ",".join(t.strip() for t in types.split(","))))
                    for nm in names:
                        T["argNames"].append((cpp, "__init__", nm))
                elif name == "def" and len(a) >= 2 and a[1].startswith("["):
                    p = _str(a[0], "method name")
                    ml = re.fullmatch(r"\[\s*\]\s*\((.*?)\)\s*\{(.*)\}", a[1], re.S)
                    if not ml:
                        _err("unrecognised lambda in " + where)
                    params = _split(ml.group(1), ",")
                    mp = re.fullmatch(r"(?:const\s+)?(\w+)\s*&\s*(\w+)", params[0])
                    if not mp:
                        _err("lambda's first parameter is not a reference to the bound class in " + where)
                    calls = re.findall(r"\b%s\s*\.\s*(\w+)\s*\(" % re.escape(mp.group(2)), ml.group(2))
                    if len(calls) != 1:
                        _err("lambda must make exactly one call on its object in " + where)
                    _extras(a[2:], where)
                    T["lambdas"].append((cpp, p, mp.group(1), calls[0]))
                elif name == "def" and len(a) >= 2:
                    p = _str(a[0], "method name")
                    s, f = _member(a[1], where)
                    for nm in _extras(a[2:], where):
                        T["argNames"].append((cpp, p, nm))
                    T["methods"].append((cpp, p, s, f))
                elif name == "def_readwrite" and len(a) in (2, 3):
                    p = _str(a[0], "attribute name")
                    s, f = _member(a[1], where)
                    _extras(a[2:], where)
                    T["attributes"].append((cpp, p, s, f))
                elif name == "def_property_readonly" and len(a) in (2, 3):
                    p = _str(a[0], "property name")
                    s, f = _member(a[1], where)
                    _extras(a[2:], where)
                    T["roProperties"].append((cpp, p, s, f))
                elif name == "def_property" and len(a) in (3, 4):
                    p = _str(a[0], "property name")
                    s1, g = _member(a[1], where)
                    s2, st_ = _member(a[2], where)
                    _extras(a[3:], where)
                    T["rwProperties"].append((cpp, p, s1, g, s2, st_))
                else:
                    _err("unrecognised class binding .%s(%s)" % (name, args[:80]))
        else:
            _err("unrecognised statement: " + st[:100])
    if not T["enumValues"] or not T["attributes"] or not T["rwProperties"]:
        _err("binding table is empty")
    return T


HDR = "src/coloquinte.hpp"


def declared():
    """(scope, member, kind) for every enumerator, public data member and public
    method declared in namespace coloquinte of src/coloquinte.hpp (typed clang AST;
    module.cpp itself cannot be compiled, so this is what stands in for the name
    lookup the compiler would do)."""
    out = []

    def visit_ns(node):
        for ch in node.get("inner", []) or []:
            k = ch.get("kind")
            if k == "EnumDecl" and ch.get("name"):
                for e in ch.get("inner", []) or []:
                    if e.get("kind") == "EnumConstantDecl":
                        out.append((ch["name"], e["name"], "enumerator"))
            elif k == "CXXRecordDecl" and ch.get("name") and ch.get("completeDefinition"):
                access = "private" if ch.get("tagUsed") == "class" else "public"
                for m in ch.get("inner", []) or []:
                    mk = m.get("kind")
                    if mk == "AccessSpecDecl":
                        access = m.get("access", access)
                    elif access == "public" and mk == "FieldDecl" and m.get("name"):
                        out.append((ch["name"], m["name"], "field"))
                    elif access == "public" and mk == "CXXMethodDecl" and m.get("name") and not m.get("isImplicit"):
                        out.append((ch["name"], m["name"], "method"))
            elif k == "NamespaceDecl":
                visit_ns(ch)

    seen = False
    for o in clang_ast(HDR, "coloquinte"):
        if o.get("kind") == "NamespaceDecl" and o.get("name") == "coloquinte":
            seen = True
            visit_ns(o)
    if not seen or not out:
        raise TranslateError("no declarations found in namespace coloquinte of " + HDR)
    res, dd = [], set()
    for t in out:
        if t not in dd:
            dd.add(t)
            res.append(t)
    return res


def _lean_str(s):
    return '"' + s.replace("\\", "\\\\").replace('"', '\\"') + '"'


def _lean_list(rows):
    if not rows:
        return "[]"
    return "[\n  " + ",\n  ".join("(" + ", ".join(_lean_str(x) for x in r) + ")" for r in rows) + "]"


def generate():
    src = read(SRC)
    T = parse(src)
    decl = declared()
    L = ["/-", "Binding table of pycoloquinte/module.cpp (text scan; see tools/gen/Bindings.py).", "-/",
         "namespace ColoVerif.Gen.Bindings", "",
         "def sourceDigest : String := %s" % _lean_str(digest(src)),
         "def moduleName : String := %s" % _lean_str(T["module"]), "",
         "/-- `py::enum_<E>(m, \"Py\")`: (Py, E) -/",
         "def enums : List (String × String) := " + _lean_list(T["enums"]), "",
         "/-- `.value(\"P\", S::C)` inside `py::enum_<E>`: (E, P, S, C) -/",
         "def enumValues : List (String × String × String × String) := " + _lean_list(T["enumValues"]), "",
         "/-- Python enum names followed by `.export_values()` -/",
         "def exported : List String := [" + ", ".join(_lean_str(x) for x in T["exported"]) + "]", "",
         "/-- `py::class_<S>(m, \"Py\")`: (Py, S) -/",
         "def classes : List (String × String) := " + _lean_list(T["classes"]), "",
         "/-- `py::class_<S, Base>`: (S, Base) -/",
         "def bases : List (String × String) := " + _lean_list(T["bases"]), "",
         "/-- `.def(py::init<T…>())` in class S: (S, \"T,…\") -/",
         "def constructors : List (String × String) := " + _lean_list(T["constructors"]), "",
         "/-- `.def_readwrite(\"p\", &C::m)` in class S: (S, p, C, m) -/",
         "def attributes : List (String × String × String × String) := " + _lean_list(T["attributes"]), "",
         "/-- `.def_property_readonly(\"p\", &C::g)` in class S: (S, p, C, g) -/",
         "def roProperties : List (String × String × String × String) := " + _lean_list(T["roProperties"]), "",
         "/-- `.def_property(\"p\", &C::g, &D::s)` in class S: (S, p, C, g, D, s) -/",
         "def rwProperties : List (String × String × String × String × String × String) := " + _lean_list(T["rwProperties"]), "",
         "/-- `.def(\"name\", &C::f, …)` in class S: (S, name, C, f) -/",
         "def methods : List (String × String × String × String) := " + _lean_list(T["methods"]), "",
         "/-- `.def(\"name\", [](C &self, …) { …self.f(…)… })` in class S: (S, name, C, f) -/",
         "def lambdas : List (String × String × String × String) := " + _lean_list(T["lambdas"]), "",
         "/-- `py::arg(\"a\")` of a method or constructor: (S, name, a) -/",
         "def argNames : List (String × String × String) := " + _lean_list(T["argNames"]), "",
         "/-- every enumerator / public field / public method of namespace coloquinte in src/coloquinte.hpp:",
         "(scope, name, kind) -/",
         "def declared : List (String × String × String) := " + _lean_list(decl), "",
         "end ColoVerif.Gen.Bindings", ""]
    info = {"source": SRC, "digest": digest(src), "header": HDR, "header_digest": digest(read(HDR)), "declared": len(decl),
            "counts": {k: len(v) for k, v in T.items() if isinstance(v, list)}}
    return {"info": info, "Bindings.lean": "\n".join(L)}


if __name__ == "__main__":
    import json
    print(json.dumps(generate()["info"], indent=1))
