"""Translator piece for C19: the rest of the public validation surface of `Circuit`.

  src/coloquinte.cpp / coloquinte.hpp
     class Circuit (AST)                      -> Gen.ApiExpansion.publicMutators   every public non-const method (name, arity)
                                                 Gen.ApiExpansion.publicConstructors
                                                 Gen.ApiExpansion.vectorParams     every vector-typed parameter of a public method
     expandCellsToDensity, expandCellsByFactor,
     mean/rms/maxDisruption (+ the private
     allDistances they start with)            -> Gen.ApiExpansion.validated
     computeCellExpansion (const)             -> Gen.ApiExpansion.constValidated
     Circuit(int)                             -> Gen.ApiExpansion.constructors
     place(int), placeGlobal/legalize/
     placeDetailed(int) (inline wrappers)     -> Gen.ApiExpansion.effortWrappers

Validation skeleton of a function = the maximal prefix of statements of the two shapes
    if (c) throw std::runtime_error(...);                      -> .throwIf c
    for (x : param) { if (c) throw std::runtime_error(...); }  -> .throwIf (.anyElem param c)
in source order, followed by the *remainder*, summarised statement by statement:
    `.assign "m"`  the statement contains a write to member m of *this (it may be skipped at run time by an
                   early return that depends on the circuit's areas: the remainder is not modelled further);
    `.pure kind`   the statement writes no member.
The remainder must not contain a `throw`, a call of a non-const method of *this, a non-const reference bound to a
member, or a member passed by non-const reference to a free function (TranslateError otherwise).
A function whose first statement is `auto v = priv(p0, p1, ...)` with `priv` a private method of Circuit called
with the function's own parameters in order gets the skeleton of `priv` inlined (the Disruption methods).

binary32 values (float literals, float parameters, elements of std::vector<float>) are represented by the
integer x * 2^149: every finite binary32 is an integer multiple of 2^-149, so `<`, `<=`, `==` on finite floats
are exactly the integer comparisons.  NaN/infinity have no representation (out of scope, as for the parameters).
A comparison mixing float with double/int operands raises TranslateError.

Constructor `Circuit(int n)`: its first statement must be `member.resize(n)` with the int parameter converted to
the vector's size_type; a negative n is then a count above max_size() and std::vector::resize throws
std::length_error before modifying anything ([vector.capacity]; libstdc++ `_M_default_append` -> `_M_check_len`).
That library fact is emitted as `.throwIf (n < 0)` in front of the first write (the exception class is
length_error: the driver prints it as such; the harness observes the real class).
"""
import struct
from fractions import Fraction

import translate as T
from gen import Api as A

CIRCUIT_CPP = A.CIRCUIT_CPP
FLOAT_SCALE = 149
VALIDATED = ["expandCellsToDensity", "expandCellsByFactor", "meanDisruption", "rmsDisruption", "maxDisruption"]
CONST_VALIDATED = ["computeCellExpansion"]
WRAPPERS = ["place", "placeGlobal", "legalize", "placeDetailed"]
VECTOR_ALIASES = ("PlacementSolution",)   # using PlacementSolution = std::vector<CellPlacement>
ASSIGN_OPS = ("=", "+=", "-=", "*=", "/=", "%=", "<<=", ">>=", "&=", "|=", "^=")


def err(msg):
    raise T.TranslateError("ApiExpansion: " + msg)


inner, strip, qual = A.inner, A.strip, A.qual


# --------------------------------------------------------------------------- class surface

class Surface:
    def __init__(self, objs):
        recs = [o for o in objs if o.get("kind") == "CXXRecordDecl" and o.get("name") == "Circuit" and o.get("completeDefinition")]
        if len(recs) != 1:
            err("expected one definition of class Circuit, found %d" % len(recs))
        self.methods = []        # (name, access, is_const, [param types], decl)
        self.ctors = []          # (access, [param types], decl)
        access = "private"       # `class`
        if recs[0].get("tagUsed") == "struct":
            access = "public"
        for c in inner(recs[0]):
            k = c.get("kind")
            if k == "AccessSpecDecl":
                access = c.get("access")
                continue
            if c.get("isImplicit"):
                continue
            if k in ("FunctionTemplateDecl", "FriendDecl", "UsingDecl"):
                err("class Circuit has a %s: not understood" % k)
            ptypes = [qual(p) for p in inner(c) if p.get("kind") == "ParmVarDecl"]
            if k == "CXXMethodDecl":
                if c.get("storageClass") == "static":
                    continue
                self.methods.append((c["name"], access, qual(c).rstrip().endswith("const"), ptypes, c))
            elif k == "CXXConstructorDecl":
                self.ctors.append((access, ptypes, c))
        # out-of-line definitions
        self.defs = {}
        for o in objs:
            if o.get("kind") in ("CXXMethodDecl", "CXXConstructorDecl") and o.get("previousDecl") and \
                    any(c.get("kind") == "CompoundStmt" for c in inner(o)):
                self.defs.setdefault(o["name"], []).append(o)

    def all_const(self, name):
        ms = [m for m in self.methods if m[0] == name]
        return bool(ms) and all(m[2] for m in ms)

    def is_private(self, name):
        ms = [m for m in self.methods if m[0] == name]
        return bool(ms) and all(m[1] == "private" for m in ms)

    def definition(self, name):
        cands = self.defs.get(name, [])
        if len(cands) != 1:
            err("expected one out-of-line definition of Circuit::%s, found %d" % (name, len(cands)))
        return cands[0]


def is_vector_type(t):
    return "std::vector<" in t or any(a in t for a in VECTOR_ALIASES)


# --------------------------------------------------------------------------- conditions (float-aware)

def float_lit(n):
    v = struct.unpack("f", struct.pack("f", float(n["value"])))[0]
    fr = Fraction(v) * (2 ** FLOAT_SCALE)
    if fr.denominator != 1:
        err("float literal %s is not a binary32 value" % n.get("value"))
    return fr.numerator


def xexpr(n, fn, loopvar):
    n = strip(n)
    k = n.get("kind")
    if qual(n) != "float":
        err("%s: comparison mixes float with %s `%s`" % (fn.where(), qual(n), A.src_text(fn.src, n)))
    if k == "FloatingLiteral":
        return "(.lit %d)" % float_lit(n)
    if k == "DeclRefExpr":
        rd = n.get("referencedDecl") or {}
        if loopvar and rd.get("kind") == "VarDecl" and rd.get("name") == loopvar:
            return ".elem"
        if rd.get("kind") == "ParmVarDecl" and rd.get("name") in fn.params:
            return "(.param %d)" % fn.params.index(rd["name"])
    err("%s: unsupported float expression %s `%s`" % (fn.where(), k, A.src_text(fn.src, n)))


def xcond(n, fn, loopvar=None):
    n = strip(n)
    k = n.get("kind")
    if k == "BinaryOperator" and n.get("opcode") in ("||", "&&"):
        a, b = inner(n)
        return "(.%s %s %s)" % ("or" if n["opcode"] == "||" else "and", xcond(a, fn, loopvar), xcond(b, fn, loopvar))
    if k == "UnaryOperator" and n.get("opcode") == "!":
        return "(.not %s)" % xcond(inner(n)[0], fn, loopvar)
    if k == "BinaryOperator" and n.get("opcode") in ("<", "<=", ">", ">=", "==", "!="):
        a, b = inner(n)
        if qual(strip(a)) == "float" or qual(strip(b)) == "float":
            ea, eb = xexpr(a, fn, loopvar), xexpr(b, fn, loopvar)
            op = n["opcode"]
            if op == "<":
                return "(.lt %s %s)" % (ea, eb)
            if op == "<=":
                return "(.le %s %s)" % (ea, eb)
            if op == ">":
                return "(.lt %s %s)" % (eb, ea)
            if op == ">=":
                return "(.le %s %s)" % (eb, ea)
            if op == "==":
                return "(.eq %s %s)" % (ea, eb)
            return "(.not (.eq %s %s))" % (ea, eb)
    return A.cond(n, fn, loopvar)


# --------------------------------------------------------------------------- remainder: member writes

def lvalue_root(n):
    """('member', name) | ('local', name) | ('other', kind) for the object an lvalue expression designates."""
    n = strip(n)
    k = n.get("kind")
    m = A.is_this_member(n)
    if m is not None:
        return ("member", m)
    if k == "MemberExpr" and inner(n):
        return lvalue_root(inner(n)[0])
    if k == "ArraySubscriptExpr":
        return lvalue_root(inner(n)[0])
    if k == "CXXOperatorCallExpr":
        ii = inner(n)
        op = (strip(ii[0]).get("referencedDecl") or {}).get("name")
        if op in ("operator[]", "operator*", "operator->") and len(ii) >= 2:
            return lvalue_root(ii[1])
        return ("other", op)
    if k == "CXXMemberCallExpr":
        callee = strip(inner(n)[0])
        if callee.get("kind") == "MemberExpr" and callee.get("name") in ("at", "front", "back", "data", "begin", "end") and inner(callee):
            return lvalue_root(inner(callee)[0])
        return ("other", "call")
    if k == "UnaryOperator" and n.get("opcode") == "*":
        return lvalue_root(inner(n)[0])
    if k == "DeclRefExpr":
        rd = n.get("referencedDecl") or {}
        if rd.get("kind") in ("VarDecl", "ParmVarDecl", "BindingDecl"):
            return ("local", rd.get("name"))
    if k == "CXXThisExpr":
        return ("other", "this")
    return ("other", k)


def mentions_field(n):
    for d in T.walk(n):
        if d.get("kind") == "MemberExpr" and inner(d) and strip(inner(d)[0]).get("kind") == "CXXThisExpr" and \
                qual(d) != "<bound member function type>":
            return d.get("name")
    return None


def member_writes(st, fn, surf, allow_private=None):
    """Members of *this written by the statement (in order, consecutive duplicates merged); errors on anything
    that could hide a write."""
    out = []
    ranges = {}

    def add(m):
        if not out or out[-1] != m:
            out.append(m)
    for d in T.walk(st):
        k = d.get("kind")
        if k == "CXXThrowExpr":
            err("%s: throw after the validation prefix" % fn.where())
        if k in ("BinaryOperator", "CompoundAssignOperator") and d.get("opcode") in ASSIGN_OPS:
            r = lvalue_root(inner(d)[0])
            if r[0] == "member":
                add(r[1])
            elif r[0] != "local":
                err("%s: assignment to `%s` not understood" % (fn.where(), A.src_text(fn.src, inner(d)[0])))
        elif k == "UnaryOperator" and d.get("opcode") in ("++", "--"):
            r = lvalue_root(inner(d)[0])
            if r[0] == "member":
                add(r[1])
            elif r[0] != "local":
                err("%s: increment of `%s` not understood" % (fn.where(), A.src_text(fn.src, inner(d)[0])))
        elif k == "CXXOperatorCallExpr":
            ii = inner(d)
            op = (strip(ii[0]).get("referencedDecl") or {}).get("name")
            if op == "operator=" or (op or "").endswith("=") and op not in ("operator==", "operator!=", "operator<=", "operator>="):
                r = lvalue_root(ii[1])
                if r[0] == "member":
                    add(r[1])
                elif r[0] != "local":
                    err("%s: operator call `%s` not understood" % (fn.where(), A.src_text(fn.src, d)))
        elif k == "CXXMemberCallExpr":
            callee = strip(inner(d)[0])
            obj = strip(inner(callee)[0]) if inner(callee) else {}
            name = callee.get("name")
            if obj.get("kind") == "CXXThisExpr":
                if not surf.all_const(name) and name != allow_private:
                    err("%s: call of the non-const method %s() after the validation prefix" % (fn.where(), name))
            else:
                r = lvalue_root(obj)
                if r[0] == "member" and name in A.MUTATORS:
                    add(r[1])
        elif k == "CallExpr":
            for a in inner(d)[1:]:
                s = strip(a)
                f = mentions_field(s)
                if f is not None and s.get("valueCategory") != "prvalue" and not qual(s).startswith("const "):
                    err("%s: member %s passed to a free function as a modifiable lvalue" % (fn.where(), f))
        elif k == "VarDecl":
            t = qual(d)
            nm = d.get("name") or ""
            if d.get("isImplicit") and nm.startswith("__range") and inner(d):
                ranges[nm[len("__range"):]] = lvalue_root(inner(d)[0])   # `auto &&__rangeN = <range>` of a range-for
            elif d.get("isImplicit") and (nm.startswith("__begin") or nm.startswith("__end")):
                pass
            elif t.rstrip().endswith("&") and not t.startswith("const ") and inner(d):
                r = lvalue_root(inner(d)[0])
                if r[0] == "local" and (r[1] or "").startswith("__begin"):
                    r = ranges.get(r[1][len("__begin"):], ("other", "range"))   # loop variable: what the range designates
                if r[0] != "local":
                    err("%s: non-const reference `%s` bound to %s" % (fn.where(), nm, r))
    return out


# --------------------------------------------------------------------------- skeletons

def throw_stmt(s, fn):
    """`.throwIf c` for the two validation shapes, else None"""
    s = strip(s)
    k = s.get("kind")
    if k == "IfStmt":
        ii = inner(s)
        if not s.get("hasElse") and len(ii) == 2 and A.is_throw(ii[1], fn):
            return ".throwIf %s" % xcond(ii[0], fn)
        return None
    if k == "CXXForRangeStmt":
        ii = [c for c in (s.get("inner") or []) if isinstance(c, dict)]
        body = ii[-1]
        decls = [c for c in ii if c.get("kind") == "DeclStmt"]
        bs = A.single(body)
        if bs is not None and bs.get("kind") == "IfStmt" and not bs.get("hasElse") and len(inner(bs)) == 2 and \
                A.is_throw(inner(bs)[1], fn):
            lv = inner(decls[-1])[0]
            rng = strip(inner(inner(decls[0])[0])[0])
            ai = A.param_index(rng, fn)
            if ai is None:
                err("%s: validation loop over something that is not a parameter" % fn.where())
            t = qual(lv)
            if t.rstrip().endswith("&") and not t.startswith("const "):
                err("%s: validation loop with a modifiable loop variable" % fn.where())
            return ".throwIf (.anyElem %d %s)" % (ai, xcond(inner(bs)[0], fn, lv["name"]))
    return None


def private_call_first(st, fn, surf):
    """`T v = priv(p0, p1, ..);` with priv a private method and the arguments the function's parameters in order -> name"""
    s = strip(st)
    if s.get("kind") != "DeclStmt" or len(inner(s)) != 1 or inner(s)[0].get("kind") != "VarDecl" or not inner(inner(s)[0]):
        return None
    e = strip(inner(inner(s)[0])[0])
    while e.get("kind") == "CXXConstructExpr" and len(inner(e)) == 1:
        e = strip(inner(e)[0])
    if e.get("kind") != "CXXMemberCallExpr":
        return None
    callee = strip(inner(e)[0])
    obj = strip(inner(callee)[0]) if inner(callee) else {}
    if obj.get("kind") != "CXXThisExpr" or not surf.is_private(callee.get("name")) or surf.all_const(callee.get("name")):
        return None
    args = [A.param_index(a, fn) for a in inner(e)[1:]]
    if args != list(range(len(fn.params))):
        err("%s: %s() is not called with the function's own parameters in order" % (fn.where(), callee.get("name")))
    return callee.get("name")


def skeleton(name, surf, src, depth=0):
    d = surf.definition(name)
    fn = A.Fn("Circuit", name, d, src)
    body = [c for c in inner(d) if c.get("kind") == "CompoundStmt"][0]
    stmts = inner(body)
    out, i = [], 0
    if stmts and depth == 0:
        p = private_call_first(stmts[0], fn, surf)
        if p is not None:
            pparams, psk = skeleton(p, surf, src, depth + 1)
            if len(pparams) != len(fn.params):
                err("%s: arity of %s differs" % (fn.where(), p))
            out += psk   # by construction: its throwIf prefix, then its remainder
            for st in stmts[1:]:
                ws = member_writes(st, fn, surf)
                out += ['.assign "%s"' % m for m in ws] if ws else ['.pure "%s"' % strip(st).get("kind")]
            return fn.params, out
    while i < len(stmts):
        t = throw_stmt(stmts[i], fn)
        if t is None:
            break
        out.append(t)
        i += 1
    for st in stmts[i:]:
        ws = member_writes(st, fn, surf)
        out += ['.assign "%s"' % m for m in ws] if ws else ['.pure "%s"' % strip(st).get("kind")]
    return fn.params, out


def constructor_skeleton(surf, src):
    pub = [c for c in surf.ctors if c[0] == "public"]
    if len(pub) != 1 or pub[0][1] != ["int"]:
        err("expected exactly one user-declared public constructor Circuit(int), found %s" % [c[1] for c in surf.ctors])
    d = surf.definition("Circuit")
    if any(c.get("kind") == "CXXCtorInitializer" and not (strip(inner(c)[0]).get("kind") == "CXXConstructExpr" and
                                                           not inner(strip(inner(c)[0]))) for c in inner(d) if inner(c)):
        err("Circuit::Circuit has member initialisers with arguments")
    fn = A.Fn("Circuit", "Circuit", d, src)
    body = [c for c in inner(d) if c.get("kind") == "CompoundStmt"][0]
    stmts = inner(body)
    out = []
    for j, st in enumerate(stmts):
        s = strip(st)
        if j == 0:
            pi = None
            if s.get("kind") == "CXXMemberCallExpr" and len(inner(s)) == 2:
                callee = strip(inner(s)[0])
                a = inner(s)[1]
                while a.get("kind") in ("ExprWithCleanups", "ParenExpr"):
                    a = inner(a)[0]
                tgt = (a.get("type") or {}).get("desugaredQualType") or qual(a)
                if callee.get("kind") == "MemberExpr" and callee.get("name") == "resize" and \
                        A.is_this_member(inner(callee)[0]) is not None and "std::vector" in qual(strip(inner(callee)[0])) and \
                        a.get("kind") == "ImplicitCastExpr" and a.get("castKind") == "IntegralCast" and \
                        tgt in ("unsigned long", "std::size_t", "size_t", "std::vector::size_type", "unsigned long long") and \
                        qual(strip(inner(a)[0])) == "int":
                    pi = A.param_index(inner(a)[0], fn)
            if pi is None:
                err("Circuit::Circuit: the first statement is not `member.resize(nbCells)` with an int converted to size_type")
            out.append(".throwIf (.lt (.param %d) (.lit 0))" % pi)
        v = A.in_use_assign(s)
        if v in (True, False):
            out.append(".setInUse %s" % ("true" if v else "false"))
            continue
        ws = member_writes(st, fn, surf)
        out += ['.assign "%s"' % m for m in ws] if ws else ['.pure "%s"' % s.get("kind")]
    return fn.params, out


def wrappers(surf, src):
    res = []
    for (name, access, is_const, ptypes, decl) in surf.methods:
        bodies = [c for c in inner(decl) if c.get("kind") == "CompoundStmt"]
        if access != "public" or is_const or not bodies:
            continue
        if name not in WRAPPERS or ptypes != ["int"]:
            err("inline non-const method Circuit::%s%s is not a known effort wrapper" % (name, ptypes))
        fn = A.Fn("Circuit", name, decl, src)
        callees = []
        for st in inner(bodies[0]):
            s = strip(st)
            if s.get("kind") != "CXXMemberCallExpr":
                err("Circuit::%s(int): statement %s is not a call" % (name, s.get("kind")))
            callee = strip(inner(s)[0])
            obj = strip(inner(callee)[0]) if inner(callee) else {}
            if obj.get("kind") != "CXXThisExpr" or callee.get("name") not in WRAPPERS:
                err("Circuit::%s(int): calls %s" % (name, callee.get("name")))
            args = [a for a in inner(s)[1:] if strip(a).get("kind") != "CXXDefaultArgExpr"]
            if len(args) != 1:
                err("Circuit::%s(int): call with %d explicit arguments" % (name, len(args)))
            a = strip(args[0])
            if A.param_index(a, fn) == 0 and qual(a) == "int":
                callees.append((callee["name"], 1))
            else:
                while a.get("kind") in ("CXXFunctionalCastExpr", "CXXTemporaryObjectExpr") and len(inner(a)) == 1:
                    a = strip(inner(a)[0])
                cargs = [x for x in inner(a) if strip(x).get("kind") != "CXXDefaultArgExpr"] if a.get("kind") == "CXXConstructExpr" else None
                if cargs is None or qual(a) != "coloquinte::ColoquinteParameters" or len(cargs) != 1 or A.param_index(cargs[0], fn) != 0:
                    err("Circuit::%s(int): argument `%s` is not ColoquinteParameters(effort)" % (name, A.src_text(src, args[0])))
                callees.append((callee["name"], 2))
        res.append((name, callees))
    return res


def fn_lean(name, params, sts):
    return '  { name := "%s", params := [%s], body := [\n      %s] }' % (
        name, ", ".join('"%s"' % p for p in params), ",\n      ".join(sts))


def generate():
    src = T.read(CIRCUIT_CPP)
    hdr = T.read("src/coloquinte.hpp")
    surf = Surface(T.clang_ast(CIRCUIT_CPP, "coloquinte::Circuit"))
    pub_mut = [(m[0], len(m[3])) for m in surf.methods if m[1] == "public" and not m[2]]
    vec = [(m[0], len(m[3]), i) for m in surf.methods if m[1] == "public" for i, t in enumerate(m[3]) if is_vector_type(t)]
    fparams = [(m[0], i) for m in surf.methods if m[1] == "public" for i, t in enumerate(m[3]) if t == "float"]
    val = [(n,) + skeleton(n, surf, src) for n in VALIDATED]
    cval = [(n,) + skeleton(n, surf, src) for n in CONST_VALIDATED]
    for n in CONST_VALIDATED:
        if not surf.all_const(n):
            err("Circuit::%s is no longer const" % n)
    ctor = ("Circuit",) + constructor_skeleton(surf, src)
    wr = wrappers(surf, src)
    L = []
    L.append("import ColoVerif.Model.ApiIR")
    L.append("/-! The public surface of `Circuit` and the validation skeletons of the expansion API, the Disruption")
    L.append("methods and the constructor, translated from the C++ sources (see tools/gen/ApiExpansion.py).")
    L.append("binary32 values are the integers x * 2^floatScale. -/")
    L.append("namespace ColoVerif.Gen.ApiExpansion")
    L.append("open ColoVerif.ApiIR")
    L.append("")
    L.append('def sourceDigests : List (String × String) := [("src/coloquinte.cpp", "%s"), ("src/coloquinte.hpp", "%s")]' % (
        T.digest(src), T.digest(hdr)))
    L.append("")
    L.append("def floatScale : Nat := %d" % FLOAT_SCALE)
    L.append("")
    L.append("/-- every public non-const non-static method of `Circuit` (name, number of parameters), in declaration order -/")
    L.append("def publicMutators : List (String × Nat) := [%s]" % ", ".join('("%s", %d)' % p for p in pub_mut))
    L.append("")
    L.append("/-- parameter types of the user-declared public constructors -/")
    L.append("def publicConstructors : List (List String) := [%s]" % ", ".join(
        "[%s]" % ", ".join('"%s"' % t for t in c[1]) for c in surf.ctors if c[0] == "public"))
    L.append("")
    L.append("/-- every parameter of vector type of a public method: (method, arity, position) -/")
    L.append("def vectorParams : List (String × Nat × Nat) := [%s]" % ", ".join('("%s", %d, %d)' % v for v in vec))
    L.append("")
    L.append("/-- every `float` parameter of a public method: (method, position) -/")
    L.append("def floatParams : List (String × Nat) := [%s]" % ", ".join('("%s", %d)' % v for v in fparams))
    L.append("")
    L.append("/-- public non-const methods outside `Gen.Api`: validation prefix, then the members the remainder may write -/")
    L.append("def validated : List FnDef := [")
    L.append(",\n".join(fn_lean(n, p, s) for (n, p, s) in val))
    L.append("]")
    L.append("")
    L.append("/-- public const methods that validate scalar arguments -/")
    L.append("def constValidated : List FnDef := [")
    L.append(",\n".join(fn_lean(n, p, s) for (n, p, s) in cval))
    L.append("]")
    L.append("")
    L.append("/-- `Circuit(int nbCells)`; the leading `throwIf` is std::vector::resize refusing a negative count (std::length_error) -/")
    L.append("def constructors : List FnDef := [")
    L.append(fn_lean(*ctor))
    L.append("]")
    L.append("")
    L.append("/-- inline `(int effort)` wrappers: the calls they consist of, as (callee, arity) -/")
    L.append("def effortWrappers : List (String × List (String × Nat)) := [%s]" % ", ".join(
        '("%s", [%s])' % (n, ", ".join('("%s", %d)' % c for c in cs)) for (n, cs) in wr))
    L.append("")
    L.append("end ColoVerif.Gen.ApiExpansion")
    info = {"public_mutators": len(pub_mut), "validated": {n: s for (n, p, s) in val + cval + [ctor]},
            "wrappers": {n: cs for (n, cs) in wr}}
    return {"ApiExpansion.lean": "\n".join(L) + "\n", "info": info}
