"""Translator piece for C17: the declared element type of `NetModel::netWeight_`.

`NetModel::addNet(cells, offsets, float weight)` does `netWeight_.push_back(weight)`
and `netWeight(net)` returns `netWeight_[net]` as a float, so what a net weight
becomes on its way into the matrix is decided by the *element type of the
container* alone: an integer type truncates toward zero (C++ float -> int
conversion), `float` stores the value unchanged.  That fact is read from clang's
typed AST of net_model.hpp and emitted as the Lean function `store` which the
assembly model (`Model/NetAsm.lean`) applies to every weight.

Also checked (shape the model relies on, an unknown shape is an error):
  * `addNet(const vector<int>&, const vector<float>&, float weight)` has a `float` weight;
  * the accessor `netWeight(int) const` returns `float`.
"""
import re

import translate as T

REL = "src/place_global/net_model.hpp"

INT_TYPES = {"int", "long", "long long", "short", "unsigned int", "unsigned long", "unsigned", "char",
             "signed char", "unsigned char", "std::int32_t", "std::int64_t", "int32_t", "int64_t"}
# float is the type of the accessor and of every operation of MatrixCreator; a wider storage type
# (double) would be rounded back to float by the accessor and needs a different model.
EXACT_TYPES = {"float"}


def generate():
    objs = T.clang_ast(REL, "coloquinte::NetModel")
    field, accessor, addnets = None, None, []
    for o in objs:
        if o.get("kind") != "CXXRecordDecl" or o.get("name") != "NetModel":
            continue
        for n in o.get("inner", []) or []:
            if n.get("kind") == "FieldDecl" and n.get("name") == "netWeight_":
                field = n
            if n.get("kind") == "CXXMethodDecl" and n.get("name") == "netWeight":
                accessor = n
            if n.get("kind") == "CXXMethodDecl" and n.get("name") == "addNet":
                addnets.append(n)
    if field is None:
        raise T.TranslateError("NetModel::netWeight_ not found in %s" % REL)
    qt = field["type"].get("desugaredQualType") or field["type"]["qualType"]
    m = re.fullmatch(r"\s*(?:const\s+)?std::vector<\s*([^,<>]+?)\s*(?:,\s*std::allocator<[^<>]+>\s*)?>\s*", qt)
    if not m:
        raise T.TranslateError("NetModel::netWeight_ has unexpected type %r (expected std::vector<T>)" % qt)
    elem = m.group(1).strip()
    if accessor is None or not re.match(r"\s*float\s*\(int\)\s*const", accessor["type"]["qualType"]):
        raise T.TranslateError("NetModel::netWeight accessor is not `float (int) const`: %r"
                               % (accessor and accessor["type"]["qualType"]))
    wts = []
    for a in addnets:
        params = [p for p in a.get("inner", []) or [] if p.get("kind") == "ParmVarDecl"]
        for p in params:
            if p.get("name") == "weight":
                wts.append(p["type"]["qualType"])
    if not wts or any(w != "float" for w in wts):
        raise T.TranslateError("NetModel::addNet weight parameters are not all `float`: %r" % wts)

    if elem in EXACT_TYPES:
        exact = True
        store = "w"
        why = "`float` container: the float weight is stored unchanged"
    elif elem in INT_TYPES:
        exact = False
        store = "((Int.tdiv w.num (w.den : Int) : Int) : Rat)"
        why = "integer container: C++ float -> %s conversion truncates toward zero" % elem
    else:
        raise T.TranslateError("NetModel::netWeight_ element type %r is neither float nor a known integer type" % elem)

    src = T.read(REL)
    line = [l for l in src.splitlines() if "netWeight_;" in l]
    lean = """/-
Translated fact (tie T) for C17.  Source: %s
  declaration : `%s`
  element type: `%s`  (%s)
  digest of net_model.hpp: %s
-/
namespace ColoVerif.Gen.NetWeightType

/-- Declared element type of `NetModel::netWeight_` (clang AST). -/
def cxxElemType : String := "%s"

/-- What `netWeight_.push_back(weight)` followed by `netWeight(net)` turns a weight into. -/
def store (w : Rat) : Rat := %s

/-- `true` iff the storage type keeps real-valued weights. -/
def storeIsExact : Bool := %s

end ColoVerif.Gen.NetWeightType
""" % (REL, (line[0].strip() if line else "?"), elem, why, T.digest(src), elem, store, "true" if exact else "false")
    return {"NetWeightType.lean": lean,
            "info": {"netWeight_element_type": elem, "exact": exact, "source_digest": T.digest(src)}}
