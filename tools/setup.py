#!/usr/bin/env python3
"""MANIFEST.setup_cmd: build the framework from files on disk only (offline)."""
import glob
import os
import re
import sys
import time

sys.path.insert(0, os.path.dirname(os.path.abspath(__file__)))
import common as C  # noqa: E402
import translate  # noqa: E402

t0 = time.time()
gens = sorted(os.path.basename(p)[:-3] for p in glob.glob(os.path.join(C.VERIF, "tools", "gen", "*.py"))
              if not p.endswith("__init__.py"))
try:
    translate.run(gens)
except translate.TranslateError as e:
    print("setup: translator error (checks will report it):", e)
exes = re.findall(r'^name = "(drv_\w+)"', open(os.path.join(C.LEAN_SRC, "lakefile.toml")).read(), re.M)
props = sorted(os.path.basename(p)[:-3] for p in glob.glob(os.path.join(C.VERIF, "tools", "props", "C*.py")))
# one lake invocation for everything first (fast path); a failing module must not stop the others, so
# fall back to per-property builds and report what failed (the property's own check will report it too)
targets = ["ColoVerif.Properties." + p for p in props] + [e for e in exes if e[4:] in props]
rc, out, dt = C.lake_build(targets)
print("setup: lake build of %d targets rc=%d in %.0fs" % (len(targets), rc, dt))
failed = []
if rc != 0:
    print(out[-2000:])
    for t in targets:
        rc1, out1, dt1 = C.lake_build([t])
        if rc1 != 0:
            failed.append(t)
            print("setup: target %s FAILED:\n%s" % (t, out1[-1500:]))
for v in ("san",):
    try:
        lib, dt = C.build_lib(v)
        print("setup: %s (%.0fs)" % (lib, dt))
    except RuntimeError as e:
        print("setup: library build failed:", str(e)[-2000:])
print("setup done in %.0fs; failed targets: %s" % (time.time() - t0, failed or "none"))
sys.exit(0)
