#!/usr/bin/env python3
"""MANIFEST.setup_cmd: build the framework from files on disk only (offline)."""
import glob
import os
import re
import sys
import time

sys.path.insert(0, os.path.dirname(os.path.abspath(__file__)))
import common as C  # noqa: E402
import translate  # noqa: E402

t0 = time.time()
gens = sorted(os.path.basename(p)[:-3] for p in glob.glob(os.path.join(C.VERIF, "tools", "gen", "*.py"))
              if not p.endswith("__init__.py"))
try:
    translate.run(gens)
except translate.TranslateError as e:
    print("setup: translator error (checks will report it):", e)
exes = re.findall(r'^name = "(drv_\w+)"', open(os.path.join(C.LEAN_SRC, "lakefile.toml")).read(), re.M)
rc, out, dt = C.lake_build(["ColoVerif"] + exes)
print(out[-3000:])
print("setup: lake build rc=%d in %.0fs" % (rc, dt))
for v in ("san",):
    lib, dt = C.build_lib(v)
    print("setup: %s (%.0fs)" % (lib, dt))
print("setup done in %.0fs" % (time.time() - t0))
sys.exit(0 if rc == 0 else 1)
