#!/usr/bin/env python3
"""Regenerates MANIFEST.json from tools/props/*.py (one module per claimed property)."""
import importlib
import json
import os
import sys

sys.path.insert(0, os.path.dirname(os.path.abspath(__file__)))
import common as C  # noqa: E402

props = [json.loads(l) for l in open(os.path.join(C.VERIF, "properties.jsonl"))]
checks, na = [], []
NA_REASONS = {}
p_na = os.path.join(C.VERIF, "tools", "not_applicable.json")
if os.path.exists(p_na):
    NA_REASONS = json.load(open(p_na))
for p in props:
    pid = p["id"]
    try:
        cfg = importlib.import_module("props." + pid)
    except ModuleNotFoundError:
        na.append({"property_id": pid, "reason": NA_REASONS.get(pid, "check not built yet (work in progress; planned in DESIGN.md section 9)")})
        continue
    checks.append({
        "property_id": pid,
        "quick_cmd": "python3 tools/check.py %s --tier quick" % pid,
        "thorough_cmd": "python3 tools/check.py %s --tier thorough" % pid,
        "evidence_file": "/verif/evidence/%s.json" % pid,
        "replay_cmd_template": "python3 tools/check.py %s --replay {path}" % pid,
        "engine": "lean4-model+correspondence",
        "level_claimed": {"category": "proof", "text": getattr(cfg, "LEVEL_TEXT", ""), "design_ref": "DESIGN.md section 9, " + pid},
        "level_note": getattr(cfg, "LEVEL_NOTE", ""),
        "technique": getattr(cfg, "TECHNIQUE", "Lean 4 theorems about an executable model; model tied to the C++ by differential correspondence"),
    })
m = {
    "version": 1,
    "setup_cmd": "python3 tools/setup.py",
    "hooks": {
        "guard": C.GUARD,
        "enable": "checks compile /repo/src themselves with -D%s (tools/common.py build_lib); no build-system change" % C.GUARD,
        "baseline_off_cmd": "sh /verif/tools/baseline_off.sh",
        "source_commits": json.load(open(os.path.join(C.VERIF, "tools", "hook_commits.json"))) if os.path.exists(os.path.join(C.VERIF, "tools", "hook_commits.json")) else [],
        "add_only": True,
    },
    "engines": [{"name": "lean4-model+correspondence", "path": "/verif/tools/check.py",
                 "serves_properties": [c["property_id"] for c in checks],
                 "kind_free_text": "Lean 4 (core + single Mathlib modules) theorems over executable models; translator (clang AST -> Lean) and C++ differential harness + lean_exe line-protocol driver tie the model to /repo; direct oracle searches for replays"}],
    "checks": checks,
    "not_applicable": na,
    "notes": "See DESIGN.md. Every check: translate -> lake build -> axiom audit -> sanitized build of /repo/src -> harness (correspondence + direct oracle) -> evidence.",
}
with open(os.path.join(C.VERIF, "MANIFEST.json"), "w") as f:
    json.dump(m, f, indent=1)
print("MANIFEST: %d checks, %d not_applicable" % (len(checks), len(na)))
