#!/bin/bash
# Re-create a seeded patch against /repo's current HEAD (after fix: commits moved the context) and re-validate it.
set -u
ID=$1
V=$(cd "$(dirname "$0")/.." && pwd)
WT=/var/tmp/rebase-$ID
git -C /repo worktree add -q --detach $WT HEAD || exit 2
cd $WT
if ! patch -p1 --fuzz=3 -s < $V/seeded/$ID/patch.diff; then echo "REBASE FAILED (manual port needed)"; cd /; git -C /repo worktree remove --force $WT; exit 1; fi
find . -name '*.orig' -delete
mkdir -p MUT/m; git diff > MUT/m/patch.diff; cp $V/seeded/$ID/demo.cpp MUT/m/; [ -f $V/seeded/$ID/README.md ] && cp $V/seeded/$ID/README.md MUT/m/
git checkout -q -- .
PROP=$(python3 -c "import json;print(json.load(open('$V/seeded/$ID/meta.json'))['property'])")
NEEDS=$(python3 -c "import json;print(json.load(open('$V/seeded/$ID/meta.json'))['needs_to_manifest'])")
$V/tools/validate_seed.sh $WT MUT/m $ID $PROP "$NEEDS" | tail -2
cd /; git -C /repo worktree remove --force $WT
