#!/bin/bash
# Independently confirm a seeded change produced by a mutation sub-agent, then file it under /verif/seeded/.
#   usage: tools/validate_seed.sh <worktree> <mdir (e.g. MUTATION/m1)> <seed-id> <property> "<needs>"
# Confirms: patch applies to clean HEAD; library + tests build; ctest passes with the patch;
# the demo FAILS with the patch and PASSES without it.
set -u
WT=$1; M=$2; ID=$3; PROP=$4; NEEDS=${5:-}
V=$(cd "$(dirname "$0")/.." && pwd)
cd "$WT" || exit 2
git checkout -q -- .
LOG=$(mktemp)
build() { cmake -G Ninja -S "$WT" -B "$WT/_build" >/dev/null 2>&1 && cmake --build "$WT/_build" -j8 >>"$LOG" 2>&1; }
SANF="-fsanitize=address,undefined -fno-sanitize-recover=all"
buildsan() { cmake -G Ninja -S "$WT" -B "$WT/_build_san" -DCMAKE_CXX_FLAGS="-O1 -g $SANF -fno-omit-frame-pointer" >/dev/null 2>&1 && cmake --build "$WT/_build_san" --target coloquinte -j8 >>"$LOG" 2>&1; }
demosan() { buildsan && g++ -std=c++17 -g $SANF -I src "$M"/demo.cpp _build_san/libcoloquinte.so -Wl,-rpath,"$WT/_build_san" -pthread -o _build_san/demo_seed >>"$LOG" 2>&1 && ASAN_OPTIONS=detect_leaks=0 timeout 600 ./_build_san/demo_seed "$WT" >>"$LOG" 2>&1; }
demo_plain() { g++ -std=c++17 -O1 -I src "$M"/demo.cpp _build/libcoloquinte.so -Wl,-rpath,"$WT/_build" -pthread -o _build/demo_seed >>"$LOG" 2>&1 && timeout 300 ./_build/demo_seed "$WT" >>"$LOG" 2>&1; }
demo() { if [ "${SEED_SAN:-0}" = 1 ]; then demosan; else demo_plain; fi; }
git apply --check "$M/patch.diff" || { echo "INVALID: patch does not apply"; exit 1; }
git apply "$M/patch.diff"
build || { echo "INVALID: does not build with patch"; tail -5 "$LOG"; git checkout -q -- .; exit 1; }
ctest --test-dir _build -j8 --timeout 900 >"$LOG.ctest" 2>&1; CT=$?
PASSED=$(grep -c "Passed" "$LOG.ctest")
demo; D_WITH=$?
git checkout -q -- .
build || { echo "INVALID: clean tree does not build"; exit 1; }
demo; D_WITHOUT=$?
echo "ctest_with_patch_exit=$CT (binaries passed: $PASSED) demo_with_patch_exit=$D_WITH demo_without_patch_exit=$D_WITHOUT"
if [ $CT -ne 0 ] || [ $D_WITH -eq 0 ] || [ $D_WITHOUT -ne 0 ]; then echo "INVALID: conditions not met"; exit 1; fi
mkdir -p "$V/seeded/$ID"
cp "$M/patch.diff" "$V/seeded/$ID/patch.diff"
cp "$M/demo.cpp" "$V/seeded/$ID/demo.cpp"
[ -f "$M/README.md" ] && cp "$M/README.md" "$V/seeded/$ID/README.md"
python3 - "$V/seeded/$ID/meta.json" "$PROP" "$NEEDS" "$CT" "$PASSED" "$D_WITH" "$D_WITHOUT" "$(git rev-parse HEAD)" <<'EOF'
import json,sys
p,prop,needs,ct,passed,dw,dwo,head=sys.argv[1:]
json.dump({"property":prop,"needs_to_manifest":needs,
 "confirmed":{"base_commit":head,"builds_with_patch":True,"ctest_with_patch_exit":int(ct),"ctest_binaries_passed":int(passed),
              "demo_with_patch_exit":int(dw),"demo_without_patch_exit":int(dwo),
              "commands":["git apply patch.diff","cmake -G Ninja -S . -B _build && cmake --build _build","ctest --test-dir _build -j8",
                          "g++ -std=c++17 -O1 -I src demo.cpp _build/libcoloquinte.so -Wl,-rpath,_build -pthread -o demo && ./demo","git checkout -- . ; rebuild ; ./demo"]},
 "origin":"fresh sub-agent given only the property text and its own scratch worktree"},open(p,"w"),indent=1)
EOF
echo "VALID: filed as seeded/$ID"
