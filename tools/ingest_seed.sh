#!/bin/bash
# Ingest the deliverables of a round-4 seeding sub-agent: validate MUTATION/m1,m2 of worktree /tmp/wt4-Cnn
# independently (tools/validate_seed.sh), file them as seeded/Cnn-m5, Cnn-m6, run the property's check against
# each (tools/run_seeded.py), and remove the worktree.   usage: tools/ingest_seed.sh Cnn [base=5]
P=$1; BASE=${2:-5}
V=$(cd "$(dirname "$0")/.." && pwd)
WT=${SEEDWT:-/tmp/wt4}-$P
[ -d "$WT" ] || { echo "no worktree $WT"; exit 2; }
IDS=""
for k in 1 2; do
  M=$WT/MUTATION/m$k
  [ -f "$M/patch.diff" ] && [ -f "$M/demo.cpp" ] || { echo "$P m$k: no deliverable"; continue; }
  ID=$P-m$((BASE + k - 1))
  NEEDS=$(grep -v '^#' "$M/README.md" 2>/dev/null | tr '\n' ' ' | cut -c1-600)
  if grep -qi "sanitiz" "$M/README.md" 2>/dev/null && grep -qiE "only (a |under |with )?(a )?sanitiz|requires? (a )?sanitiz" "$M/README.md"; then export SEED_SAN=1; else export SEED_SAN=0; fi
  out=$(bash "$V/tools/validate_seed.sh" "$WT" "MUTATION/m$k" "$ID" "$P" "$NEEDS" 2>&1)
  echo "$ID: $out" | tail -3
  if echo "$out" | grep -q "^VALID"; then IDS="$IDS $ID"; else
    # second chance with the sanitized demo build
    if [ "$SEED_SAN" = 0 ]; then
      out=$(SEED_SAN=1 bash "$V/tools/validate_seed.sh" "$WT" "MUTATION/m$k" "$ID" "$P" "$NEEDS" 2>&1)
      echo "$ID (san): $out" | tail -2
      echo "$out" | grep -q "^VALID" && IDS="$IDS $ID"
    fi
  fi
done
git -C /repo worktree remove --force "$WT" 2>/dev/null; rm -rf "$WT"
[ -n "$IDS" ] && python3 "$V/tools/run_seeded.py" $IDS
