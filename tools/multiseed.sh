#!/bin/bash
# Clean-tree robustness: run every quick check at several VERIF_SEED values; any VIOLATION / non-zero exit is an alarm to investigate.
# usage: tools/multiseed.sh "2 3 4" [props...]
cd "$(dirname "$0")/.."
SEEDS=${1:-"2 3"}; shift
PROPS=${@:-C01 C02 C03 C04 C05 C06 C07 C08 C09 C10 C11 C12 C13 C14 C15 C16 C17 C18 C19 C20}
[ -d lean/.lake ] || python3 tools/setup.py | tail -3
for s in $SEEDS; do for p in $PROPS; do
  t0=$(date +%s); out=$(VERIF_SEED=$s python3 tools/check.py $p --tier quick 2>&1); rc=$?
  echo "seed=$s $p rc=$rc t=$(( $(date +%s) - t0 ))s $(echo "$out" | grep -E '^(VIOLATION|KNOWN-FINDING)' | head -3 | tr '\n' ';')"
  [ $rc -ne 0 ] && echo "$out" | tail -30
done; done
