"""C14 — one-dimensional transportation: valid optimal plan, memory-safe rounding."""
VARIANT = "san"
RULE = "see stats"
PARTIAL = [
    "universal optimality (t1d_optimal_full_statement) is the only clause not proved for all inputs.  Proved for all inputs: "
    "with total supply = total demand (the output of balanceDemand whenever supply exceeded demand) solve returns a plan of "
    "minimum cost (t1d_optimal_balanced: explicit Kantorovich potential passes certOk); with slack (demand > supply) "
    "t1d_optimal_partial proves that solve returns a valid plan which is of minimum cost whenever it passes the verified "
    "certificate (cert_optimal_1d, FULL: weak duality + complementary slackness) - that potentials exist for every input with "
    "slack (the correctness of the event sweep as an optimiser of the positions) is not proved.  Instead the driver evaluates "
    "the same certOk on the model's plan for every `cert` op (all cases up to 6x6 and every 4th larger one; potentials from an "
    "untrusted Bellman-Ford) and the harness compares the real plan's cost with an independent exact optimum (non-crossing "
    "DP over unit supplies/slots)",
    "solver.check()/checkSolutionValid()/checkSolutionOptimal() inside solve() are not modelled: any throw on a valid "
    "instance is an oracle failure and a correspondence mismatch (F11 lived there and is covered by UBSan on every case)",
]
ASSUMPTIONS = [
    "C++ long long/int arithmetic modelled as unbounded Int (positions up to 1e8 and quantities up to 3e12 are exercised under UBSan)",
    "std::priority_queue<pair> modelled as a sorted list (equal pairs are identical, so heap order among them is unobservable)",
    "std::sort on the distinct (position, index) pairs modelled as insertion sort with the same strict total order",
    "std::upper_bound/lower_bound on the sorted sink positions modelled as the length of the takeWhile prefix",
    "balanceDemand() with no sink and a deficit divides by zero in the C++ (model: Err.divByZero); not generated, outside the property's domain",
]
LEVEL_TEXT = ("Lean 4 theorems over an executable, bounds-checked model of Transportation1d/Sorter/Solver, all for every input of the "
              "domain (zeros included, after the repair of F10): solve() never errors and returns a valid plan (t1d_valid: sweep "
              "invariants, termination of the while loop of push within the model's fuel, interval geometry, two-pointer merge of "
              "computeSolution, sorter index maps); assign() never errors, one positive-demand sink per source (t1d_assign_safe); "
              "a source the plan does not split is assigned exactly the plan's sink (t1d_unsplit_kept); balanceDemand; and a verified "
              "optimality certificate (weak duality), instantiated for every input with supply = demand (t1d_optimal_balanced) and evaluated "
              "per instance otherwise - universal optimality with slack is the one clause left partial; "
              "the model is tied to the C++ by an exhaustive small-bound + random (positions to 1e8) differential stream under "
              "ASan/UBSan; validity, optimality (independent exact optimum) and the rounding clauses are additionally evaluated by a "
              "direct oracle on every generated instance")
LEVEL_NOTE = ("Trusted: Lean kernel (axioms propext/Classical.choice/Quot.sound only), the hand-written model's tie to the code "
              "(differential, bounded by the generator), unbounded Int for long long, list models of priority_queue/sort/bounds.")
TECHNIQUE = "Lean 4 proof (sweep invariants + termination measure, interval merge, permutation index maps, LP weak duality, Kantorovich potential for the balanced case) + model/implementation correspondence stream + per-instance optimality certificate"
