"""C14 — one-dimensional transportation: valid optimal plan, memory-safe rounding."""
VARIANT = "san"
RULE = "see stats"
PARTIAL = [
    "universal optimality (t1d_optimal_full_statement): proved per instance through the verified certificate "
    "(cert_optimal_1d, FULL: weak duality + complementary slackness); the driver evaluates the same certOk on the model's "
    "plan for every `cert` op (all cases up to 6x6 and every 4th larger one; potentials from an untrusted Bellman-Ford) and "
    "the harness compares the real plan's cost with an independent exact optimum (non-crossing DP over unit supplies/slots)",
    "validity of the plan for all inputs (t1d_valid_full_statement): proved up to the positions (no out-of-range access in the "
    "sweep/flush, source intervals ordered, disjoint, inside [0, total demand]); the merge of computeSolution and "
    "convertSolutionBack are covered by the direct oracle on every case and by validPlan inside every `cert ok`",
    "unsplit sources (t1d_unsplit_kept_full_statement): proved on the instance handed to the solver for all inputs "
    "(t1d_unsplit_kept_partial: a source whose interval lies inside one sink's interval is assigned that sink); "
    "'single plan entry => containment' (merge of computeSolution) and the sorter's index maps are covered by the direct oracle",
    "termination of the while loop of Transportation1dSolver::push: the model takes fuel and t1d_assign_safe/t1d_valid_partial "
    "leave `outOfFuel` open; the stream runs with fuel 10^6 and a 900 s watchdog on the real code and never sees it",
    "solver.check()/checkSolutionValid()/checkSolutionOptimal() inside solve() are not modelled: any throw on a valid "
    "instance is an oracle failure and a correspondence mismatch (F11 lived there and is covered by UBSan on every case)",
]
ASSUMPTIONS = [
    "C++ long long/int arithmetic modelled as unbounded Int (positions up to 1e8 and quantities up to 3e12 are exercised under UBSan)",
    "std::priority_queue<pair> modelled as a sorted list (equal pairs are identical, so heap order among them is unobservable)",
    "std::sort on the distinct (position, index) pairs modelled as insertion sort with the same strict total order",
    "std::upper_bound/lower_bound on the sorted sink positions modelled as the length of the takeWhile prefix",
    "balanceDemand() with no sink and a deficit divides by zero in the C++ (model: Err.divByZero); not generated, outside the property's domain",
]
LEVEL_TEXT = ("Lean 4 theorems over an executable, bounds-checked model of Transportation1d/Sorter/Solver: memory safety of assign() "
              "for every input of the domain (zeros included, after the repair of F10), balanceDemand, and a verified optimality "
              "certificate (weak duality); the model is tied to the C++ by an exhaustive small-bound + random (positions to 1e8) "
              "differential stream under ASan/UBSan; validity, optimality (independent exact optimum) and the rounding clauses are "
              "additionally evaluated by a direct oracle on every generated instance")
LEVEL_NOTE = ("Trusted: Lean kernel (axioms propext/Classical.choice/Quot.sound only), the hand-written model's tie to the code "
              "(differential, bounded by the generator), unbounded Int for long long, list models of priority_queue/sort/bounds.")
TECHNIQUE = "Lean 4 proof (invariants of the sweep, LP weak duality) + model/implementation correspondence stream + per-instance certificate"
