"""C14 — one-dimensional transportation: valid optimal plan, memory-safe rounding."""
VARIANT = "san"
RULE = "see stats"
PARTIAL = [
    "Every clause of the property is proved for all inputs of the domain on the model (universal optimality included: "
    "t1d_optimal), and since this round the self-checks solve() runs on itself (check, solver.check, checkSolutionValid, "
    "checkSolutionOptimal) are modelled branch for branch (Model/Transp1dChecks.lean, solveFull) and proved never to throw "
    "on the domain (solveFull_never_throws; checks_accept_iff_in_domain, solve_passes_own_checks) and to throw, with the "
    "stated message, on each class of malformed input (checks_reject_*). Not proved / not exercised: (a) soundness of "
    "checkSolutionOptimal as an optimality test (that a plan it accepts is optimal) is neither claimed by the property nor "
    "proved - only that it accepts the solver's plan, and two decided witnesses that its error branches are reachable; the "
    "correspondence compares model and code on ~57000 mutated plans per run; (b) calls the C++ cannot survive are not in the "
    "correspondence stream: checkSolutionValid/checkSolutionOptimal with an entry index out of range (model: "
    "err:indexOutOfRange; C++: out-of-bounds write) and checkSolutionOptimal with a non-positive demand on a sink without "
    "entry (model: err:sentinel; C++: LLONG_MIN enters `gain +=`, signed overflow when the gain is negative) - "
    "solve_passes_own_checks shows neither happens inside solve(); (c) three throw sites are dead in the C++ as written "
    "(u.size() != nbSources(), v.size() != nbSinks(), and S/D/p size tests of solver.check() which hold by construction): "
    "they are in the model but no input reaches them",
]
ASSUMPTIONS = [
    "C++ long long/int arithmetic modelled as unbounded Int (positions up to 1e8 and quantities up to 3e12 are exercised under UBSan)",
    "std::priority_queue<pair> modelled as a sorted list (equal pairs are identical, so heap order among them is unobservable)",
    "std::sort on the distinct (position, index) pairs modelled as insertion sort with the same strict total order",
    "std::upper_bound/lower_bound on the sorted sink positions modelled as the length of the takeWhile prefix",
    "balanceDemand() with no sink and a deficit divides by zero in the C++ (model: Err.divByZero); not generated, outside the property's domain",
]
LEVEL_TEXT = ("Lean 4 theorems over an executable, bounds-checked model of Transportation1d/Sorter/Solver, all for every input of the "
              "domain (zeros included, after the repair of F10): solve() never errors and returns a valid plan (t1d_valid: sweep "
              "invariants, termination of the while loop of push within the model's fuel, interval geometry, two-pointer merge of "
              "computeSolution, sorter index maps) of minimum cost among all valid plans (t1d_optimal, universal: with slack by a "
              "correctness proof of the slope-events sweep - the event queue encodes the marginal cost of pushing the last run of "
              "touching sources to the left, every pushToNewSink/pushToLastSink decision keeps all one-sided marginal costs "
              "non-negative, so the flushed positions satisfy the optimality conditions of the position problem (t1d_positions_kkt), "
              "which yield sink prices forming a dual certificate (t1d_kkt_dual, Monge property + quasi-convexity of |u-v|), carried "
              "back through the sorter to the verified certificate certOk (cert_optimal_1d, weak duality); with exact balance by an "
              "explicit Kantorovich potential, t1d_optimal_balanced); assign() never errors, one positive-demand sink per source "
              "(t1d_assign_safe); a source the plan does not split is assigned exactly the plan's sink (t1d_unsplit_kept); "
              "balanceDemand; solve() WITH its self-checks (solveFull: Transportation1d::check, Transportation1dSolver::check, "
              "checkSolutionValid, checkSolutionOptimal incl. the LLONG_MIN sentinel handling repaired after F11, modelled branch for "
              "branch with one error value per exception message) never throws on the domain and returns solve's plan "
              "(solveFull_never_throws: check() accepts exactly the domain, the sorted zero-free instance passes solver.check(), the "
              "plan is valid, and the dual certificate of the optimality proof bounds every running gain of the two scans by "
              "be(nxt)-be(snk) <= 0; the sentinel is never read), and throws the stated exception on every class of malformed input "
              "(checks_reject_*: sizes, negative supply/demand, supply > demand / empty sink side, unsorted positions, zero "
              "capacities; checkSolutionValid accepts exactly the valid plans); the model is tied to the C++ by an exhaustive small-bound + random (positions to 1e8) differential "
              "stream under ASan/UBSan, which since this round also covers solve() with its checks on every case (`full`, incl. which "
              "exception) and a second stream of 25000 malformed / raw cases per run driving each check function directly (`chk`, "
              "`schk`, `val`, `opt`: size mismatches, negative and zero quantities, excess supply, unsorted positions, empty sides, "
              "several defects at once; the solver's own solution, the reverse-greedy plan and random mutations for the two solution "
              "checks - model and code must agree on whether and with which message each call throws); per instance the driver additionally evaluates certOk (untrusted Bellman-Ford potentials) on "
              "`cert` ops and the verified interval certificate ivCertOk of the sweep's positions (closed-formula prices) on every "
              "case; validity, optimality (independent exact optimum) and the rounding clauses are evaluated by a direct oracle on "
              "every generated instance")
LEVEL_NOTE = ("Trusted: Lean kernel (axioms propext/Classical.choice/Quot.sound only), the hand-written model's tie to the code "
              "(differential, bounded by the generator), unbounded Int for long long, list models of priority_queue/sort/bounds.")
TECHNIQUE = "Lean 4 proof (sweep invariants + termination measure, correctness of the slope-events sweep as an optimiser: event queue = marginal cost, KKT conditions of the position problem, dual prices via Monge/quasi-convexity, LP weak duality, Kantorovich potential for the balanced case, interval merge, permutation index maps; self-checks of solve(): executable model with one error per exception message, acceptance derived from the dual certificate, rejection lemmas per malformed-input class) + model/implementation correspondence stream + per-instance optimality certificates"
