"""C14 — one-dimensional transportation: valid optimal plan, memory-safe rounding."""
VARIANT = "san"
RULE = "see stats"
PARTIAL = [
    "solver.check()/checkSolutionValid()/checkSolutionOptimal() inside solve() are not modelled: any throw on a valid "
    "instance is an oracle failure and a correspondence mismatch (F11 lived there and is covered by UBSan on every case). "
    "Every clause of the property is proved for all inputs of the domain on the model (universal optimality included: "
    "t1d_optimal, since this round also with slack)",
]
ASSUMPTIONS = [
    "C++ long long/int arithmetic modelled as unbounded Int (positions up to 1e8 and quantities up to 3e12 are exercised under UBSan)",
    "std::priority_queue<pair> modelled as a sorted list (equal pairs are identical, so heap order among them is unobservable)",
    "std::sort on the distinct (position, index) pairs modelled as insertion sort with the same strict total order",
    "std::upper_bound/lower_bound on the sorted sink positions modelled as the length of the takeWhile prefix",
    "balanceDemand() with no sink and a deficit divides by zero in the C++ (model: Err.divByZero); not generated, outside the property's domain",
]
LEVEL_TEXT = ("Lean 4 theorems over an executable, bounds-checked model of Transportation1d/Sorter/Solver, all for every input of the "
              "domain (zeros included, after the repair of F10): solve() never errors and returns a valid plan (t1d_valid: sweep "
              "invariants, termination of the while loop of push within the model's fuel, interval geometry, two-pointer merge of "
              "computeSolution, sorter index maps) of minimum cost among all valid plans (t1d_optimal, universal: with slack by a "
              "correctness proof of the slope-events sweep - the event queue encodes the marginal cost of pushing the last run of "
              "touching sources to the left, every pushToNewSink/pushToLastSink decision keeps all one-sided marginal costs "
              "non-negative, so the flushed positions satisfy the optimality conditions of the position problem (t1d_positions_kkt), "
              "which yield sink prices forming a dual certificate (t1d_kkt_dual, Monge property + quasi-convexity of |u-v|), carried "
              "back through the sorter to the verified certificate certOk (cert_optimal_1d, weak duality); with exact balance by an "
              "explicit Kantorovich potential, t1d_optimal_balanced); assign() never errors, one positive-demand sink per source "
              "(t1d_assign_safe); a source the plan does not split is assigned exactly the plan's sink (t1d_unsplit_kept); "
              "balanceDemand; the model is tied to the C++ by an exhaustive small-bound + random (positions to 1e8) differential "
              "stream under ASan/UBSan; per instance the driver additionally evaluates certOk (untrusted Bellman-Ford potentials) on "
              "`cert` ops and the verified interval certificate ivCertOk of the sweep's positions (closed-formula prices) on every "
              "case; validity, optimality (independent exact optimum) and the rounding clauses are evaluated by a direct oracle on "
              "every generated instance")
LEVEL_NOTE = ("Trusted: Lean kernel (axioms propext/Classical.choice/Quot.sound only), the hand-written model's tie to the code "
              "(differential, bounded by the generator), unbounded Int for long long, list models of priority_queue/sort/bounds.")
TECHNIQUE = "Lean 4 proof (sweep invariants + termination measure, correctness of the slope-events sweep as an optimiser: event queue = marginal cost, KKT conditions of the position problem, dual prices via Monge/quasi-convexity, LP weak duality, Kantorovich potential for the balanced case, interval merge, permutation index maps) + model/implementation correspondence stream + per-instance optimality certificates"
