"""C06 — global placement stays inside the placement area and exports the blend."""
VARIANT = "san"
RULE = "see stats"
TIMEOUT = {"quick": 900, "search": 1800, "thorough": 3 * 3600}
PARTIAL = [
    "single-precision arithmetic: the theorems are over Rat; inside spreadCells a float coordinate may round onto the "
    "bin edge (still inside the closed bounding box, which is what the statement asks). Supported by the correspondence "
    "stream: exact equality of rationals where float arithmetic is exact, |float - rat| <= 2^-18(|lo|+|hi|+1) otherwise "
    "(derived bound, bins of <= 29 cells), and containment checked on the float result itself",
    "no exposed/returned coordinate is non-finite or overflowed: finiteness of the conjugate-gradient iterates and of the "
    "float->int conversion is NOT proved; monitored by the oracle at every callback and after return on every generated "
    "circuit (sentinel INT_MIN/INT_MAX and |v| <= 2^30)",
    "global placement completes without raising: NOT proved; monitored (exceptions, assertion failures, ASan/UBSan reports "
    "in a forked child per circuit)",
    "the assignment of every positive-demand cell to exactly one bin whose limits are grid limits, and bins holding only "
    "positive-demand cells (hypotheses of ub_centre_inside / ub_every_cell_inside) is the C16 invariant "
    "(HierarchicalDensityPlacement::check under assertions); here it is exercised, not proved",
    "blendPlacement/exportPlacement are file-local/private: their model is tied to the code only end to end, through the "
    "exposed integer placements (driver op `blend`, bound proved as export_blend_observable) — not by a direct differential "
    "test on floats",
    "the free rows handed to the grid are Circuit::computeRows (C15): bins_inside_area assumes they lie inside the rows' "
    "bounding box and are well formed; the grid correspondence replays computeRows through the shared Freespace model",
]
ASSUMPTIONS = [
    "float arithmetic of spreadCells/blendPlacement modelled in Rat (see partial clauses)",
    "std::sort on pair<float,int> modelled by List.mergeSort with the lexicographic order (keys are pairwise distinct, so the "
    "sorted list is unique); NaN targets excluded (finite CG iterates are monitored, not proved)",
    "numerical knobs of the generator: CG tolerance in [1e-6,1], approximation and cutoff distances in [0.1,100], "
    "penalty initial value in [1e-3,10], side margin in [0,0.9] (unchecked by check()), coarsening limit in [1,1000], "
    "maxNbSteps <= 30 when knobs are randomised (so that penalty <= 10 * 1.99^30 stays far from float overflow; the "
    "thorough tier also runs the library default of 400 steps with each effort's own knobs), every other knob over the "
    "whole range accepted by check()",
    "circuits: vc::genCircuit restricted to rows >= 4 row heights wide; a quarter of them get 1-2 movable cells of zero "
    "width or zero height (at least one movable cell of positive area remains); coordinates within a few hundred units",
    "C++ int arithmetic modelled as unbounded Int (bin limits, margins)",
]
LEVEL_TEXT = ("Lean 4 theorems over an executable Rat model of spreadCells / spreadCoordX/Y / the density grid built from the clipped "
              "rows / blendPlacement / exportPlacement (containment of every positive-demand cell strictly inside its bin, bins inside "
              "the rows' bounding box, returned placement = rounded blend, and the observable three-roundings bound); model tied to "
              "the C++ by a differential stream on spreadCoordX/Y, simpleCoordX/Y and DensityGrid::fromIspdCircuit; the end-to-end "
              "statement (every UpperBound callback, finiteness, no error, returned = blend of the last exposed LB and UB) is checked "
              "by a direct oracle on Circuit::placeGlobal over generated circuits and parameters")
LEVEL_NOTE = ("Partial w.r.t. single precision: proofs are over Rat. Trusted: Lean kernel, the hand-written model's tie to the code "
              "(differential, bounded by the generator), the float error bound derivation in harness/h_C06.cpp.")
TECHNIQUE = "Lean 4 proof over a Rat model + model/implementation correspondence stream + end-to-end direct oracle"
