"""C06 — global placement stays inside the placement area and exports the blend."""
VARIANT = "san"
RULE = "see stats"
TIMEOUT = {"quick": 900, "search": 1800, "thorough": 3 * 3600}
GEN = ["GeomFns"]
PARTIAL = [
    "single-precision arithmetic of spreadCells/spreadCoordX/Y: modelled bit for bit (Model/SpreadF.lean: one binary32 "
    "round-to-nearest-even per C++ operator, the clamp of fixes/c06-spread-clamp.diff included; x86-64 SSE, no FMA contraction — "
    "neither /repo's build files nor the harness pass -march/-mfma; on a target with FMA the coordinate expression could be "
    "contracted and the model would not apply, but the containment theorems would, since they rest on the clamp alone) and compared "
    "EXACTLY with the real spreadCoordX/Y on every run (stream spreadf: limits up to 2^22, demands up to INT_MAX, up to 301 cells "
    "per bin, huge+tiny demand mixes, the witnesses of corpus/C06/kf3-spread-drift.txt first). PROVED for all inputs: "
    "spreadF_inside_closed_bin (every positive-demand cell in the closed bin [lo,hi], lo <= hi, no other hypothesis), "
    "ubF_every_cell_inside (every cell of spreadCoordX/Y in [A,B]) and ubF_exposed_centre (exposed centre in [A-1/2,B+1/2], exactly "
    "the oracle's tolerance); extra hypothesis w.r.t. the Rat versions: bin limits convert exactly to float (|l| <= 2^24; C06 "
    "coordinates are below 2^22). Finite floats only: the rounding function has no infinities/NaN (targets are finite as long as "
    "the CG iterates are, which is monitored, not proved). STRICT containment (the anchor's 'strictly inside its bin') holds over Rat "
    "(spread_inside) but not in binary32: a coordinate can sit on the bin edge (counted: spreadf_coord_on_edge_of_bin)",
    "defect found and repaired here (fixes/c06-spread-clamp.diff): before the clamp the running share dem could accumulate past 1 in "
    "binary32 and cells landed outside their bin — 4000002.5 in [0,4000000] with 10 cells, 24.9 units outside with 301 cells, exported "
    "centre beyond the rows' bounding box when the bin touches the area's edge; pre-fix function kept as Model/LegacySpreadF.lean with "
    "kernel-evaluated witnesses legacy_spreadF_can_leave_bin / legacy_spreadF_can_exceed_half. Whether Circuit::placeGlobal could "
    "build such a bin was not established (the end-to-end generator keeps coordinates within a few hundred units)",
    "the Rat theorems (spread_inside, spread_coord_inside, ub_centre_inside, ub_every_cell_inside) remain as the exact-arithmetic "
    "reading of the mechanism; the older approx stream still checks |float - rat| <= 2^-18(|lo|+|hi|+1) (bins of <= 29 cells) and "
    "containment of the float result in the closed bin on its own (small-demand) generator",
    "no exposed/returned coordinate is non-finite or overflowed: finiteness of the conjugate-gradient iterates and of the "
    "float->int conversion is NOT proved; monitored by the oracle at every callback and after return on every generated "
    "circuit (sentinel INT_MIN/INT_MAX and |v| <= 2^30)",
    "global placement completes without raising: NOT proved; monitored (exceptions, assertion failures, ASan/UBSan reports "
    "in a forked child per circuit). It does NOT hold on the whole domain: (KF-C06-1) penalty_, penaltyCutoffDistance_ and "
    "approximationDistance_ follow unbounded geometric recurrences, so a run whose stop tests never fire (gapTolerance = "
    "distanceTolerance = 0 is accepted; small circuits whose gap stays above a positive tolerance) leaves single precision "
    "before the default step limit for update factors the check accepts, and placeGlobal raises or exposes huge coordinates; "
    "(KF-C06-2) the solves without penalty are singular for a group of movable cells without fixed pin and the CG solver "
    "occasionally breaks down to NaN on them (one run in ~50,000 here, default parameters included). Failures matching these "
    "two classifiers are reported as known findings, every other failure as a violation",
    "the assignment of every positive-demand cell to exactly one bin whose limits are grid limits, and bins holding only "
    "positive-demand cells (hypotheses of ub_centre_inside / ub_every_cell_inside) is the C16 invariant "
    "(HierarchicalDensityPlacement::check under assertions); here it is exercised, not proved",
    "blendPlacement/exportPlacement are file-local/private: their model is tied to the code only end to end, through the "
    "exposed integer placements (driver op `blend`, bound proved as export_blend_observable) — not by a direct differential "
    "test on floats",
    "control logic of GlobalPlacer::run (initial solves, stop test, penalty-update back-off, inner solves, the three geometric "
    "recurrences, final runUB, the exception of checkFinitePlacement): modelled by GlobalLoop.run as a function of the parameters "
    "and of an oracle trace (per iteration the observed ub, lb, dist, whether each lower-bound solve passed checkFinitePlacement, "
    "and the average cell length). loop_terminates, zero_wirelength_exits_first_step, recurrences_rounded hold for every trace "
    "and every rounding; they do NOT say which traces the float code produces — whether a stop test ever fires is exactly what "
    "KF-C06-1 is about. recurrences_closed_form and drift_box_sound are over exact arithmetic (Rounding.exact); for the float "
    "recurrences the driver replays the IEEE roundings (Rounding.ieee: round-to-nearest-even to 24/53 bits with subnormals, a "
    "hand-written definition that is itself not proved against IEEE-754) and every logged penalty_/penaltyCutoffDistance_/"
    "approximationDistance_/nextPenaltyUpdateDistance/gap must be reproduced bit for bit; the distance between the float values "
    "and the closed forms is checked per logged value against X_k((1+eps)^(k+1)-1), eps = 2^-24+2^-53+2^-77 (derived; not proved "
    "in Lean). This replay needs hook H5 (fixes/hook-h5-global-loop-log.diff): on a tree without it only the callback order, the "
    "returned/threw outcome and the iteration count are tied to the model (op gshape: the decisions are read off the callback "
    "sequence, so the stop reason and the recurrences are NOT checked there), plus the classifier (op gdrift)",
    "the KF-C06-1 classifier is GlobalLoop.driftOutOfBox (exact arithmetic on the parameters, in units of the average cell "
    "length); the harness evaluates the same predicate with exact integers and the two verdicts are compared per case at k = 0, "
    "at the updates of the run, at the step limit and around the first k where it turns true — not at every k",
    "the free rows handed to the grid are Circuit::computeRows (C15): bins_inside_area assumes they lie inside the rows' "
    "bounding box and are well formed; the grid correspondence replays computeRows through the shared Freespace model",
]
ASSUMPTIONS = [
    "float arithmetic of blendPlacement modelled in Rat; spreadCells/spreadCoordX/Y both in Rat (Model/Spread) and bit-exact "
    "binary32 (Model/SpreadF, rounding function F64.f32' = Legalize.f32: hand-written round-to-nearest-even with gradual underflow, "
    "no overflow to infinity, signed zeros not distinguished; itself tied to the FPU only through the exact streams)",
    "std::sort on pair<float,int> modelled by List.mergeSort with the lexicographic order (keys are pairwise distinct, so the "
    "sorted list is unique); NaN targets excluded (finite CG iterates are monitored, not proved)",
    "numerical knobs of the generator (end-to-end stream): CG tolerance in [1e-6,1], initial approximation and cutoff distances "
    "in [0.1,100], penalty initial value in [1e-3,10] (check() only asks > 0), side margin over the whole range [0,100] that check() accepts since fix 07db192 (half of the cases at the default 0.9, a sixth of the others above 0.9) and, one case in sixteen, OUTSIDE it (-20..-0.001, 150, 1e10: refused by the check, or else everything the property states is demanded), "
    "coarsening limit in [1,1000] and, one case in eight, -5 / 0 / 1e-6 / 1e12 (no check() constrains it); every other knob over the whole range accepted by check(): penalty.updateFactor over the open "
    "interval (1,2) (2^-20 from both ends included), both distance update factors over [0.8,1.2] (ends included), gapTolerance and "
    "distanceTolerance including 0 (stop test disabled), maxNbSteps from 1 to the efforts' default 400 (40% of the cases run with "
    "400); no coupling between updateFactor and maxNbSteps",
    "the number of loop steps, the zero-wirelength flag and the step at which a failure happened are read from the UpperBound "
    "callbacks and from the library's progress log; they are used for the measured distribution and for the known-finding "
    "classifiers (KF-C06-1: effective loop variables after k updates, recomputed exactly from the parameters, outside the numeric "
    "box of the statement — distances < 0.1, approximation distance > 1e3, penalty >= 2^128 (no longer a float), penalty/cutoff "
    ">= 2^64 or <= 2^-24 — and wirelength not identically zero; KF-C06-2: error raised by a solve "
    "without penalty on a circuit with a net-connected group of movable cells without fixed pin), never to accept a run",
    "circuits: vc::genCircuit (without its nets) restricted to rows >= 4 row heights wide, 1-10 cells (1-30 for one case in eight; "
    "one in four in the thorough tier); nets drawn by the harness: 7/12 generic (1..2n+1 nets of degree 1-5), 1/12 each: no net, "
    "only degree-1 nets, every pin of a net on one cell, pins on fixed cells only; a quarter of the circuits get 1-2 movable cells "
    "of zero width or zero height (at least one movable cell of positive area remains); coordinates within a few hundred units",
    "C++ int arithmetic modelled as unbounded Int (bin limits, margins)",
]
LEVEL_TEXT = ("Lean 4 theorems over an executable binary32-exact model of spreadCells / spreadCoordX/Y (every coordinate in the closed bin "
              "for all inputs, lifted to every cell and to the exposed centre; kernel-evaluated witnesses that the pre-fix function left "
              "its bin by more than 1/2; exact float-for-float differential stream + containment oracle) "
              "and over an executable Rat model of spreadCells / spreadCoordX/Y / the density grid built from the clipped "
              "rows / blendPlacement / exportPlacement (containment of every positive-demand cell strictly inside its bin, bins inside "
              "the rows' bounding box, returned placement = rounded blend, and the observable three-roundings bound); model tied to "
              "the C++ by a differential stream on spreadCoordX/Y, simpleCoordX/Y and DensityGrid::fromIspdCircuit; the end-to-end "
              "statement (every UpperBound callback, finiteness, no error, returned = blend of the last exposed LB and UB) is checked "
              "by a direct oracle on Circuit::placeGlobal over generated circuits and parameters. The control logic of "
              "GlobalPlacer::run is a second executable model (GlobalLoop.run: parameters + oracle trace of the float quantities -> "
              "callback sequence, exit reason, loop variables) with theorems for every trace (termination within the step limit and "
              "callback bounds, exit at the first iteration without wirelength, the recurrences and their closed forms, soundness of "
              "the KF-C06-1 numeric box, legacy witness on the pre-fix stop test); tied to the code per end-to-end case by the "
              "callback sequence (hook-free) and, with hook H5, by a bit-for-bit replay of the logged per-iteration floats.  One "
              "generated end-to-end case in three calls placeGlobal on a Circuit object with a past (common/past.hpp: built in a perturbed "
              "state — rows elsewhere, obstructions moved, flags/sizes/orientations/nets different, one class at a time for two thirds —, "
              "computeRows/computePlacementArea/hpwl/rowHeight/check called, restored through only the needed setters; half of these "
              "circuits have the rows setupRows produces and are restored through setupRows): the containment oracle is about the "
              "circuit's rows, so rows or obstructions remembered inside the object from before a setter are exposed; the failure input carries the past")
LEVEL_NOTE = ("Partial w.r.t. single precision: the spreading step is proved in binary32 (finite values), everything else is over Rat; "
              "the loop theorems are conditional on the oracle trace (they "
              "do not bound the float solves). Trusted: Lean kernel, the hand-written model's tie to the code "
              "(differential, bounded by the generator), the float error bound derivation in harness/h_C06.cpp.")
TECHNIQUE = "Lean 4 proof over a Rat model + model/implementation correspondence stream + end-to-end direct oracle"
