"""C06 — global placement stays inside the placement area and exports the blend."""
VARIANT = "san"
RULE = "see stats"
TIMEOUT = {"quick": 900, "search": 1800, "thorough": 3 * 3600}
PARTIAL = [
    "single-precision arithmetic of spreadCells/spreadCoordX/Y: modelled bit for bit (Model/SpreadF.lean: one binary32 "
    "round-to-nearest-even per C++ operator, x86-64 SSE, no FMA contraction — neither /repo's build files nor the harness pass "
    "-march/-mfma) and compared EXACTLY with the real spreadCoordX/Y on every run (stream spreadf: limits up to 2^22, demands up "
    "to INT_MAX, up to 301 cells per bin, huge+tiny demand mixes). In binary32 a coordinate is NOT always inside the closed "
    "bin: spreadF_can_leave_bin (one ulp outside, both sides, proved by kernel evaluation). Proved for all inputs: "
    "spreadF_enclosure_partial — every positive-demand cell is within epsF(d,lo,hi) = d(hi-lo) + (1+d)(|lo|+|hi|) 4 2^-24 + 8 2^-150 "
    "of its bin where 1+d bounds the FINAL running share dem of the loop; exposed_centre_within_half — an excursion below 1/2 "
    "vanishes in the export rounding; binF_exposed_centre_inside — both combined per bin; spreadF_radius_below_half — epsF < 1/2 "
    "when d <= 2^-14, bins <= 2048 wide, limits <= 2^18. NOT proved: the bound on the final share in terms of the number of cells "
    "(spreadF_enclosure_full_statement, conjectured slack (4n+4)2^-24/(1-(4n+4)2^-24)); the lifting of the per-bin theorem through "
    "the scatter loop of spreadCoordX/Y to every cell (done over Rat only: ub_every_cell_inside); the clamp of unassigned cells is "
    "modelled and compared but has no binary32 theorem (it is comparison-only, hence exact)",
    "PROPOSED KNOWN FINDING KF-C06-3 (not yet in known_findings.json, therefore counted, not raised): the excursion is not bounded by "
    "1/2 on the whole domain. spreadF_can_exceed_half (kernel-evaluated) and the real code agree: 10 cells of demands 16776988, "
    "1 x6, 2 x3 (targets increasing) in the bin [0, 4000000] put the last cell at 4000002.5 (exported centre 4000003 > hi + 1/2); 301 "
    "cells (16776400, 1 x200, 2 x100) in [0, 1048576] reach 1048600.875. Mechanism: total demand just below a power of two, one cell "
    "holding almost all of it, then cells whose half share is just above half an ulp of dem — every `dem +=` rounds up. The stream "
    "counts such results (spreadf_round_outside_area_by_more_than_half = known_finding_candidate:KF-C06-3; 321 of 3000 spreadCoord "
    "calls at seed 1, all in the drift/witness families). Whether Circuit::placeGlobal can build such a bin (a macro of area ~2^24 "
    "next to cells of area 1-2 in one bin at the area's edge) was not established; the end-to-end oracle would report it as a "
    "violation. Candidate repair: clamp coords[c] (or dem) to [minCoord, maxCoord] in spreadCells",
    "the Rat theorems (spread_inside, spread_coord_inside, ub_centre_inside, ub_every_cell_inside) remain as the exact-arithmetic "
    "reading of the mechanism; the older approx stream still checks |float - rat| <= 2^-18(|lo|+|hi|+1) (bins of <= 29 cells) and "
    "containment of the float result in the closed bin on its own (small-demand) generator, where no excursion occurs",
    "no exposed/returned coordinate is non-finite or overflowed: finiteness of the conjugate-gradient iterates and of the "
    "float->int conversion is NOT proved; monitored by the oracle at every callback and after return on every generated "
    "circuit (sentinel INT_MIN/INT_MAX and |v| <= 2^30)",
    "global placement completes without raising: NOT proved; monitored (exceptions, assertion failures, ASan/UBSan reports "
    "in a forked child per circuit). It does NOT hold on the whole domain: (KF-C06-1) penalty_, penaltyCutoffDistance_ and "
    "approximationDistance_ follow unbounded geometric recurrences, so a run whose stop tests never fire (gapTolerance = "
    "distanceTolerance = 0 is accepted; small circuits whose gap stays above a positive tolerance) leaves single precision "
    "before the default step limit for update factors the check accepts, and placeGlobal raises or exposes huge coordinates; "
    "(KF-C06-2) the solves without penalty are singular for a group of movable cells without fixed pin and the CG solver "
    "occasionally breaks down to NaN on them (one run in ~50,000 here, default parameters included). Failures matching these "
    "two classifiers are reported as known findings, every other failure as a violation",
    "the assignment of every positive-demand cell to exactly one bin whose limits are grid limits, and bins holding only "
    "positive-demand cells (hypotheses of ub_centre_inside / ub_every_cell_inside) is the C16 invariant "
    "(HierarchicalDensityPlacement::check under assertions); here it is exercised, not proved",
    "blendPlacement/exportPlacement are file-local/private: their model is tied to the code only end to end, through the "
    "exposed integer placements (driver op `blend`, bound proved as export_blend_observable) — not by a direct differential "
    "test on floats",
    "control logic of GlobalPlacer::run (initial solves, stop test, penalty-update back-off, inner solves, the three geometric "
    "recurrences, final runUB, the exception of checkFinitePlacement): modelled by GlobalLoop.run as a function of the parameters "
    "and of an oracle trace (per iteration the observed ub, lb, dist, whether each lower-bound solve passed checkFinitePlacement, "
    "and the average cell length). loop_terminates, zero_wirelength_exits_first_step, recurrences_rounded hold for every trace "
    "and every rounding; they do NOT say which traces the float code produces — whether a stop test ever fires is exactly what "
    "KF-C06-1 is about. recurrences_closed_form and drift_box_sound are over exact arithmetic (Rounding.exact); for the float "
    "recurrences the driver replays the IEEE roundings (Rounding.ieee: round-to-nearest-even to 24/53 bits with subnormals, a "
    "hand-written definition that is itself not proved against IEEE-754) and every logged penalty_/penaltyCutoffDistance_/"
    "approximationDistance_/nextPenaltyUpdateDistance/gap must be reproduced bit for bit; the distance between the float values "
    "and the closed forms is checked per logged value against X_k((1+eps)^(k+1)-1), eps = 2^-24+2^-53+2^-77 (derived; not proved "
    "in Lean). This replay needs hook H5 (fixes/hook-h5-global-loop-log.diff): on a tree without it only the callback order, the "
    "returned/threw outcome and the iteration count are tied to the model (op gshape: the decisions are read off the callback "
    "sequence, so the stop reason and the recurrences are NOT checked there), plus the classifier (op gdrift)",
    "the KF-C06-1 classifier is GlobalLoop.driftOutOfBox (exact arithmetic on the parameters, in units of the average cell "
    "length); the harness evaluates the same predicate with exact integers and the two verdicts are compared per case at k = 0, "
    "at the updates of the run, at the step limit and around the first k where it turns true — not at every k",
    "the free rows handed to the grid are Circuit::computeRows (C15): bins_inside_area assumes they lie inside the rows' "
    "bounding box and are well formed; the grid correspondence replays computeRows through the shared Freespace model",
]
ASSUMPTIONS = [
    "float arithmetic of blendPlacement modelled in Rat; spreadCells/spreadCoordX/Y both in Rat (Model/Spread) and bit-exact "
    "binary32 (Model/SpreadF, rounding function F64.f32' = Legalize.f32: hand-written round-to-nearest-even with gradual underflow, "
    "no overflow to infinity, signed zeros not distinguished; itself tied to the FPU only through the exact streams)",
    "std::sort on pair<float,int> modelled by List.mergeSort with the lexicographic order (keys are pairwise distinct, so the "
    "sorted list is unique); NaN targets excluded (finite CG iterates are monitored, not proved)",
    "numerical knobs of the generator (end-to-end stream): CG tolerance in [1e-6,1], initial approximation and cutoff distances "
    "in [0.1,100], penalty initial value in [1e-3,10] (check() only asks > 0), side margin in [0,0.9] (unchecked by check()), "
    "coarsening limit in [1,1000]; every other knob over the whole range accepted by check(): penalty.updateFactor over the open "
    "interval (1,2) (2^-20 from both ends included), both distance update factors over [0.8,1.2] (ends included), gapTolerance and "
    "distanceTolerance including 0 (stop test disabled), maxNbSteps from 1 to the efforts' default 400 (40% of the cases run with "
    "400); no coupling between updateFactor and maxNbSteps",
    "the number of loop steps, the zero-wirelength flag and the step at which a failure happened are read from the UpperBound "
    "callbacks and from the library's progress log; they are used for the measured distribution and for the known-finding "
    "classifiers (KF-C06-1: effective loop variables after k updates, recomputed exactly from the parameters, outside the numeric "
    "box of the statement — distances < 0.1, approximation distance > 1e3, penalty >= 2^128 (no longer a float), penalty/cutoff "
    ">= 2^64 or <= 2^-24 — and wirelength not identically zero; KF-C06-2: error raised by a solve "
    "without penalty on a circuit with a net-connected group of movable cells without fixed pin), never to accept a run",
    "circuits: vc::genCircuit (without its nets) restricted to rows >= 4 row heights wide, 1-10 cells (1-30 for one case in eight; "
    "one in four in the thorough tier); nets drawn by the harness: 7/12 generic (1..2n+1 nets of degree 1-5), 1/12 each: no net, "
    "only degree-1 nets, every pin of a net on one cell, pins on fixed cells only; a quarter of the circuits get 1-2 movable cells "
    "of zero width or zero height (at least one movable cell of positive area remains); coordinates within a few hundred units",
    "C++ int arithmetic modelled as unbounded Int (bin limits, margins)",
]
LEVEL_TEXT = ("Lean 4 theorems over an executable binary32-exact model of spreadCells / spreadCoordX/Y (enclosure of every coordinate "
              "given the final running share, kernel-evaluated witnesses that a float coordinate leaves its bin — by more than 1/2 for "
              "adversarial demands —, absorption of sub-1/2 excursions by the export rounding; exact float-for-float differential stream) "
              "and over an executable Rat model of spreadCells / spreadCoordX/Y / the density grid built from the clipped "
              "rows / blendPlacement / exportPlacement (containment of every positive-demand cell strictly inside its bin, bins inside "
              "the rows' bounding box, returned placement = rounded blend, and the observable three-roundings bound); model tied to "
              "the C++ by a differential stream on spreadCoordX/Y, simpleCoordX/Y and DensityGrid::fromIspdCircuit; the end-to-end "
              "statement (every UpperBound callback, finiteness, no error, returned = blend of the last exposed LB and UB) is checked "
              "by a direct oracle on Circuit::placeGlobal over generated circuits and parameters. The control logic of "
              "GlobalPlacer::run is a second executable model (GlobalLoop.run: parameters + oracle trace of the float quantities -> "
              "callback sequence, exit reason, loop variables) with theorems for every trace (termination within the step limit and "
              "callback bounds, exit at the first iteration without wirelength, the recurrences and their closed forms, soundness of "
              "the KF-C06-1 numeric box, legacy witness on the pre-fix stop test); tied to the code per end-to-end case by the "
              "callback sequence (hook-free) and, with hook H5, by a bit-for-bit replay of the logged per-iteration floats")
LEVEL_NOTE = ("Partial w.r.t. single precision: the spreading step has a binary32 model with a conditional enclosure (share bound not "
              "proved), everything else is over Rat; the loop theorems are conditional on the oracle trace (they "
              "do not bound the float solves). Trusted: Lean kernel, the hand-written model's tie to the code "
              "(differential, bounded by the generator), the float error bound derivation in harness/h_C06.cpp.")
TECHNIQUE = "Lean 4 proof over a Rat model + model/implementation correspondence stream + end-to-end direct oracle"
