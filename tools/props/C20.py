"""C20 — file export and Python layer are faithful to the circuit."""
import os
import sys

sys.path.insert(0, os.path.dirname(os.path.dirname(os.path.abspath(__file__))))
import common as C  # noqa: E402

GEN = ["Bindings"]
VARIANT = "san"
# the C++ harness runs the Python half itself: it needs to know where this framework and the tree are
HARNESS_FLAGS = ('-DC20_VERIF_DIR="%s"' % C.VERIF, '-DC20_REPO_DIR="%s"' % C.REPO)
TIMEOUT = {"quick": 900, "thorough": 3 * 3600, "search": 1800}
RULE = "see stats"
PARTIAL = [
    "tokenisation is not modelled: Ispd.write/Ispd.read work on records (one per logical line); that export.cpp's "
    "iostream output and coloquinte.py's split()/replace(':',' ') produce/consume exactly those records is established by "
    "the two correspondence streams (export records vs Ispd.write; read_ispd result vs Ispd.read, including hand-mutated "
    "files), not proved",
    "the reader runs against a pure-Python stand-in for the compiled module (pybind11 is absent): the stand-in's Circuit "
    "mirrors the C++ setters/addNet/rowHeight by hand; its enums are built from the text of module.cpp and the header",
    "bindings_faithful/bindings_declared are statements about the text of module.cpp and the AST of coloquinte.hpp "
    "(regenerated each run); pybind11's own semantics (def_property, enum_.value) are assumed",
    "Python float()/round() and iostream '<<' of a double are modelled exactly (Rat, ties-to-even, 6 significant digits); "
    "values are assumed to fit C++ int and to be exact in binary64 (|v| < 2^31)",
    ".nodes lines with fewer than three tokens (dummy cells), .pl lines with fewer than four tokens, pin lines without "
    "offsets and .scl blocks with missing keys are outside the record model (export.cpp never writes them)",
    "the property's own wording of the domain ('sizes below 10^5') is sufficient only for pins inside their cell "
    "(theorem pin_inside_small_cell_ok); the theorems use the exact condition |2*offset - size| < 2*10^5 "
    "(precision_bound_needed shows a failure just outside it)",
]
ASSUMPTIONS = [
    "CPython 3 semantics of str.split, int(), float(), round() (ties to even), dict (last key wins), % (floored) as modelled",
    "glibc/libstdc++ formatting of double with precision 6 (%g, exact decimal expansion, ties to even) as modelled by Ispd.fmt6; "
    "exercised by the `big` stream beyond the theorem's domain",
    "pybind11 semantics: .value(name, enumerator), def_readwrite/def_property bind exactly the named member/functions; "
    "std::runtime_error -> RuntimeError, failed argument conversion -> TypeError",
    "harness/pystub/coloquinte_pybind.py mirrors coloquinte::Circuit's constructor defaults, setters, addNet and rowHeight",
]
EXTRA_TRUSTED = [
    "python3 (CPython) running pycoloquinte/coloquinte.py unmodified against harness/pystub/coloquinte_pybind.py",
    "tools/gen/Bindings.py: strict text scan of module.cpp (unknown syntax is an error) + clang-14 AST of coloquinte.hpp",
]
LEVEL_TEXT = ("Lean 4 theorems over a record-level executable model of Circuit::exportIspd (export.cpp) and of "
              "Circuit.read_ispd (coloquinte.py): for every circuit in an explicit decidable domain read(write c) succeeds "
              "and agrees with c on sizes, fixed flags, positions, orientations, connectivity, pin offsets and rows, hence "
              "on HPWL; the binding table of module.cpp is regenerated on every run and the naming rules are decided on it; "
              "both halves of the model are tied to the code by correspondence streams (exported records; re-read circuits, "
              "including mutated and out-of-domain files)")
LEVEL_NOTE = ("Trusted: Lean kernel, the record-level abstraction (tokenisation tied by correspondence only), CPython, the "
              "pure-Python stand-in for the pybind module, the text scanner for module.cpp.")
TECHNIQUE = "Lean 4 proof (round-trip identity by structural induction) + decide over a generated table + two-sided correspondence"
