"""C20 — file export and Python layer are faithful to the circuit."""
import os
import sys

sys.path.insert(0, os.path.dirname(os.path.dirname(os.path.abspath(__file__))))
import common as C  # noqa: E402

GEN = ["Bindings"]
VARIANT = "san"
# the C++ harness runs the Python half itself: it needs to know where this framework and the tree are
HARNESS_FLAGS = ('-DC20_VERIF_DIR="%s"' % C.VERIF, '-DC20_REPO_DIR="%s"' % C.REPO)
TIMEOUT = {"quick": 900, "thorough": 3 * 3600, "search": 1800}
RULE = "see stats"
PARTIAL = [
    "text_refines_records_partial (text-level reader on the exact exported text = record-level reader on the exported "
    "records, same circuit or same Python exception) is proved for every circuit whose pin offsets print with at most "
    "six significant digits (|2*offset - size| < 2*10^5; part of the format's domain); beyond that bound (rounding to six "
    "digits, scientific notation: Ispd.Text.fmtG6 vs float()) text_refines_records_full_statement is supported only by the "
    "`big` stream (whole-file text comparison + re-read circuits), not proved",
    "that Ispd.Text.writeText/auxText are the text export.cpp emits, and that Ispd.Text.readText/readIspd/loadPlacement/"
    "writePlacementText are what coloquinte.py does, is established by correspondence (whole file texts compared line by "
    "line with the C++ output; the package's reader run on exported files, on record-mutated files and on textually "
    "mutated files - comments, blank/padded lines, dropped/extra/junk tokens, glued colons, changed case, duplicated or "
    "missing headers, damaged .aux files, opened by .aux path / bare prefix / directory), not proved from the sources",
    "compressed files (.gz/.xz/.lzma, and the compressed-sibling fallback of _open_file) are outside the model "
    "(Err.compressed); never generated",
    "Python str/float/int details outside the model: Unicode digits, '_' separators in float(), inf/nan literals, "
    "binary64 rounding of float() (values at hand are exact), int() strings above 4300 digits; os.path.normpath is "
    "modelled for trailing slashes only; lines are assumed free of '\\r' (universal-newline translation not modelled); "
    "text encodings",
    "roundtrip_files holds for every prefix (absolute, relative with directories, bare) whose base name has no white "
    "space and whose directory part does not end in a doubled '/' (the model compares paths as strings; os.path.normpath "
    "is not modelled); it covers reading by .aux path and by bare prefix - reading by directory (os.listdir) is covered by "
    "the `rel` and `tmut` correspondence streams and the direct oracle only.  Before the F18 fix a relative prefix with a "
    "directory part did not read back (Legacy witness relative_prefix_with_directory_lost)",
    "load_write_placement assumes pairwise distinct cell names that are single tokens without ':' not starting with '#' "
    "(true for the names export.cpp writes); on a TypeError from a cell without a line the partial update of x/y is not "
    "observable in the model (result is the exception only)",
    "the reader runs against a pure-Python stand-in for the compiled module (pybind11 is absent): the stand-in mirrors "
    "coloquinte::Circuit/Rectangle/Row under their C++ member names by hand (setters' size checks, addNet, rowHeight, "
    "check); every Python-visible enum value, property, attribute, method and constructor of the stand-in is generated at "
    "import time from module.cpp through the same scanner as Gen.Bindings, so a wrong binding changes what the reader "
    "does and shows up as a concrete round-trip failure",
    "bindings_faithful/bindings_declared are statements about the text of module.cpp and the AST of coloquinte.hpp "
    "(regenerated each run); pybind11's own semantics (def_property, enum_.value) are assumed; default values of "
    "py::arg(...) = literal are not in the table",
    "values are assumed to fit C++ int and to be exact in binary64 (|v| < 2^31)",
    "the property's own wording of the domain ('sizes below 10^5') is sufficient only for pins inside their cell "
    "(theorem pin_inside_small_cell_ok); the theorems use the exact condition |2*offset - size| < 2*10^5 "
    "(precision_bound_needed shows a failure just outside it)",
]
ASSUMPTIONS = [
    "CPython 3 semantics of str.strip/split/startswith/replace/lower (ASCII), int(), float(), round() (ties to even), "
    "dict (last key wins), % (floored), os.path.join/dirname/basename (POSIX) as modelled in Model/IspdText.lean",
    "glibc/libstdc++ formatting of int and of double with precision 6 (%g, exact decimal expansion, ties to even, "
    "scientific notation from 10^6) as modelled by Ispd.Text.showInt/fmtG6; compared as text on every exported file, "
    "including the `big` stream beyond the theorem's domain",
    "pybind11 semantics: .value(name, enumerator), def_readwrite/def_property/def bind exactly the named member/functions; "
    "std::runtime_error -> RuntimeError, failed argument conversion -> TypeError",
    "harness/pystub/coloquinte_pybind.py mirrors coloquinte::Circuit's constructor defaults, setters, addNet, rowHeight "
    "and check under their C++ names",
]
EXTRA_TRUSTED = [
    "python3 (CPython) running pycoloquinte/coloquinte.py unmodified against harness/pystub/coloquinte_pybind.py",
    "tools/gen/Bindings.py: strict text scan of module.cpp (unknown syntax is an error) + clang-14 AST of coloquinte.hpp "
    "(also imported by the stand-in module)",
]
LEVEL_TEXT = ("Lean 4 theorems over an executable model of Circuit::exportIspd (export.cpp) and of Circuit.read_ispd / "
              "load_placement / write_placement (coloquinte.py) at two levels: the exact text of the five files (header lines, "
              "separators, `terminal`, `: N`, NetDegree/pin lines, CoreRow blocks, iostream number formatting) with the reader's "
              "line-by-line tokenisation, int()/float() parsing, .aux selection and _open_file on a file system; and records. "
              "Proved: the text level refines the record level on every circuit whose offsets print in six digits; for every "
              "circuit in an explicit decidable domain reading back the exported text/files succeeds and agrees with the circuit "
              "on sizes, fixed flags, positions, orientations, connectivity, pin offsets and rows, hence on HPWL; "
              "load_placement(write_placement(c)) restores all positions and orientations; the binding table of module.cpp is "
              "regenerated on every run and the naming rules are decided on it.  Both levels are tied to the code by "
              "correspondence streams (whole file texts; re-read circuits on exported, record-mutated and text-mutated files).")
LEVEL_NOTE = ("Trusted: Lean kernel, the correspondence between model and code (text compared on explored inputs), CPython, "
              "the C++-named mirror inside the stand-in for the pybind module, the text scanner for module.cpp.")
TECHNIQUE = "Lean 4 proof (text-to-record refinement and round-trip identity by structural induction) + decide over a generated table + two-sided correspondence on whole file texts"
