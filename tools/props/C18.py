"""C18 — cell expansion respects density caps and never touches fixed cells."""
VARIANT = "san"
RULE = "see stats"
TIMEOUT = {"quick": 1200, "thorough": 3 * 3600, "search": 1800}
PARTIAL = [
    "floating-point rounding is not modelled: the model (Model/Expand.lean) and all C18 theorems compute with exact "
    "rationals, i.e. they describe the code on inputs where no double/float operation rounds; the clause 'beyond "
    "rounding' is supported for arbitrary inputs only by the direct oracle (relative tolerance 1e-9 for the double "
    "path, 1e-6 for the float path of expandCellsByFactor), not by proof",
    "widths >= 2^24 (inexact float product in `cellWidth_[i] *= expansion[i]`) and int overflow are outside the "
    "generated domain; C++ int/long long are modelled as unbounded Int",
    "carry_bound / expand_not_narrower / byFactor_under_cap assume non-negative cell sizes (the property's domain); "
    "the frame theorems hold for all inputs",
    "the std::sort of the expansion map in computeCellExpansion is not modelled (only a maximum over the map is taken)",
]
ASSUMPTIONS = [
    "double/float arithmetic modelled by exact rational arithmetic; (int)/(long long) conversions and the compound "
    "assignments `w -= <double>`, `cellWidth_[i] *= <float>` modelled as truncation toward zero",
    "Circuit::computeRows as modelled and verified under C15",
    "the model of expandCellsByFactor is the function after fixes/expand-by-factor-area.diff; the unrepaired "
    "function is kept as LegacyExpand.expandCellsByFactor with a witness that it exceeds the cap",
]
LEVEL_TEXT = ("Lean 4 theorems over an exact-rational executable model of expandCellsToDensity, expandCellsByFactor, "
              "computeCellExpansion and computeRowPlacementArea (frame, not narrower under the cap, carried rounding "
              "error below one cell height hence area <= target*rowArea and > target*rowArea - maxHeight when no cap is "
              "hit, area <= max(maxDensity*rowArea, area before) for expansion by factors, no-op when dense, expansion "
              "factor = maximum over intersected congested regions); the model is tied to the C++ by an exact "
              "differential stream on dyadic instances where a replica of the floating-point operation sequence proves "
              "that nothing rounds; on arbitrary instances the property's clauses are evaluated directly on the real code")
LEVEL_NOTE = ("Trusted: Lean kernel (axioms propext/Classical.choice/Quot.sound only), the hand-written model's tie to the "
              "code (differential, bounded by the generator), exact rationals for double/float (rounding not modelled), "
              "unbounded Int for C++ int.")
TECHNIQUE = "Lean 4 proof over Rat (induction over the cell list with the carried area as invariant) + exact model/implementation correspondence on dyadic instances + invariant oracle"
