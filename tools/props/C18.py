"""C18 — cell expansion respects density caps and never touches fixed cells."""
VARIANT = "san"
RULE = ("see stats; includes an object-history stream (counters hist_*): public mutators and computeRowPlacementArea / "
        "expandCellsToDensity / expandCellsByFactor / computeCellExpansion interleaved on ONE Circuit object (the expansions "
        "accumulate), every observation compared with the oracle, with the same call on a freshly rebuilt circuit and, when "
        "nothing rounds, with the model")
TIMEOUT = {"quick": 1200, "thorough": 3 * 3600, "search": 1800}
PARTIAL = [
    "floating-point rounding is not modelled: the model (Model/Expand.lean) and all C18 theorems compute with exact "
    "rationals, i.e. they describe the code on inputs where no double/float operation rounds; the clause 'beyond "
    "rounding' is supported for arbitrary inputs only by the direct oracle (relative tolerance 1e-9 for the double "
    "path, 1e-6 for the float path of expandCellsByFactor), not by proof",
    "widths >= 2^24 (inexact float product in `cellWidth_[i] *= expansion[i]`) and int overflow are outside the "
    "generated domain; C++ int/long long are modelled as unbounded Int",
    "carry_bound / expand_not_narrower / byFactor_under_cap assume non-negative cell sizes (the property's domain); "
    "the frame theorems hold for all inputs",
    "the std::sort of the expansion map in computeCellExpansion is not modelled (only a maximum over the map is taken)",
    "that the expansion calls depend on the public state only (no stale row area or free rows kept inside the object between "
    "calls) is checked by the object-history stream (random sequences of every public mutator and 3-8 observed calls on one "
    "object, result for result against a freshly rebuilt circuit), not proved",
]
ASSUMPTIONS = [
    "double/float arithmetic modelled by exact rational arithmetic; (int)/(long long) conversions and the compound "
    "assignments `w -= <double>`, `cellWidth_[i] *= <float>` modelled as truncation toward zero",
    "Circuit::computeRows as modelled and verified under C15",
    "the model of expandCellsByFactor is the function after fixes/expand-by-factor-area.diff; the unrepaired "
    "function is kept as LegacyExpand.expandCellsByFactor with a witness that it exceeds the cap",
]
LEVEL_TEXT = ("Lean 4 theorems over an exact-rational executable model of expandCellsToDensity, expandCellsByFactor, "
              "computeCellExpansion and computeRowPlacementArea (frame, not narrower under the cap, carried rounding "
              "error below one cell height hence area <= target*rowArea and > target*rowArea - maxHeight when no cap is "
              "hit, area <= max(maxDensity*rowArea, area before) for expansion by factors, no-op when dense, expansion "
              "factor = maximum over intersected congested regions); the model is tied to the C++ by an exact "
              "differential stream on dyadic instances where a replica of the floating-point operation sequence proves "
              "that nothing rounds; on arbitrary instances the property's clauses are evaluated directly on the real code; an "
              "object-history stream interleaves every public mutator (setRows, setupRows with all flag combinations, the "
              "per-cell setters, setSolution, addNet) with the four observed calls on one Circuit object (same call twice, call "
              "-> one mutator -> same call, the same side margin within a history) and checks each call against the oracle on "
              "a snapshot of the public state, result for result against the same call on a freshly constructed circuit "
              "rebuilt through the public setters, and against the model")
LEVEL_NOTE = ("Trusted: Lean kernel (axioms propext/Classical.choice/Quot.sound only), the hand-written model's tie to the "
              "code (differential, bounded by the generator), exact rationals for double/float (rounding not modelled), "
              "unbounded Int for C++ int.")
TECHNIQUE = "Lean 4 proof over Rat (induction over the cell list with the carried area as invariant) + exact model/implementation correspondence on dyadic instances + invariant oracle + object-history stream (metamorphic comparison with a freshly rebuilt circuit)"
