"""C18 — cell expansion respects density caps and never touches fixed cells."""
VARIANT = "san"
RULE = ("see stats; includes an object-history stream (counters hist_*): public mutators and computeRowPlacementArea / "
        "expandCellsToDensity / expandCellsByFactor / computeCellExpansion interleaved on ONE Circuit object (the expansions "
        "accumulate), every observation compared with the oracle, with the same call on a freshly rebuilt circuit and, when "
        "nothing rounds, with the rational model; counters F_*: calls compared exactly with the binary64/binary32-exact model "
        "(F_*_inexact: at least one floating-point operation of the call rounds), stream r: full-mantissa arguments")
TIMEOUT = {"quick": 1200, "thorough": 3 * 3600, "search": 1800}
PARTIAL = [
    "floating-point rounding IS modelled (Model/ExpandF.lean: every double operation f64, every float operation f32', "
    "compared exactly with the code on arbitrary arguments) and these clauses are proved for the rounded model, all inputs: "
    "frame (expandF_frame, byFactorF_frame), no-op when dense, never narrower (expandF_not_narrower; byFactorF_not_narrower for "
    "factors >= 1, any width; byFactorF_width_lower_bound for every accepted factor >= 0.999f), utilisation of "
    "expandCellsToDensity <= target*rowArea*(1+2^-50) + touchedCells*2^-51*maxHeight (expandF_utilisation), the maximum "
    "rule of computeCellExpansion over the float-rounded region factors, independent of the order left by std::sort "
    "(cellExpansionF_max, cellExpansionF_order_independent, regionFactorF_ge_one_and_monotone)",
    "utilisation cap of expandCellsByFactor with rounding: PROVED for the branch without ratio adjustment "
    "(byFactorF_cap_unadjusted: area after * (1-2^-53)^(4n+1) <= (1+2^-24)^2 * (1+2^-53) * maxDensity * rowArea, any widths, "
    "accepted factors, rowArea <= 2^63), from the accumulation-error theorem byFactorF_expandedArea_error (exact sum * "
    "(1-2^-53)^(4n) <= accumulated double, which is 0 or >= 1/4) and the float-path theorems "
    "(byFactorF_utilisation_partial: (1+2^-24) for widths <= 2^24; byFactorF_utilisation_partial_any_width: (1+2^-24)^2; every "
    "applied factor >= 0.999f, >= 1 when the given one is); the branch in which the factors are scaled by `ratio` is proved UP TO THE COMPUTED RATIO "
    "(byFactorF_cap_adjusted_partial, float factors 1 <= e <= 2^53: area after <= (1+2^-24)^3*(1+2^-53)^2 * (A + rho*(S - A)) "
    "with rho the double ratio the code computes, 0 <= rho <= 1, S the exact sum(e_i*area_i); lemmas adjust_le, "
    "expandedArea_adjust_le); NOT proved: that the computed rho satisfies rho*(S - A) <= maxDensity*rowArea - A up to rounding "
    "(needs the upper side of the accumulation error and two-sided bounds of density and of the two differences) "
    "(byFactorF_utilisation_full_statement stays a def: <= max(maxDensity*rowArea, area before)*(1+2^-22) + "
    "n*2^-50*sum(e_i*area_i)); that branch is proved only in exact arithmetic (byFactor_under_cap) and supported with rounding "
    "by the exact correspondence and the oracle (1e-6)",
    "NOT proved with rounding: the 'within one cell height of target*rowArea' clause (carry_bound (2), exact arithmetic only)",
    "never narrower for expandCellsByFactor is proved for ALL widths (byFactorF_not_narrower, no 2^24 bound) for the code after "
    "fixes/c18-byfactor-wide-cells.diff; before it a width above 2^24 could shrink (int -> float conversion): "
    "legacy_byFactorF_wide_witness (width 2^24+1, factor 1.0f -> 2^24; Model/LegacyExpandF.lean), replayed first on the real "
    "code as case w3 (corpus/C18/byfactor-wide-width.txt); widths up to 2^28 are now in the by-factor generators and the "
    "never-narrower oracle is unconditional; the rational model is unchanged because the repair is a no-op in exact arithmetic "
    "for w >= 0 (byFactor_repair_noop_exact; calls with a negative movable width are not sent to the rational model)",
    "factors in [0.999f, 1) are accepted by the code (threshold `e < 0.999f`) and shrink cells (byFactorF_below_one_witness, "
    "case w2: 1000 -> 999); they are outside the property's quantifier (factor vectors >= 1)",
    "the rounded model is the compiled code on the decidable guards densityGuard / byFactorGuard / cellExpansionGuard / "
    "rowGuard (finite values, conversions to int / long long in range, nonzero rounded density, carry loop within fuel); "
    "the driver answers out-of-domain elsewhere and the harness sends only calls inside a replica of the guards; "
    "C++ int/long long arithmetic itself is modelled by unbounded Int",
    "carry_bound / expand_not_narrower / byFactor_under_cap / expandF_utilisation assume non-negative cell sizes (the "
    "property's domain); the frame theorems hold for all inputs",
    "that the expansion calls depend on the public state only (no stale row area or free rows kept inside the object between "
    "calls) is checked by the object-history stream (random sequences of every public mutator and 3-8 observed calls on one "
    "object, result for result against a freshly rebuilt circuit), not proved",
]
ASSUMPTIONS = [
    "Model/ExpandF.lean: IEEE-754 binary64/binary32 round-to-nearest-even (Model/F64.lean) for every double/float operation, "
    "x86-64 SSE2 evaluation (FLT_EVAL_METHOD 0, no fused multiply-add), conversions truncate toward zero; unbounded exponent "
    "range above (finiteness is a guard)",
    "Model/Expand.lean: double/float arithmetic modelled by exact rational arithmetic (compared with the code only where "
    "nothing rounds)",
    "Circuit::computeRows as modelled and verified under C15",
    "the model of expandCellsByFactor is the function after fixes/expand-by-factor-area.diff and "
    "fixes/c18-byfactor-wide-cells.diff; the unrepaired functions are kept as LegacyExpand.expandCellsByFactor (exceeds the "
    "cap) and LegacyExpandF.expandCellsByFactor (narrows a cell wider than 2^24), each with its witness theorem",
]
LEVEL_TEXT = ("Lean 4 theorems over two executable models of expandCellsToDensity, expandCellsByFactor, computeCellExpansion and "
              "computeRowPlacementArea: an exact-rational one (frame, not narrower under the cap, carried rounding "
              "error below one cell height hence area <= target*rowArea and > target*rowArea - maxHeight when no cap is "
              "hit, area <= max(maxDensity*rowArea, area before) for expansion by factors, no-op when dense, expansion "
              "factor = maximum over intersected congested regions) and a binary64/binary32-exact one (every double/float "
              "operation with IEEE rounding: frame, never narrower with its exact limits, utilisation of expandCellsToDensity "
              "with a proved slack 2^-50 relative + 2^-51*height per cell, float path of expandCellsByFactor, maximum rule "
              "over float-rounded region factors independent of the sort order); the rational model is tied to the C++ by an "
              "exact differential stream on dyadic instances where a replica of the floating-point operation sequence proves "
              "that nothing rounds, the rounded model by an exact differential stream on ARBITRARY arguments (full-mantissa "
              "targets, margins, caps, factors, penalties, congestion values; widths up to 2^28; all widths, the "
              "returned ratio and every expansion factor compared bit for bit); on every instance the property's clauses are "
              "evaluated directly on the real code (congestion maps include the same rectangle listed 2-4 times with different "
              "values, the largest first / last / in the middle, and the same map listed in another order); an "
              "object-history stream interleaves every public mutator (setRows, setupRows with all flag combinations, the "
              "per-cell setters, setSolution, addNet) with the four observed calls on one Circuit object (same call twice, call "
              "-> one mutator -> same call, the same side margin within a history) and checks each call against the oracle on "
              "a snapshot of the public state, result for result against the same call on a freshly constructed circuit "
              "rebuilt through the public setters, and against the models")
LEVEL_NOTE = ("Trusted: Lean kernel (axioms propext/Classical.choice/Quot.sound only), the hand-written models' tie to the "
              "code (differential, bounded by the generator), the IEEE rounding model Model/F64.lean and the evaluation-method "
              "assumption (SSE2, no contraction), unbounded Int for C++ int.")
TECHNIQUE = "Lean 4 proof over Rat and over an IEEE-rounding model (induction over the cell list with the carried area as invariant; monotonicity, exactness and relative-error lemmas of round-to-nearest-even) + exact model/implementation correspondence on dyadic instances (rational model) and on arbitrary instances (rounded model) + invariant oracle + object-history stream (metamorphic comparison with a freshly rebuilt circuit)"
