"""C07 — placement calls return or throw; never crash or invoke undefined behaviour.

The property quantifies over builds with assertions enabled AND disabled, so the generic
flow of tools/check.py (one harness variant) is replaced by `custom_main`: same steps, same
contract, but the harness is built and run twice (ASan+UBSan+float-cast-overflow, with
-UNDEBUG and with -DNDEBUG) and both runs feed the correspondence and the oracle.  In the thorough tier a
third build (-D_GLIBCXX_ASSERTIONS -D_GLIBCXX_DEBUG) re-runs the flow stages for the oracle only.
"""
import json
import os
import shutil
import subprocess
import sys
import time
from concurrent.futures import ThreadPoolExecutor

import common as C

PROP = "C07"
RULE = "see stats"
# (name of the variant, flags): the README's default build keeps assertions; the pinned release build defines NDEBUG.
# float-cast-overflow is not part of -fsanitize=undefined in g++: without it float->int conversions are not monitored.
BUILD_VARIANTS = {
    "c07_asserts": C.VARIANTS["san"] + ["-fsanitize=float-cast-overflow"],
    "c07_ndebug": C.VARIANTS["san_ndebug"] + ["-fsanitize=float-cast-overflow"],
}
# Thorough tier only: a third build with the libstdc++ assertions (`operator[]`, `front()`, `pop()` on an empty container,
# iterator validity with _GLIBCXX_DEBUG) for the flow stages: an out-of-range `v[i]` that stays inside the allocation's slack
# (capacity > size) is invisible to ASan.  The flags live here (a local extension of C.VARIANTS, same content-addressed cache).
GLIBCXX_VARIANT = {
    "c07_glibcxx": C.VARIANTS["san"] + ["-fsanitize=float-cast-overflow", "-D_GLIBCXX_ASSERTIONS", "-D_GLIBCXX_DEBUG"],
}
GLIBCXX_STAGES = "CFDK"  # corpus + the three flow generators (the quick plan's counts), no correspondence streams
# Proofs/IncrNetTopology (used by the IncrNetModel no-fault theorems) imports the generated orientation tables
GEN = ["OrientTables"]
PARTIAL = [
    "proved (Lean, every input of the stated domain, both assert-enabled and NDEBUG): no signed overflow, no failed "
    "assertion, no division by zero, no out-of-range index and termination for the *modelled integer cores*: RowLegalizer "
    "getCost/push/getPlacement (rowleg_no_fault, rowleg_session_no_fault, rowleg_terminates), computeSubdivisions "
    "(subdivisions_no_fault), the Abacus cost arithmetic of evaluatePlacement/placeCell (abacus_no_fault), the obstacle "
    "rectangles fed to Row::freespace (freespace_no_fault), TetrisLegalizer::run with LegalizerBase::closestRow "
    "(tetris_no_fault, tetris_place_no_fault: targets up to 2^29 as placeGlobal may hand over), Circuit::pinX/YOffset "
    "(pin_offset_no_fault), IncrNetModel x/yTopology + build + any updateCellPos sequence (incrnet_no_fault, "
    "incrnet_update_no_fault), DetailedPlacement canInsert/canSwap/positionOnInsert/positionsOnSwap/insert/swap along any "
    "accepted history (detplace_no_fault, detplace_history_no_fault); the integer bookkeeping of the density grid "
    "(Model/GridChecked.lean): the constructor DensityGrid(binSize, regions) as a whole - width()/maxSize, both "
    "computeSubdivisions calls, the int sums of updateBinCenters, updateBinCapacity() and updateBinCapacity(regions) "
    "(intersection areas accumulated in long long), the asserts of binLimitX/Y, updateBinCapacity and check(), every index - "
    "for at most 2^16 well-formed regions within 2^22 and binSize >= 1 (grid_capacity_no_fault), totalCapacity() on any "
    "grid of consistent shape with non-negative capacities whose total fits (grid_total_capacity_no_fault), the long long -> "
    "int narrowing of the cell areas in fromIspdCircuit / updateCellDemand, totalDemand() and binUsage(x, y) for at most 2^20 "
    "cells with demands in [0, 2^31) (grid_usage_no_fault), and refineX / refineY / coarsenX / coarsenY - assertion, level "
    "arithmetic, every index of the loop and of updateCellToBin() - in every state satisfying C16's invariant Grid.Inv "
    "(grid_refine_no_fault, grid_session_no_fault, grid_usage_sum_no_fault, grid_group_capacity_no_fault, grid_total_capacity_of_constructed_grid; C16 alloc_inv proves Inv for every state reachable from the constructor); the transportation of "
    "DensityLegalizer::reoptimize as "
    "a whole - costsFromIntegers' fixed-point scaling (binary64 model, every result in [0, 2^29] so the double->int "
    "conversion is defined), increaseCapacity, the complete successive-shortest-path run (int cost differences and label "
    "sums with the INT_MAX sentinel, long long demands/capacities/allocations, every std::accumulate partial sum), "
    "toAssignment (transp_costs_fit, transp_run_no_fault, transp_tree_sums_fit: checked = unbounded Transp.solve, and "
    "the problem handed to solve() satisfies C13's WellFormed/costBoundOk, closing the loop with ssp_optimal); "
    "Transportation1d balanceDemand + assign as improveX/YTransport call it - index safety, termination "
    "(transp1d_no_fault) and every long long position/slope/prefix-sum operation (transp1d_arith_no_fault on the decidable "
    "domain T1dDom: |u|,|v| <= 2^60-1, totals <= 2^61-1, any number of sources; transp1d_scaled_no_fault: the instances "
    "built by the 1e8/width scaling from targets within 2^29 lie in it, |u|,|v| <= 2^56).  The checked value always equals "
    "the unbounded model's value.  Each core is tied to the C++ two-sidedly: in-domain 2^22 streams (same values, never a "
    "fault) and beyond-domain streams up to 2^31 (2^62 for the long long quantities) where the checked model must predict "
    "exactly which cases UBSan/assert kill (row legalizer, subdivisions, Tetris, IncrNetModel, DetailedPlacement, general "
    "transportation G/H, scaled 1-D transportation V/W, density grid B/Z: coordinates up to 2^31, piles of (2^31-1)^2 "
    "regions, binSize <= 0, ill-formed regions, refine/coarsen outside their contract in the assertion-enabled build; "
    "stage U keeps the unit-supply full-line shapes)",
    "density grid, what is NOT proved: (a) the float parts are left out - DensityGrid::fromIspdCircuit's "
    "`sideMargin * minCellHeight` / `sizeFactor * minCellHeight` (float products converted to int; C16 models their values, "
    "the conversions are sanitizer-monitored), the `0.5f *` half of updateBinCenters, binX/binY, groupCenterX/Y, "
    "simpleCoord/spreadCoord; (b) closed: grid_total_capacity_of_constructed_grid proves, on the domain of grid_capacity_no_fault, that the "
    "constructed grid has non-negative capacities and a total <= 2^62 and that totalCapacity() runs on it without fault, no "
    "extra hypothesis; (c) closed: grid_group_capacity_no_fault (binCapacity(BinGroup) for every group inside a grid of "
    "consistent shape, non-negative capacities, total <= 2^63-1 - in particular the constructed grid); (d) the refine/coarsen "
    "twins check assertion, level arithmetic and every index of the loops and return the unbounded model's state (the "
    "vectors the loops fill are the model's by construction); check()'s allocation assertions are exactly C16's AllocInv "
    "(proved there) and are not restated; its usage accumulation and `usage == totalDemand()` assertion are proved "
    "(grid_usage_sum_no_fault, under Grid.Inv + DemandOk; the bound of 2^20 cells per bin is derived from AllocInv there), "
    "its capacity accumulation (`capacity == totalCapacity()`) has no twin of its own (it sums the groupCapacityC values "
    "of (c); the equality is C16's level_total); grid_session_no_fault chains the four calls over any HState.run session "
    "made within the calls' contracts (the redistribution skeleton steps carry no modelled arithmetic); (e) "
    "grid_usage_no_fault (single bin, no invariant assumed) still takes the 2^20 bound as a hypothesis; (f) negative demands are outside the domain: the constructor's "
    "check() trips `placeX[c] != -1 || cellDemand_[c] == 0` on them in the assertion-enabled build (observed while building "
    "stream Z; not generated); (g) a narrowing that loses the value (area >= 2^31) is a model fault "
    "(grid_demand_narrowing_beyond_domain) but not a sanitizer event, so stream Z cannot contain it; stream B compares the "
    "narrowed values of updateCellDemand(circuit) in-domain",
    "transp_costs_fit is FULL for the integer run and for costsFromIntegers; what remains conditional on the float side: "
    "(a) that no float intermediate of DensityLegalizer::distance overflows to inf is proved for all six cost models "
    "(transp_float_costs_finite: bins/targets within 2^30, penalty factor in [0,1] resp. 0 for the squared models), but "
    "the rational model of sqrtf (L2) is only proved bounded (f32sqrt q <= 8B for q <= B^2); that it is correctly rounded "
    "is validated by execution (10^4 cases against libm + stream G), so for L2 the *values* of the theorem are those of the "
    "model, tied to the C++ by the stream; (b) the float model itself (IEEE-754 "
    "round-to-nearest-even on exact rationals for every float/double operation, std::round, sqrtf; x86-64 baseline: no FMA "
    "contraction, FLT_EVAL_METHOD 0) is hand-written and tied to the C++ by stream G, which compares single distances bit "
    "for bit (read from the real DensityLegalizer::allDistances), every fixed-point cost and the assignment; (c) the "
    "quantity domain is total demand and total capacity <= 2^61 and at most 2^31 bins (the C07 domain - cell areas < 2^31, "
    "placement area < 2^46 - stays below unless a circuit has more than 2^30 cells); (d) the glue of reoptimize around the "
    "transportation (collecting the cells, setBinCells) and rebisect/findConstrainedSplitPos are sanitizer-monitored only",
    "signed stored costs are outside the C07 domain of the solver: C13's costBoundOk (3|cost| < INT_MAX) admits them, but "
    "for |cost| > INT_MAX/4 updateTree's `movingCost(i, bestVisit) + sendingCost_[bestVisit]` overflows int "
    "(transp_signed_costs_overflow; stream H family 2 predicts the UBSan kills, transportation.cpp:502; smallest instance: "
    "capacities [1,1,1], demands [1,1], costs [[-c,-c],[-c,c],[c,c]], c = 715827882).  Only reachable through the public "
    "int-cost constructor of TransportationProblem, never from a placement entry point (costsFromIntegers yields [0, 2^29])",
    "NOT proved, monitored by the sanitized harness only (two builds, ASan+UBSan+float-cast-overflow, forked child per "
    "case with timeout): every other part of placeGlobal/legalize/placeDetailed - Eigen (conjugate gradients), "
    "boost::polygon (Row::freespace), lemon (network simplex), iostream, the remaining float->int conversions "
    "(DensityLegalizer spreading/export, exportPlacement, computeCellOrder keys; the float->long long conversions of "
    "improveX/YTransport are in range by the scaling model of transp1d_scaled_no_fault, which has no stream of its own), "
    "the density legalizer outside the two transportation solvers and the grid bookkeeping above (bisection, "
    "findConstrainedSplitPos, the float bin/group centres), the search "
    "loops of place_detailed.cpp (swap / shift / reordering candidates, RowReordering) around the modelled "
    "DetailedPlacement primitives, the DetailedPlacement constructor as a whole (only its two arithmetic leaves "
    "locate/linkRow have checked twins), AbacusLegalizer beyond its cost arithmetic, Legalizer::run glue, and the glue "
    "between the modelled cores",
    "tetris_no_fault assumes rows of positive height: with rowHeight() <= 0 getPossibleIntervals/instanciateCell recurse "
    "without bound in the C++ (Circuit::check rejects such rows; the model's fuel would hide it)",
    "out-of-bounds accesses are observable through ASan redzones in the two standard builds; std::vector::operator[] inside "
    "an allocation's slack is only detected in the third build of the thorough tier (-D_GLIBCXX_ASSERTIONS "
    "-D_GLIBCXX_DEBUG + ASan/UBSan, corpus and both flow generators at the quick plan's counts); the quick tier does not "
    "run it",
    "termination outside the modelled cores is observed as 'no case exceeds the timeout (re-run once with 8x the budget "
    "before being reported)', bounded in the code by maxNbSteps, nbPasses, CG maxIterations; not proved.  Known finding "
    "KF-C07-1: TransportationSuccessiveShortestPath (general rough-legalization transport) moves one demand unit per "
    "augmentation on some instances, so placeGlobal's running time grows with the cell areas (12 min for 9 cells at 2^22 "
    "without sanitizers); it terminates (C13 ssp_terminates; the checked run of transp_costs_fit inherits its fuel "
    "argument); classified by the child's stack when the budget expires",
    "rowleg theorems assume at most 2^15 cells per row segment (coarse bound on the 64-bit cost accumulator: 2^16 queue "
    "entries x 2^46 per term); longer rows are exercised by the 2^22 stream only; incrnet theorems assume fewer than 2^31 "
    "nets (int net indices)",
    "flow generator: classic kinds (small / scaled to 2^22 / wide rows) plus dense kinds (unit-grid circuits with row height "
    "1-2 and cells of area 1-4 at densities up to exactly 100 % and above, standard-cell grids of 2-40 rows with up to 250 "
    "(thorough: 400) cells so that the density grid has several bins in both directions, tiny circuits at the origin and "
    "against the +-2^22 limits); every rough-legalization variant (1-D transport on/off, six cost models, line/diag/square "
    "reoptimization sizes 1..64/1..64/1..8, nbSteps 0..3, binSize 1..25) is drawn and counted in the distribution; circuits "
    "with more than ~400 cells, more than 40 rows or nets above 40 pins are not generated",
    "callbacks that modify the circuit (flow stage K, cases k<n>: 1000 quick / 12000 thorough per build; sanitizer-monitored "
    "only, nothing proved): the callback follows an explicit script (part of the replay) of 1-5 triggers - the occ-th "
    "callback of a step kind LowerBound / UpperBound / PenaltyUpdate / Detailed or of any kind, occ 0..3 mostly, up to 40 - "
    "each performing 1-4 of the modifications the API accepts while a placement call runs: Circuit::setCellWidth / "
    "setCellHeight on one cell (inflate 25 % / x2 / +1, deflate, to zero, from zero, one more row; movable cells, fixed "
    "cells, and movable cells of ZERO area which half of these circuits contain next to their movable cells of positive "
    "area), setNetWeights on one net (0, 0.001, 0.25 .. 16), and the const queries hpwl / computeRows / report / toString.  "
    "Entry sequences G, GD, GLD, LD, D, L, DG on classic and dense circuits of at most 150 cells; what the script contains "
    "and how many actions fired is measured (cbmod_* keys; about two thirds of the cases fire at least one action, one "
    "fifth contains a zero-to-positive resize of a movable cell).  Kept inside the domain: one movable cell of positive "
    "area is never resized (a circuit whose only movable cell lost its area is outside the quantifier; on such a circuit "
    "DensityGrid::fromIspdCircuit overflows `2 * margin` with minCellHeight = INT_MAX), sizes <= 2^22, areas < 2^31, heights "
    "not below a quarter of the row height.  NOT exercised: callbacks that call the mutators refused by the busy flag "
    "(setRows, addNet, setCellIsFixed ...: they throw inside the callback), setCellX/Y/Orientation/setSolution from a "
    "callback, nested placement calls from a callback (C03's subject), negative or non-finite net weights",
    "parameter box: the purely numerical knobs are kept at CG tolerance >= 1e-6, approximation/cutoff distance >= 0.1; "
    "penalty.updateFactor up to 2 with maxNbSteps = 400 is inside the box and is what overflows the float penalty "
    "(fix ff24028 turns the resulting NaN into an exception; fixes/c07-global-out-of-range-placement.diff does the same "
    "for finite divergence of the float solver on tiny designs far from the origin)",
]
ASSUMPTIONS = [
    "C++ int is 32-bit two's complement, long long 64-bit (g++ 12, x86-64)",
    "the checked models carry the C++ static type of every sub-expression by hand; they are tied to the code by a "
    "two-sided differential: in-domain streams (never a fault, same values) and beyond-domain streams where the model "
    "must predict exactly which cases UBSan/assert kill",
    "std::priority_queue modelled as a sorted list (as C12); in the general transportation exactly as libstdc++ 12 "
    "implements it (C13's model)",
    "float / double arithmetic: IEEE-754 binary32 / binary64 round-to-nearest-even, evaluated in the declared type "
    "(x86-64 SSE, FLT_EVAL_METHOD 0, no FMA contraction), std::round half away from zero, sqrtf correctly rounded; a "
    "non-finite float cost is reported at the operation that overflows (it always dies in costsFromIntegers' double->int "
    "conversion: inf makes the factor 0 and inf*0 = NaN; NaN stays NaN)",
    "the checked twins of loop-free stretches compute the unbounded step and then check its typed intermediates: ok/fault "
    "status and values are those of an operation-by-operation evaluation, the fault named need not be the first in "
    "program order",
    "the DetailedPlacement streams build the state with the unbounded model of the constructor (the harness only hands over "
    "legal placements, whose constructor sums `x + width <= row.maxX` cannot overflow) and run the checked queries/moves on it",
    "TetrisLegalizer targets up to 2^29: the bound fixes/c07-global-out-of-range-placement.diff (2^28 before blending with "
    "exportBlending in [-0.5, 1.5]) guarantees for what placeGlobal exports",
]
LEVEL_TEXT = ("Lean 4 no-fault theorems over checked (typed-arithmetic) models of the integer cores (row legalizer, Abacus cost, "
              "Tetris legalizer, computeSubdivisions, freespace rectangles, pin offsets, IncrNetModel, DetailedPlacement "
              "primitives, the density grid's constructor / capacities / demands / usage / refine-coarsen index arithmetic; the whole transportation of the rough legalizer: float cost scaling to fixed point, increaseCapacity, "
              "the successive-shortest-path run, and the 1-D transportation with its 1e8/width scaling), each tied to the C++ by "
              "correspondence streams at 2^22 magnitude and by beyond-domain streams where the model predicts the sanitizer kills; "
              "everything else in the three entry points (the other floating point code, Eigen/boost/lemon, the density "
              "legalizer's bisection and float centres, search loops, glue) is monitored by an end-to-end fault oracle (forked child per case, "
              "ASan+UBSan+float-cast-overflow, assertion-enabled and NDEBUG builds; thorough tier: a third build with the "
              "libstdc++ container assertions) over classic, 2^22-scaled, unit-grid, dense-grid and tiny circuits, with observing "
              "callbacks and with scripted callbacks that resize cells (to and from zero area), reweight nets and query the "
              "circuit while the call is running")
LEVEL_NOTE = ("Trusted: Lean kernel (propext/Classical.choice/Quot.sound), hand-written checked models (differential tie), "
              "the sanitizers as the observer of undefined behaviour outside the modelled cores.")
TECHNIQUE = ("Lean 4 proof (checked arithmetic = unbounded model on the domain, domain invariants preserved) + two-sided "
             "differential streams + sanitizer fault oracle on two builds")


def _run_variant(exe, variant, tier, seed, outdir, replay, stages=None, jobs=None):
    shutil.rmtree(outdir, ignore_errors=True)
    os.makedirs(outdir)
    args = [exe, "--seed", str(seed), "--tier", tier, "--out", outdir, "--corpus", os.path.join(C.VERIF, "corpus", PROP)]
    if replay:
        args += ["--replay", os.path.abspath(replay)]
    tmo = {"quick": 1800, "search": 3600}.get(tier, 6 * 3600)
    env = dict(C.SAN_ENV)
    env.setdefault("VERIF_JOBS", os.environ.get("VERIF_JOBS", str(max(2, (C.NCPU - 2) // 2))))
    if stages:
        env["C07_STAGES"] = stages
    if jobs:
        env["VERIF_JOBS"] = str(jobs)
    rc, out = C.sh(args, env=env, timeout=tmo)
    return rc, out


def _read_lines(p):
    if not os.path.exists(p):
        return []
    with open(p, errors="replace") as f:
        return f.read().splitlines()


def _oracle(outdir):
    fails = []
    for ln in _read_lines(os.path.join(outdir, "oracle.txt")):
        ln = ln.strip()
        if not ln:
            continue
        try:
            fails.append(json.loads(ln))
        except Exception:
            fails.append({"case": "?", "what": ln})
    return fails


def custom_main(a, seed):
    tier = a.tier
    t0 = time.time()
    for k, v in list(BUILD_VARIANTS.items()) + list(GLIBCXX_VARIANT.items()):
        C.VARIANTS[k] = v
    problems, notes = [], []
    gen_info = {}
    try:
        import translate
        with C.flock("lake-gen"):
            gen_info = translate.run(GEN)
    except Exception as e:  # TranslateError or anything the generator raises: a broken tie
        problems.append({"kind": "translator", "detail": str(e)})
    kf = C.load_known_findings()
    open_kf = {f["id"]: f for f in kf.get("findings", []) if f["property"] == PROP and f.get("status", "open") == "open"}

    # 1-2. Lean: driver (checked models), then the theorems
    driver = "drv_" + PROP
    rc, out, t_drv = C.lake_build([driver])
    driver_ok = rc == 0
    if not driver_ok:
        problems.append({"kind": "model-build", "detail": out[-2000:]})
    rc, out, t_thm = C.lake_build(["ColoVerif.Properties." + PROP])
    thm_ok = rc == 0
    if not thm_ok:
        import re
        errs = ["%s %s" % e for e in re.findall(r"error: ([^\n]*\.lean:\d+:\d+): ([^\n]*)", out)][:20]
        problems.append({"kind": "theorem", "detail": "\n".join(errs) or out[-2000:], "theorem": "; ".join(errs[:3])})

    # 3. audit
    if thm_ok:
        au = C.audit(PROP)
        for n, why in au["bad"]:
            problems.append({"kind": "audit", "detail": "%s: %s" % (n, why), "theorem": n})
    else:
        names = C.property_theorems(PROP)
        au = {"obligations": len(names), "discharged": 0, "names": names, "axioms": {}}
    checker = ["lake build %s ColoVerif.Properties.%s" % (driver, PROP),
               "lake env lean <#print axioms for %d theorems>" % au["obligations"]]
    if tier == "thorough" and thm_ok:
        rc, out = C.sh(["lake", "env", "leanchecker", "ColoVerif.Properties." + PROP], cwd=C.lean_dir(), timeout=3600)
        checker.append("lake env leanchecker ColoVerif.Properties." + PROP)
        if rc != 0:
            problems.append({"kind": "audit", "detail": "leanchecker: " + out[-1500:], "theorem": "leanchecker"})

    # 4. both harness builds (in parallel; the libraries are content-addressed)
    exes = {}

    def build(v):
        try:
            return v, C.build_harness("h_" + PROP, v), None
        except RuntimeError as e:
            return v, None, str(e)
    with ThreadPoolExecutor(2) as ex:
        for v, exe, err in ex.map(build, list(BUILD_VARIANTS)):
            if exe:
                exes[v] = exe
            else:
                print("ERROR: cannot build harness %s:\n%s" % (v, err))
                problems.append({"kind": "harness-build", "detail": (err or "")[-3000:]})

    # 5. run both, correspondence + oracle for each
    base = os.path.join(C.CACHE, "run", "%s-%d" % (PROP, os.getpid()))
    stats_all, corr_lines, oracle_fails, kf_hits = {}, 0, [], {}

    def run_all(tier_, seed_, tag):
        outs = {v: os.path.join(base + tag, v) for v in exes}
        with ThreadPoolExecutor(2) as ex:
            res = list(ex.map(lambda v: (v,) + _run_variant(exes[v], v, tier_, seed_, outs[v], a.replay), list(exes)))
        return outs, res

    # thorough tier: the libstdc++-assertions build runs its flow stages next to the two main runs (it is dominated by a
    # few slow cases, so it hides behind them)
    gjob = None
    if tier == "thorough" and not a.replay:
        gv = next(iter(GLIBCXX_VARIANT))

        def glibcxx_job():
            try:
                gexe = C.build_harness("h_" + PROP, gv)
            except RuntimeError as e:
                return None, None, str(e)
            god = os.path.join(base + "-glibcxx", gv)
            rc, hout = _run_variant(gexe, gv, "quick", seed, god, None, stages=GLIBCXX_STAGES, jobs=4)
            return god, (rc, hout), None
        gpool = ThreadPoolExecutor(1)
        gjob = gpool.submit(glibcxx_job)

    outs, res = ({}, [])
    if exes:
        outs, res = run_all(tier, seed, "")
    drv = os.path.join(C.lean_dir(), ".lake", "build", "bin", driver)
    for v, rc, hout in res:
        od = outs[v]
        if rc != 0:
            problems.append({"kind": "harness-crash", "detail": "%s exit %d\n%s" % (v, rc, hout[-3000:])})
        sp = os.path.join(od, "stats.json")
        if os.path.exists(sp):
            try:
                stats_all[v] = json.load(open(sp))
            except Exception as e:
                problems.append({"kind": "harness-crash", "detail": "%s bad stats.json: %s" % (v, e)})
        ops = os.path.join(od, "ops.txt")
        impl = _read_lines(os.path.join(od, "impl.txt"))
        if driver_ok and os.path.exists(ops) and not a.replay:
            with open(ops) as fin:
                p = subprocess.run([drv], stdin=fin, stdout=subprocess.PIPE, stderr=subprocess.PIPE, text=True, errors="replace")
            model = p.stdout.splitlines()
            if p.returncode != 0:
                problems.append({"kind": "model-crash", "detail": p.stderr[-2000:]})
            corr_lines += len(impl)
            i = C.first_diff(model, impl)
            if i is not None:
                k, _ = C.case_of_line([l.replace("xcase ", "case ") for l in (impl if i < len(impl) else model)], i)
                case_ops, take = [], False
                for ln in _read_lines(ops):
                    if ln.startswith("case ") or ln.startswith("xcase "):
                        take = (ln.split()[1] == k)
                    if take:
                        case_ops.append(ln)
                problems.append({"kind": "correspondence", "case": k, "line": i, "variant": v,
                                 "model": model[i] if i < len(model) else "<eof>",
                                 "impl": impl[i] if i < len(impl) else "<eof>", "ops": case_ops[:400],
                                 "detail": "[%s] checked model and implementation differ at stream line %d (case %s): model '%s' impl '%s'"
                                           % (v, i, k, model[i] if i < len(model) else "<eof>", impl[i] if i < len(impl) else "<eof>")})
        for f in _oracle(od):
            f["variant"] = v
            fid = f.get("kf")
            if fid and fid in open_kf:
                kf_hits[fid] = kf_hits.get(fid, 0) + 1
            else:
                oracle_fails.append(f)

    # 5b. thorough tier: the flow stages once more in the libstdc++-assertions build (oracle only)
    glibcxx_info = None
    if gjob is not None:
        gv = next(iter(GLIBCXX_VARIANT))
        god, gres, gerr = gjob.result()
        if gerr:
            notes.append("libstdc++-assertions build (-D_GLIBCXX_ASSERTIONS -D_GLIBCXX_DEBUG) does not build/link: %s" % gerr[-400:])
        else:
            rc, hout = gres
            if rc != 0:
                problems.append({"kind": "harness-crash", "detail": "%s exit %d\n%s" % (gv, rc, hout[-3000:])})
            gst = {}
            try:
                gst = json.load(open(os.path.join(god, "stats.json")))
                stats_all[gv] = gst
            except Exception as e:
                problems.append({"kind": "harness-crash", "detail": "%s bad stats.json: %s" % (gv, e)})
            nfail = 0
            for f in _oracle(god):
                f["variant"] = gv
                fid = f.get("kf")
                if fid and fid in open_kf:
                    kf_hits[fid] = kf_hits.get(fid, 0) + 1
                else:
                    oracle_fails.append(f)
                    nfail += 1
            glibcxx_info = {"flags": GLIBCXX_VARIANT[gv], "stages": GLIBCXX_STAGES, "flow_cases": int(gst.get("evaluations", 0)),
                            "failures": nfail}
            notes.append("libstdc++-assertions build (%s): %d flow cases, %d failures" %
                         (" ".join(GLIBCXX_VARIANT[gv][-2:]), glibcxx_info["flow_cases"], nfail))
            if not a.keep:
                shutil.rmtree(base + "-glibcxx", ignore_errors=True)

    for fid, f in open_kf.items():
        print("KNOWN-FINDING: property=%s %s: %s (hits this run: %d)" % (PROP, fid, f["what"], kf_hits.get(fid, 0)))

    # 6. verdict + search
    violation, tail = None, ""
    if oracle_fails:
        f = oracle_fails[0]
        violation = {"failed": "oracle", "on": "implementation", "case": f.get("case"), "what": f.get("what"),
                     "input": f.get("input"), "variant": f.get("variant"), "n_failures": len(oracle_fails),
                     "others": [{k: o.get(k) for k in ("case", "variant", "what")} for o in oracle_fails[1:5]]}
    elif problems:
        found = None
        if exes and not a.replay:
            souts, sres = run_all("search", seed + 1000, "-search")
            for v, rc, hout in sres:
                for f in _oracle(souts[v]):
                    if not (f.get("kf") in open_kf):
                        f["variant"] = v
                        found = found or f
                if rc != 0:
                    notes.append("search harness %s exit %d: %s" % (v, rc, hout[-300:]))
            if not a.keep:
                shutil.rmtree(base + "-search", ignore_errors=True)
        pr = problems[0]
        violation = {"failed": pr["kind"], "broken": pr.get("theorem") or pr.get("detail"), "problems": problems[:6]}
        if found:
            violation.update({"on": "implementation", "case": found.get("case"), "what": found.get("what"),
                              "input": found.get("input"), "variant": found.get("variant")})
        else:
            tail = " no-failing-input-found"

    # 7. evidence
    wall = time.time() - t0
    dist = {}
    for v, st in stats_all.items():
        for k, n in st.get("distribution", {}).items():
            dist["%s:%s" % (v.replace("c07_", ""), k)] = n
    any_stats = next(iter(stats_all.values()), {})
    samples = []
    for st in stats_all.values():
        samples += st.get("samples", [])[:4]
    cov = {
        "obligations": au["obligations"], "discharged": au["discharged"],
        "checker_cmd": " && ".join(checker),
        "trusted_base": C.TRUSTED_BASE + ["ASan/UBSan (g++ 12) as observers of undefined behaviour outside the modelled cores"],
        "theorems": au.get("names", []), "axioms": au.get("axioms", {}),
        # every case is executed in both builds: executions are summed, distinct cases are not
        "evaluations": sum(int(st.get("evaluations", 0)) for st in stats_all.values()),
        "distinct_nontrivial": max([int(st.get("distinct_nontrivial", 0)) for st in stats_all.values()] or [0]),
        "rule": any_stats.get("rule", RULE) + "; every case runs in an assertion-enabled and an NDEBUG build "
                                              "(evaluations = executions over both, distinct_nontrivial = per build)",
        "samples": samples[:8] or ["<none>"],
        "traces_validated_against_impl": corr_lines,
        "distribution": dist, "partial_clauses": PARTIAL, "known_findings_hit": kf_hits, "generated": gen_info,
        "exhaustive": False,
        "timing": {"driver_build_s": round(t_drv, 1), "theorem_build_s": round(t_thm, 1)},
        "notes": notes + sum([st.get("notes", []) for st in stats_all.values()], []),
        "builds": {v: BUILD_VARIANTS[v] for v in BUILD_VARIANTS},
        "glibcxx_assertions_build": glibcxx_info or "thorough tier only",
    }
    if not a.replay:
        C.write_evidence(PROP, tier if tier in ("quick", "thorough") else "quick", seed, cov, ASSUMPTIONS, wall,
                         1 if violation else 0)
    if not a.keep:
        shutil.rmtree(base, ignore_errors=True)
    if violation:
        violation.update({"property": PROP, "tier": tier, "seed": seed,
                          "replay_cmd": "python3 tools/check.py %s --tier %s --replay <this file>" % (PROP, tier)})
        rp = C.write_replay(PROP, seed, violation.get("case", "x"), violation)
        print("VIOLATION property=%s replay=%s%s" % (PROP, rp, tail))
        for p in problems[:5]:
            print("  problem[%s]: %s" % (p["kind"], str(p.get("detail"))[:600]))
        if oracle_fails:
            summary = {}
            for f in oracle_fails:
                w = f.get("what", "")
                i = w.find("[")
                key = (f.get("variant"), w[i:w.find("]") + 1] if i >= 0 else w[:60])
                summary[key] = summary.get(key, 0) + 1
            for (v, key), n in sorted(summary.items(), key=lambda kv: -kv[1])[:8]:
                print("  oracle[%s] %s x%d" % (v, key, n))
            print("  first: %s" % json.dumps({k: oracle_fails[0].get(k) for k in ("case", "variant", "what")})[:900])
        return 1
    print("OK property=%s tier=%s seed=%d theorems=%d/%d evaluations=%d corr_lines=%d wall=%.1fs" % (
        PROP, tier, seed, cov["discharged"], cov["obligations"], cov["evaluations"], corr_lines, wall))
    return 0
