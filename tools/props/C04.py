"""C04 — row polarity and orientation constraints are honoured."""
GEN = ["OrientTables"]
VARIANT = "san"
RULE = ("part 1: the complete orientation tables (oppositeRowOrientation 10, cellOrientationInRow 5x10, isTurn 10, "
        "pin-offset flip flags 8), exhaustive; part 2: circuits of the C01 domain with polarities; non-trivial = at least "
        "one movable cell with a polarity and Circuit::legalize returned (see stats)")
PARTIAL = [
    "legalize_orient (every polarised movable cell has exactly cellOrientationInRow(pol, row under its bottom edge), never "
    "INVALID, after Circuit::legalize; ANY cells keep their orientation): NOT proved in Lean in this round - supported only by "
    "the end-to-end direct oracle of harness/h_C04.cpp on generated circuits (bounded by the generator)",
    "detailed_orient (the same clause after Circuit::placeDetailed and at every PlacementStep::Detailed callback state): NOT "
    "proved in Lean in this round - supported only by the end-to-end direct oracle (orientation checked at every callback and "
    "after return); runs in which the real code throws or aborts (findings of C01/C02/C07) are counted, not checked further",
    "proved for all inputs: the table-level theorems of Properties/C04.lean over the definitions regenerated from "
    "parameters.cpp / coloquinte.cpp on every run (totality, never UNKNOWN for a declared polarity, ANY -> keep marker, "
    "abort() unreachable, SAME/OPPOSITE never INVALID, NW/SE partition of the rows, involution / mirror facts)",
]
ASSUMPTIONS = [
    "CellOrientation / CellRowPolarity values are the enumerators 0..9 / 0..4 (cellOrientationInRow aborts outside; proved "
    "unreachable for enumerator values and exercised exhaustively on them)",
    "the row of a cell is the free row segment (row minus fixed obstructions, vc::freeSegments) with minY == cell y that "
    "contains [x, x + placed width); a polarised cell sitting in no such segment is an illegal placement (C01/C02) and is "
    "skipped and counted by the orientation oracle",
    "the legalizer / detailed-placement clauses are not modelled in Lean here; their evidence is differential testing of the "
    "real code against the property statement on the generated distribution (see distribution in the evidence file)",
]
LEVEL_TEXT = ("Lean 4 theorems about the orientation tables translated from the C++ source on every run (translator tie: "
              "clang AST -> Gen/OrientTables.lean, plus an exhaustive differential stream over all 78 table entries through "
              "the real functions and Circuit::pinXOffset/pinYOffset); the end-to-end clauses (after legalize, at every "
              "Detailed callback, after placeDetailed) are checked by an independent orientation oracle on the real code for "
              "random circuits of the C01 domain with all polarities, odd/even row counts and all row-orientation patterns, "
              "under ASan/UBSan with assertions on")
LEVEL_NOTE = ("Trusted: Lean kernel (axioms propext/Classical.choice/Quot.sound only), tools/translate.py + clang AST for the "
              "generated tables, the harness's independent reading of 'row under the bottom edge'. The legalizer and "
              "detailed-placement orientation clauses are test-level evidence only (listed in partial_clauses).")
TECHNIQUE = ("Lean 4 proof (decide over the finite translated tables) + exhaustive table correspondence + end-to-end direct "
             "oracle on Circuit::legalize / Circuit::placeDetailed")
