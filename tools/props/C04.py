"""C04 — row polarity and orientation constraints are honoured."""
GEN = ["OrientTables"]
VARIANT = "san"
RULE = ("part 1: the complete orientation tables (oppositeRowOrientation 10, cellOrientationInRow 5x10, isTurn 10, "
        "pin-offset flip flags 8), exhaustive; part 2: circuits of the C01 domain with polarities; non-trivial = at least "
        "one movable cell with a polarity and Circuit::legalize returned; part 3: object histories - public mutators (setRows, "
        "setupRows with all flag combinations, setCellX/Y/Width/Height, setCellIsFixed, setCellIsObstruction, setCellOrientation, "
        "setCellRowPolarity, setSolution, addNet) interleaved with legalize / placeDetailed on ONE Circuit object, every observation "
        "checked against the rows as they are now, against a freshly rebuilt circuit and against the model (see stats, counters hist_*)")
PARTIAL = [
    "legalize_orient: PROVED in Lean for all inputs of the C01 domain over the executable legalization model "
    "(Model/Legalize.lean, the definitions drv_C01 runs; Tetris variant tetrisPerSegmentOrientation = true = tree with "
    "fix c04-tetris-row-orientation). What remains test-level is only the tie model <-> C++ (C01 correspondence stream, which "
    "carries orientations) and, for a row whose orientation is the marker UNKNOWN (outside the property's quantifier), the "
    "theorem states what getOrientation does (a SAME cell is left as it was) instead of equality with the table",
    "detailed_orient: PROVED in Lean over the detailed-placement model (Model/DetPlace.lean) for every history of "
    "swap/insert/shift/reorder moves from any state satisfying the decidable invariant Inv with all optimised cells placed, "
    "at every prefix state and at the end; ANY cells and ignored cells proved to keep their orientation. NOT proved for all "
    "inputs: that the state built by fromIspdCircuit satisfies Inv (C02's inv_init_full_statement; the constructor ends with "
    "check() and drv_C02 evaluates the decidable Inv on every generated instance), and that the segment a cell is linked in "
    "contains its whole x-range for inner cells of a row (C02's inv_legal_full_statement; y == row y IS proved). Shift moves are "
    "the model's checked shift (the code trusts NetworkSimplex; each logged shift is re-checked by the C02/C05 replay). Runs in "
    "which the real code throws or aborts (findings of C01/C02/C07) are counted by the oracle, not checked further",
    "the tie of both models to the real code is differential (C01/C02 streams) plus this property's own end-to-end direct "
    "oracle on Circuit::legalize / Circuit::placeDetailed (orientation checked after legalize, at every Detailed callback and "
    "after return), bounded by the generator; histories on one object (mutators between calls) are covered by the object-history "
    "stream only (random sequences of 3-6 observations, metamorphic comparison with a freshly rebuilt circuit), not by proof: the "
    "theorems are about single calls as pure functions of the circuit's public state",
    "proved for all inputs: the table-level theorems of Properties/C04.lean over the definitions regenerated from "
    "parameters.cpp / coloquinte.cpp on every run (totality, never UNKNOWN for a declared polarity, ANY -> keep marker, "
    "abort() unreachable, SAME/OPPOSITE never INVALID, NW/SE partition of the rows, involution / mirror facts)",
]
ASSUMPTIONS = [
    "CellOrientation / CellRowPolarity values are the enumerators 0..9 / 0..4 (cellOrientationInRow aborts outside; proved "
    "unreachable for enumerator values and exercised exhaustively on them)",
    "the row of a cell is the free row segment (row minus fixed obstructions, vc::freeSegments / Circuit.computeRows) with "
    "minY == cell y that contains [x, x + placed width) (Lean: C04.UnderBottom, proved unique); a polarised cell sitting in no "
    "such segment is an illegal placement (C01/C02) and is skipped and counted by the orientation oracle",
    "legalize_orient has the hypotheses of C01.legalize_legal (C01.Dom: uniform positive row height, positive widths, heights "
    "multiples of the row height, polarised cells and rows unturned, rows pairwise disjoint); detailed_orient is relative to "
    "DetPlace.Inv of the initial state (decidable, evaluated by drv_C02 on every instance) and to the C02 model of the moves",
    "the Lean models are the ones of C01 (Legalize) and C02 (DetPlace): C++ int as unbounded Int (overflow is C07's), the "
    "Tetris pass as after fix c04-tetris-row-orientation, isRowAllowed as after fix c04-invalid-rows",
]
LEVEL_TEXT = ("Lean 4 theorems (a) about the orientation tables translated from the C++ source on every run (translator tie: "
              "clang AST -> Gen/OrientTables.lean, plus an exhaustive differential stream over all 78 table entries through "
              "the real functions and Circuit::pinXOffset/pinYOffset) and (b) about the algorithms: legalize_orient for every "
              "circuit of the C01 domain over the executable legalization model, detailed_orient for every move history over "
              "the detailed-placement model (corollary of the C02 invariant), both models being tied to the C++ by the C01/C02 "
              "correspondence streams; in addition the end-to-end clauses (after legalize, at every Detailed callback, after "
              "placeDetailed) are checked by an independent orientation oracle on the real code for random circuits of the "
              "C01 domain with all polarities, odd/even row counts and all row-orientation patterns, under ASan/UBSan with "
              "assertions on -- four of these circuits in ten have their rows cut into segments of independently drawn orientations "
              "(segments of one y prescribing different orientations) and/or listed in another order than bottom-up / left to right "
              "(reversed, shuffled, bottom-up but right to left within a y, top-down, one adjacent pair exchanged; counters rows_*), the "
              "oracle finding the segment under a cell by geometry; an object-history stream repeats these checks along random sequences of public mutators and "
              "legalize / placeDetailed calls on one Circuit object (several observations per object, the same one twice, "
              "observation -> one mutator -> same observation): after every call the oracle is evaluated against rows() as they "
              "are now, the result is compared with the same call on a freshly constructed circuit of identical observable "
              "state (rebuilt through the public setters, so stale state kept inside the object shows), and the orientation of "
              "every placed movable cell is compared with the model's assignedOrientation")
LEVEL_NOTE = ("Trusted: Lean kernel (axioms propext/Classical.choice/Quot.sound only), tools/translate.py + clang AST for the "
              "generated tables, the harness's independent reading of 'row under the bottom edge', and the differential tie of "
              "the Legalize / DetPlace models to the C++ (C01/C02 streams). The algorithm clauses are proved over those "
              "models; what is not proved for all inputs is listed in partial_clauses.")
TECHNIQUE = ("Lean 4 proof (decide over the finite translated tables; invariant proofs over the executable legalization and "
             "detailed-placement models) + exhaustive table correspondence + end-to-end direct oracle on Circuit::legalize / "
             "Circuit::placeDetailed + object-history stream (mutators and calls interleaved on one object, metamorphic comparison with a "
             "freshly rebuilt circuit)")
