"""C02 — detailed placement keeps the placement legal at every exposed state."""
VARIANT = "san"
RULE = "see stats"
PARTIAL = []
ASSUMPTIONS = []
LEVEL_TEXT = "wip"
LEVEL_NOTE = "wip"
TECHNIQUE = "wip"
