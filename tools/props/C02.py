"""C02 — detailed placement keeps the placement legal at every exposed state."""
VARIANT = "san"
RULE = "see stats"
PARTIAL = [
    "inv_init: only `fromIspdCircuit c = ok s -> check s` is proved (`inv_init_partial`); that the constructed state "
    "satisfies the full `Inv` (link symmetry, y on row, positive widths) and has every optimised cell placed is stated "
    "(`inv_init_full_statement`) and evaluated by the driver (decidable `Inv`) on every explored instance, not proved for all circuits",
    "inv_legal: `inv_legal_partial` gives per placed cell: valid allowed row, y on the row, valid orientation, no overlap with "
    "its predecessor/successor, row ends for the first/last cell; non-overlap of *any* two cells of a row (transitivity along "
    "the links) and legality of the exported circuit against `computeRows` are stated (`inv_legal_full_statement`), supported by "
    "the direct oracle vc::checkLegal in every callback, not proved",
    "clause 'never fails on a circuit that legalization alone accepts' (`fromIspdCircuit` succeeds on every legal placement, and "
    "canPlace succeeds inside swap/insert) is not proved; direct oracle only (placeDetailed must neither throw nor abort whenever "
    "legalize alone succeeded and returned a legal placement)",
    "lemon NetworkSimplex returning potentials that satisfy the arc constraints is assumed: the model's `shift` re-checks every "
    "update, the code does not; a violation would be caught on explored runs (history replay + legality oracle), not excluded for all",
    "that the optimiser's loops only perform the modelled primitive moves is tied by the hook-H3 history replay on explored runs, "
    "not proved; RowReordering's contract (registered cells are placed optimised cells, predecessors stay placed) is checked "
    "dynamically by the model (`Err.guard`) rather than derived from addCells",
]
ASSUMPTIONS = [
    "lemon::NetworkSimplex returns feasible potentials (shift passes)",
    "boost::polygon row/obstacle difference behaves as the 1-D interval model of Model/Freespace.lean (C15 ties it)",
    "C++ int arithmetic modelled as unbounded Int; std::vector as total functions read only inside their size on Inv states",
    "std::sort of rows / of the cells of a row: keys are distinct on the domain (disjoint rows, positive widths)",
]
LEVEL_TEXT = ("Lean 4 theorems over an executable model of DetailedPlacement's doubly linked row lists: unplace/place (pointer "
              "surgery included), swap (3 branches), insert (Int.tdiv midpoints), checked shift and reorder write-back all preserve "
              "the decidable invariant Inv (= every test of DetailedPlacement::check() + link symmetry + orientation != INVALID + y "
              "on row + positive widths); hence every state reachable by any move sequence with arbitrary arguments satisfies it "
              "(inv_run); ignored cells (multi-row cells, macros, fixed cells) keep x/y/orientation along every history "
              "(ignored_frame).  Construction and whole-circuit legality are partial (see partial_clauses).  The model is tied to the "
              "C++ by a differential stream on the public API (state compared after every operation) and, with hook H3, by replaying "
              "the optimiser's move history of real Circuit::placeDetailed runs; the direct oracle checks legality in every Detailed "
              "callback and on return, that ignored cells do not move, and that placeDetailed never fails after legalize succeeded")
LEVEL_NOTE = ("Trusted: Lean kernel (propext/Classical.choice/Quot.sound), the hand-written model's tie to the code (differential, "
              "bounded by the generator), lemon NetworkSimplex, boost::polygon via the Freespace model, the harness' legality oracle.")
TECHNIQUE = "Lean 4 proof (invariant over move histories) + primitives correspondence + history replay + end-to-end legality oracle"
TIMEOUT = {"quick": 3600, "thorough": 6 * 3600, "search": 3 * 3600}
