"""C02 — detailed placement keeps the placement legal at every exposed state."""
GEN = ["GeomFns"]
VARIANT = "san"
RULE = "see stats"
PARTIAL = [
    "geometry_layer_translated: the shared Rect / Cell geometry this model is written in (Rectangle ctor, isTurn, x / y / orientation / isFixed / placedWidth / placedHeight / placement and the loop of Circuit::rowHeight, equal for every circuit) is regenerated from the clang AST of the C++ function bodies on every run (Gen/GeomFns.lean) and proved equal to the hand-written definitions; the translator's representation map (array-of-fields <-> Cell record, rows_ <-> list of Row) is stated, not derived; this is a tie, not a clause of the property",
    "clause 'never fails on a circuit that legalization alone accepts': proved for the constructor, with no side condition, for "
    "every result of the *model's* legalization (`constructor_ok_after_legalize`: C01 domain + `legalizeWith` returns c' => "
    "`fromIspdCircuit c'` returns normally with Inv and all cells placed; uses C01's `legalizeWith_legal` and C04's "
    "`legalizeWith_orient`), and for the primitives (`swap_never_throws`, `insert_never_throws`: a move accepted by "
    "canSwap/canInsert is carried out, canPlace inside included).  The optimiser's loops: the candidate enumeration of runSwaps/runInserts "
    "(RowNeighbourhood, windows, walks) and RowReordering's enumeration are now modelled (Model/DetSearch.lean, DetReorder.lean, built with C05) and it is "
    "proved that every swap/insert the modelled loops issue was answered true by canSwap/canInsert in the state it is applied to (C05 "
    "`scan_calls_within_contract`, so swap_never_throws/insert_never_throws apply), that RowReordering registers distinct valid cells (C05 "
    "`reorder_window_registered`), and that on an Inv placement (object in sync, every optimised cell placed) the modelled runSwaps, runInserts and runReordering "
    "return normally with Inv — no exception of canSwap/canInsert/canPlace/place/cellsBetween, `place` inside RowReordering::writeback accepts the kept leaf, the "
    "bestSwapUpdate loops terminate (C05 `passes_never_fail`; Proofs/DetSearchTotal.lean, DetReorderTotal.lean, DetReorderWriteback.lean).  Not proved: "
    "runShifts (lemon), the incremental net model's own checks, and that the C++ loops are the modelled ones — tied by the pass-level generation of C05 "
    "(the model must reproduce the hook-H3 move log of every pass) + the direct oracle (placeDetailed, and every "
    "public pass of DetailedPlacer driven directly with arbitrary window arguments, must neither throw nor abort whenever "
    "legalize alone succeeded and returned a legal placement)",
    "`inv_init`, `inv_legal`, `init_of_legal` on an arbitrary circuit assume that no movable cell carries the orientation INVALID "
    "and `fromCircuit_ok_of_legal` assumes `OrientLegal` (one-row cells have the orientation their row demands): C01's `Legal` "
    "contains neither; both are proved for legalization's results (`legalize_noInvalid`, `legalize_orientLegal`), so "
    "`detailed_legal_after_legalize` has no such hypothesis",
    "lemon NetworkSimplex returning potentials that satisfy the arc constraints is assumed: the model's `shift` re-checks every "
    "update, the code does not; a violation would be caught on explored runs (history replay + legality oracle), not excluded for all",
    "that the optimiser's loops only perform the modelled primitive moves is tied by the hook-H3 history replay on explored runs (and, in C05, by "
    "regenerating the moves of every pass from the modelled loops), not proved for the C++; RowReordering's contract: registered cells are distinct valid "
    "placed cells is now derived from addCells on Inv placements (C05 `reorder_window_registered`); that predecessors stay placed during the write-back is "
    "still checked dynamically by the model (`Err.guard`)",
    "`inv_legal` / `detailed_legal_after_legalize` speak about the model's `exportPlacement` of any reachable model state; that "
    "each Detailed callback exposes exactly such a state is the history-replay tie (model export == exposed placement at every "
    "callback and on return), and that placeDetailed starts from the model's legalization result is C01's correspondence",
]
ASSUMPTIONS = [
    "lemon::NetworkSimplex returns feasible potentials (shift passes)",
    "boost::polygon row/obstacle difference behaves as the 1-D interval model of Model/Freespace.lean (C15 ties it)",
    "C++ int arithmetic modelled as unbounded Int; std::vector as total functions read only inside their size on Inv states",
    "std::sort of rows / of the cells of a row: keys are distinct on the domain (disjoint rows, positive widths)",
]
LEVEL_TEXT = ("Lean 4 theorems over an executable model of DetailedPlacement's doubly linked row lists.  Construction: whatever "
              "fromIspdCircuit returns satisfies the decidable invariant Inv (= every test of DetailedPlacement::check() + link "
              "symmetry + orientation != INVALID + y on row + positive widths) with every optimised cell placed (inv_init), and on a "
              "circuit of C01's domain that is legal in C01's sense with row-conform orientations the constructor does not fail "
              "(fromCircuit_ok_of_legal: upper_bound lookup in the sorted free segments, overlap test, final check()); with C01's "
              "legality and C04's orientation theorem this holds for every result of legalization without side condition "
              "(constructor_ok_after_legalize, detailed_legal_after_legalize).  Moves: "
              "unplace/place (pointer surgery included), swap (3 branches), insert (Int.tdiv midpoints), checked shift and reorder "
              "write-back all preserve Inv, hence every state reachable by any move sequence with arbitrary arguments satisfies it "
              "(inv_run); feasible swaps/inserts are carried out without exception (swap_never_throws, insert_never_throws); ignored "
              "cells (multi-row cells, macros, fixed cells) keep x/y/orientation along every history (ignored_frame).  Legality: "
              "every state reached from the constructor's state of a legal circuit by any accepted history exports a circuit that is "
              "legal in C01's sense (inv_legal: order along the links is transitive, segments are disjoint free space, unoptimised "
              "cells were obstacles, turn status never changes).  The model is tied to the C++ by a differential stream on the "
              "public API (state compared and Inv evaluated after every operation) and, with hook H3, by replaying the optimiser's "
              "move history of real Circuit::placeDetailed runs and of DetailedPlacer passes driven directly with arbitrary window "
              "arguments (runInserts and the per-row variants included, which placeDetailed never calls; Inv evaluated after every "
              "replayed move); the direct oracle checks "
              "legality in every Detailed callback and on return, that ignored cells do not move, and that placeDetailed never fails "
              "after legalize succeeded; thorough tier: exhaustive enumeration of all feasible swap/insert sequences of length <= 4 "
              "on small instances through the real API.  One end-to-end case in three (one directly driven case in four) makes the "
              "measured call on a Circuit object with a past (common/past.hpp: built in a perturbed state — one attribute class "
              "differing at a time for two thirds —, computeRows/computePlacementArea/hpwl/rowHeight/check called, brought to the case's "
              "public state through only the needed setters, setupRows included): state kept inside the object between calls that a "
              "setter forgets to refresh shows up as an illegal exposed placement or a failure; replay files carry the past")
LEVEL_NOTE = ("Trusted: Lean kernel (propext/Classical.choice/Quot.sound), the hand-written model's tie to the code (differential, "
              "bounded by the generator), tools/translate.py + clang-14 AST for Gen/GeomFns (shared geometry layer and Circuit::rowHeight, proved "
              "equal to the hand-written ones: geometry_layer_translated), lemon NetworkSimplex, boost::polygon via the Freespace model, the harness' legality oracle.")
TECHNIQUE = "Lean 4 proof (invariant over move histories) + primitives correspondence + history replay + end-to-end legality oracle"
TIMEOUT = {"quick": 3600, "thorough": 6 * 3600, "search": 3 * 3600}
