"""C11 — legalization does not move an already legal single-row placement."""
VARIANT = "san"
RULE = "see stats"
PARTIAL = []
ASSUMPTIONS = []
LEVEL_TEXT = "tbd"
LEVEL_NOTE = "tbd"
TECHNIQUE = "tbd"
