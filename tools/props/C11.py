"""C11 — legalization does not move an already legal single-row placement."""
VARIANT = "san"
RULE = "see stats"
TIMEOUT = {"quick": 1500, "thorough": 6 * 3600, "search": 3600}
PARTIAL = [
    "circuit-level idempotence (legalize_idempotent_full_statement) is not proved; proved for all inputs are its two "
    "mechanisms at segment level: order_preserved (exact key, 0<=orderingWidth<=1: a cell entirely left of another in the same "
    "row sorts first, for every orderingY/orderingHeight/index), order_never_inverted_rounded (any monotone rounding, e.g. "
    "binary32: the order can only differ on an exact tie of rounded keys), rowleg_no_conflict (in-order non-overlapping "
    "targets: cost 0 at every push, placement = targets) and their combination legalize_idempotent_partial. NOT proved: "
    "sortKeys is a sorted permutation, AbacusLegalizer::placeCell keeps a legal cell in its own segment, import/export "
    "plumbing. Supported by re-legalizing legal placements (outputs of legalize and directly constructed) on the real code "
    "and on the model.",
    "the exact-key theorems assume the float key is exact (the property's own restriction |v| < 2^20); the driver uses the "
    "binary32 model f32 and the stream compares the computed order itself (`order` lines).",
]
ASSUMPTIONS = [
    "same model and assumptions as C01 (lean/ColoVerif/Model/Legalize.lean)",
    "legal placement = positions legal by the independent oracle and polarised cells carry the orientation their row demands",
    "KF-C11-1 classifier: the run's legalization.orderingWidth is outside [0,1]",
]
LEVEL_TEXT = ("Lean 4 theorems over the executable legalization model: order preservation of the ordering key for orderingWidth in "
              "[0,1] (exact key, and non-inversion under any monotone rounding), zero-cost/no-move of RowLegalizer on conflict-free "
              "targets, their single-segment combination, and the kernel-evaluated negation for orderingWidth = 2 (KF-C11-1 "
              "witness, replayed on the code). Tied to Circuit::legalize by a differential stream of legal placements "
              "(legalize then legalize again) with parameters over the whole accepted range; the direct oracle compares x/y "
              "before and after on the real code")
LEVEL_NOTE = ("Trusted: Lean kernel (axioms propext/Classical.choice/Quot.sound only), the model's tie to the code (differential), "
              "unbounded Int, f32 model of binary32. Known finding KF-C11-1 (orderingWidth outside [0,1]) is classified, not fixed.")
TECHNIQUE = "Lean 4 proof + correspondence stream on legal placements + before/after oracle + known-finding classifier"
