"""C11 — legalization does not move an already legal single-row placement."""
VARIANT = "san"
RULE = "see stats"
TIMEOUT = {"quick": 1500, "thorough": 6 * 3600, "search": 3600}
PARTIAL = [
    "circuit-level idempotence IS proved for all inputs with the exact ordering key: legalize_idempotent (C01 domain, all "
    "movable cells one row high, Legal as C01 defines it over computeRows, OrientLegal, params accepted by check, "
    "0<=orderingWidth<=1 => legalizeExact p c = ok c: positions, orientations, everything unchanged), via "
    "cell_order_sorted_perm (sortKeys is a sorted permutation), abacus_keeps_own_row (placeCell search returns the own segment "
    "at cost 0, legalizers unchanged), abacus_pass_fixed, legalize_idempotent_any_key (any key rounding that keeps the "
    "left-to-right order).",
    "for the binary32 key AS COMPILED the property's clause 'all parameter sets' is FALSE (known finding KF-C11-2, "
    "idempotence_binary32_needs_exact_key / kf2_witness_in_class, kernel-evaluated and replayed on the real code from "
    "corpus/C11/kf2.json on every run: orderingHeight = 2^30 passes LegalizationParameters::check, both keys round to 2^31, the "
    "two cells of a legal row are swapped with orderingWidth = 1/2 and coordinates < 8).  What IS proved for binary32, without "
    "any key-exactness hypothesis: f32 (round-to-nearest-even over Rat, subnormals, no overflow) is monotone (f32_monotone) and "
    "exact on integers |v| <= 2^24 and on dyadics m*2^k, |m| <= 2^24, k >= -149 (f32_exact_on_integers/_dyadics); hence for "
    "0<=orderingWidth<=1, |x|,w <= 2^24 and EVERY orderingY/orderingHeight the rounded keys of two same-row cells are never "
    "strictly inverted (order_never_inverted_binary32), and a legal single-row placement with no index-inverted TIE of rounded "
    "keys among the cells of one free segment is a fixed point of the compiled legalize (legalize_idempotent_binary32_classified); "
    "the executable classifier kf2ClassSeg is exactly the negation of the order-keeping hypothesis KeyOrderSeg (kf2_class_iff_not_key_order) "
    "and outside it the compiled legalize is idempotent for any parameters (legalize_idempotent_binary32_not_kf2, "
    "legalize_twice_binary32_not_kf2).  NOT proved: any closed-form bound on orderingHeight/orderingY/coordinates under which "
    "the class is empty (ties depend on the magnitudes of all four terms; legalize_idempotent_binary32 keeps the 'key exact' "
    "form of that hypothesis); cases inside the class are classified KF-C11-2, not claimed.",
    "the Lean classifier kf2 (kf2ClassSeg f32 over computeRows: pairs of cells of one free row SEGMENT) is the harness' KF-C11-2 "
    "classifier; the two are compared on every case by the `kf2` sub-stream (harness binary32 arithmetic + independent free-"
    "segment computation vs the Lean definition the theorems use), together with the row-wide variant kf2Class.  Cells of "
    "different segments of one row may be visited in any order (proved: IdemOK.order/KeyOrderSeg are per segment; kernel-"
    "evaluated on splitCircuit; measured: kf2_cross_segment_inversion_only_stable).",
    "OrientLegal is an explicit hypothesis (C01's Legal says nothing about orientations): no movable cell has orientation "
    "INVALID and a polarised cell already has the orientation cellOrientationInRow prescribes in its segment; the harness' "
    "legal placements satisfy it (outputs of legalize, and constructed ones carry the row-demanded orientation).",
    "'legalizing twice = legalizing once' IS proved for arbitrary input positions (legalize_twice: C01.Dom, all movable cells one "
    "row high, exact key, 0<=orderingWidth<=1: if the first call returns c' the second returns c' again; the first result is "
    "shown to be in the domain, legal by C01's legalize_legal, and orientation-legal); for the compiled binary32 key the first "
    "result must be outside the KF-C11-2 class (legalize_twice_binary32_not_kf2 / legalize_twice_any_key).",
]
ASSUMPTIONS = [
    "same model and assumptions as C01 (lean/ColoVerif/Model/Legalize.lean)",
    "legal placement = positions legal by the independent oracle and polarised cells carry the orientation their row demands",
    "KF-C11-1 classifier: the run's legalization.orderingWidth is outside [0,1]",
    "KF-C11-2 classifier (evaluated on the input before the code runs, only when KF-C11-1 does not apply): with the keys of "
    "LegalizerBase::computeCellOrder recomputed in binary32 in the same expression order, two movable cells of one free row "
    "segment, a entirely left of b, have key(a) > key(b), or key(a) == key(b) and index(a) > index(b)",
    "x86-64/SSE float arithmetic of the harness' classifier = the library's (no FMA contraction, FLT_EVAL_METHOD 0); checked "
    "per case against the f32 model by the `kf2` and `order` sub-streams",
    "at most 60 oracle lines are written per known finding (vh::Out drops lines after 200 failures); all hits are counted in the distribution",
]
LEVEL_TEXT = ("Lean 4 theorems over the executable legalization model: circuit-level idempotence legalize p c = ok c for every legal "
              "single-row circuit of the C01 domain with orderingWidth in [0,1] for the exact key, and for the binary32 key as compiled "
              "whenever the input is outside the class of known finding KF-C11-2 (no index-inverted tie of the rounded keys among the "
              "cells of a row; f32 proved monotone and exact on integers <= 2^24 and 24-bit dyadics, so rounding never strictly inverts "
              "two keys, for every orderingY/orderingHeight). Built from order preservation of the ordering key, the sorted-permutation "
              "property of computeCellOrder, abacus_keeps_own_row, zero-cost/no-move of RowLegalizer on conflict-free targets; kernel-"
              "evaluated negations for orderingWidth = 2 (KF-C11-1) and orderingHeight = 2^30 (KF-C11-2), both replayed on the code. "
              "Tied to Circuit::legalize by a differential stream of legal placements (KF-C11-2 class, cell order, legalize, legalize "
              "again) with parameters over the whole accepted range incl. |orderingHeight| up to 2^40; the direct oracle compares x/y "
              "before and after on the real code and demands that every moved case is in the class of KF-C11-1 or KF-C11-2. One "
              "case in three feeds the legal placement to a Circuit object with a past (same circuit with a fixed obstruction elsewhere / "
              "turned / resized, other flags or rows; it computed its rows and at times legalized, then was restored through the needed "
              "setters only -- setCellX, setCellY, setSolution, setCellOrientation, setupRows ... each the sole restorer at times; "
              "counters history_*): the placement is legal for the circuit as it is now, so no cell may move whatever the object saw before")
LEVEL_NOTE = ("Trusted: Lean kernel (axioms propext/Classical.choice/Quot.sound only), the model's tie to the code (differential), "
              "unbounded Int, f32 model of binary32. Known findings KF-C11-1 (orderingWidth outside [0,1]) and KF-C11-2 (binary32 key "
              "ties under unbounded orderingHeight) are classified from the input, not fixed; the property as stated ('all parameter "
              "sets') does not hold for the compiled code inside those classes.")
TECHNIQUE = "Lean 4 proof + correspondence stream on legal placements + before/after oracle + known-finding classifier"
