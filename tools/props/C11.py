"""C11 — legalization does not move an already legal single-row placement."""
VARIANT = "san"
RULE = "see stats"
TIMEOUT = {"quick": 1500, "thorough": 6 * 3600, "search": 3600}
PARTIAL = [
    "circuit-level idempotence IS proved for all inputs with the exact ordering key: legalize_idempotent (C01 domain, all "
    "movable cells one row high, Legal as C01 defines it over computeRows, OrientLegal, params accepted by check, "
    "0<=orderingWidth<=1 => legalizeExact p c = ok c: positions, orientations, everything unchanged), via "
    "cell_order_sorted_perm (sortKeys is a sorted permutation), abacus_keeps_own_row (placeCell search returns the own segment "
    "at cost 0, legalizers unchanged), abacus_pass_fixed, legalize_idempotent_any_key (any key rounding that keeps the "
    "left-to-right order). NOT proved: that the binary32 key as compiled keeps that order on the property's domain — "
    "legalize_idempotent_binary32 takes 'the f32 key of every movable cell equals the exact key' as a hypothesis (it is the "
    "property's own assumption; |v| < 2^20 alone does not imply it for non-dyadic weights, and for huge orderingHeight the "
    "statement is false for binary32: idempotence_binary32_needs_exact_key, kernel-evaluated and replayed on the real code — "
    "orderingHeight = 2^30 passes LegalizationParameters::check, both keys round to 2^31, the two cells of a legal row are "
    "swapped with orderingWidth = 1/2; candidate known finding, witness corpus/C11/kf2-candidate.json, NOT in "
    "known_findings.json; the generator draws |orderingHeight| <= 100 so the stream does not reach it); supported by the "
    "`order` sub-stream and by re-legalizing legal placements on the real code and on the f32 model.",
    "OrientLegal is an explicit hypothesis (C01's Legal says nothing about orientations): no movable cell has orientation "
    "INVALID and a polarised cell already has the orientation cellOrientationInRow prescribes in its segment; the harness' "
    "legal placements satisfy it (outputs of legalize, and constructed ones carry the row-demanded orientation).",
    "'legalizing twice = legalizing once' IS proved for arbitrary input positions (legalize_twice: C01.Dom, all movable cells one "
    "row high, exact key, 0<=orderingWidth<=1: if the first call returns c' the second returns c' again; the first result is "
    "shown to be in the domain, legal by C01's legalize_legal, and orientation-legal); for the compiled binary32 key the same "
    "order-keeping hypothesis as above is needed on the first result (legalize_twice_any_key).",
]
ASSUMPTIONS = [
    "same model and assumptions as C01 (lean/ColoVerif/Model/Legalize.lean)",
    "legal placement = positions legal by the independent oracle and polarised cells carry the orientation their row demands",
    "KF-C11-1 classifier: the run's legalization.orderingWidth is outside [0,1]",
]
LEVEL_TEXT = ("Lean 4 theorems over the executable legalization model: circuit-level idempotence legalize p c = ok c for every legal "
              "single-row circuit of the C01 domain with orderingWidth in [0,1] (exact key; binary32 key under key exactness), built "
              "from order preservation of the ordering key (exact key, and non-inversion under any monotone rounding), the sorted-"
              "permutation property of computeCellOrder, abacus_keeps_own_row, zero-cost/no-move of RowLegalizer on conflict-free "
              "targets, and the kernel-evaluated negation for orderingWidth = 2 (KF-C11-1 witness, replayed on the code). Tied to Circuit::legalize by a differential stream of legal placements "
              "(legalize then legalize again) with parameters over the whole accepted range; the direct oracle compares x/y "
              "before and after on the real code")
LEVEL_NOTE = ("Trusted: Lean kernel (axioms propext/Classical.choice/Quot.sound only), the model's tie to the code (differential), "
              "unbounded Int, f32 model of binary32. Known finding KF-C11-1 (orderingWidth outside [0,1]) is classified, not fixed.")
TECHNIQUE = "Lean 4 proof + correspondence stream on legal placements + before/after oracle + known-finding classifier"
