"""C05 — detailed placement never worsens wirelength."""
# Properties/C05.lean consumes C09's theorems (incr_init, incr_inv, detailed_value_is_hpwl), whose closure contains the
# orientation tables regenerated from the C++ source
GEN = ["OrientTables"]
VARIANT = "san"
RULE = "see stats"
PARTIAL = [
    "KNOWN FINDING KF-C05-1 (open): the statement is false on the tree — HPWL can rise when a move re-orients a "
    "SAME/OPPOSITE cell, because IncrNetModel freezes pin offsets; proved as `hpwl_can_increase` (and, on the whole placer object with the maintained value(), `hpwl_can_increase_on_object`: bestInsert accepts the move, value() 10->8, hpwl 10->14) on a concrete witness, kept as "
    "`hpwl_monotone_full_statement` (a statement, not a theorem) and classified in the harness (previous-orientation / "
    "stale-offset recomputation); every other increase is a violation",
    "`hpwl_monotone_orient_kept` (alias `hpwl_monotone_partial`) is the proved part: along any history of moves accepted by the modelled rules for the REAL "
    "objective (circuitValue c = what DetailedPlacer::value()/valueOnSwap/valueOnInsert compute, by `placer_in_sync` and "
    "`optimiser_evaluates_circuit_value`), if the export of every state has the orientations the incremental models were built "
    "with, Circuit.hpwl of the export never increases and the first one is the legalized circuit's. It assumes `Inv s0` for "
    "the constructed placement (C02's inv_init, proved there only as `check() = true`; checked by `decide` in the example and "
    "by the C02 streams on explored runs)",
    "shift passes: optimality (hence value' <= value) of lemon NetworkSimplex is assumed, not proved: `Accepted.shift` carries "
    "value' <= value as a premise; the harness checks it on every logged shift of every explored run (shift_samples)",
    "RowReordering: the enumeration (runRegionChoice/runOrdering/next_permutation) is not modelled; `Accepted.reorder` takes the "
    "list of evaluated leaves as given, each with the value runOrdering reads at it (`FaithfulLeaf`: the objective with the "
    "registered cells at the leaf's positions), and models keep-best + write-back. Proved: whatever positions the enumeration "
    "left in the two incremental models (`Placer.dirty`), writeback re-synchronises them, and without a better leaf the object "
    "is equal to the one before the pass (`reorder_pass_from_dirty_models`). Not proved: that the C++ enumeration only "
    "evaluates leaves of that form — tied by the `val` line that follows every replayed reorder on explored runs",
    "the evaluation functions of the object model (Placer.valueOnSwap / valueOnInsert: update-read-restore; Placer.dirty / restore / "
    "reorderRun) are modelled from the source and proved to coincide with the pure acceptance rule and to restore the object; the "
    "driver executes only Placer.init/step/value/orientKept — candidate evaluations are not logged by hook H3, so their tie to the "
    "code is indirect (value() before and after every performed move is compared, and a performed move is one the scan accepted)",
    "that the optimiser's loops (runSwaps*, runShifts*, runReordering*) only perform the modelled primitive moves with "
    "candidates chosen by the modelled scan is tied by the hook-H3 history replay on explored runs (when the hook is compiled "
    "in), not proved for all inputs",
]
ASSUMPTIONS = [
    "lemon::NetworkSimplex returns optimal potentials (shift passes); checked per logged shift by the harness",
    "the DetailedPlacement constructed from a legalized circuit satisfies Inv (C02 inv_init; `check()` passes is proved)",
    "C++ int/long long arithmetic modelled as unbounded Int",
]
LEVEL_TEXT = ("Lean 4 theorems over the executable model of the whole DetailedPlacer object (DetPlace placement + the two C09 "
              "IncrNetModels, glued by updateCellPos as doSwap/doInsert/runShiftsOnCells/writeback do): after any move history both "
              "models are consistent and value() is a position-only function of the placement (`placer_in_sync`); valueOnSwap/"
              "valueOnInsert evaluate it at the candidate positions and restore the object exactly "
              "(`optimiser_evaluates_circuit_value`); RowReordering::writeback repairs the models its enumeration dirtied (`reorder_pass_from_dirty_models`); value() = Circuit.hpwl of the export while no orientation differs from "
              "construction (`value_eq_hpwl_if_orient_kept`, from C09 incr_init/incr_inv/detailed_value_is_hpwl); moves accepted by "
              "bestSwap/bestInsert/bestSwapUpdate strictly decrease it, RowReordering writes back only a strictly better leaf; hence "
              "HPWL is non-increasing along accepted histories that keep orientations (`hpwl_monotone_orient_kept`; partial: "
              "orientation-changing moves are the known finding KF-C05-1, shifts assume NetworkSimplex optimality).  Correspondence: "
              "H3 history replay on that model with value()/hpwl()/orientation flag compared at every primitive move and callback.  "
              "Direct oracles on the real code: Circuit::hpwl() at successive Detailed callbacks and on return with the KF "
              "classifier; DetailedPlacer::value() == Circuit::hpwl() whenever no orientation changed; no shift increases value()")
LEVEL_NOTE = ("Trusted: Lean kernel; the hand-written models tied to the C++ by the C02 primitives stream, the C09 IncrNetModel stream "
              "and the H3 history replay with per-step value/hpwl comparison; lemon NetworkSimplex; the harness' classifier for KF-C05-1.")
TECHNIQUE = "Lean 4 proof over the placer-object model (placement + incremental nets) + end-to-end HPWL/value oracles with known-finding classifier + history replay"
