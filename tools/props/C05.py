"""C05 — detailed placement never worsens wirelength."""
VARIANT = "san"
RULE = "see stats"
PARTIAL = [
    "KNOWN FINDING KF-C05-1 (open): the statement is false on the tree — HPWL can rise when a move re-orients a "
    "SAME/OPPOSITE cell, because IncrNetModel freezes pin offsets; proved as `hpwl_can_increase` on a concrete witness and "
    "classified in the harness (previous-orientation / stale-offset recomputation); every other increase is a violation",
    "`hpwl_monotone_partial` covers histories of swap/insert/reorder moves accepted by the modelled acceptance rule for a "
    "value that depends on the cell positions only (what IncrNetModel computes); that this value equals Circuit::hpwl() "
    "while no orientation differs from the one at construction is C09's theorem, not re-proved here",
    "shift passes: optimality (hence value' <= value) of lemon NetworkSimplex is assumed, not proved; the theorem takes "
    "value' <= value of each shift as a hypothesis; on explored runs the direct oracle checks Circuit::hpwl() at every callback",
    "that the optimiser's loops (runSwaps*, runShifts*, runReordering*) only perform the modelled primitive moves is tied by "
    "the hook-H3 history replay on explored runs (when the hook is compiled in), not proved for all inputs",
]
ASSUMPTIONS = [
    "lemon::NetworkSimplex returns optimal potentials (shift passes)",
    "IncrNetModel::value() is a function of the current cell positions only (C09 ties it to Circuit::hpwl under frozen orientations)",
    "C++ int/long long arithmetic modelled as unbounded Int",
]
LEVEL_TEXT = ("Lean 4 theorems over the executable DetPlace model: positions after swap/insert are exactly the ones the optimiser "
              "evaluated (positionsOnSwap/positionOnInsert), so a move accepted by bestSwap/bestInsert/bestSwapUpdate strictly "
              "decreases any position-only value; RowReordering writes back only a strictly better evaluated leaf and otherwise "
              "leaves the placement untouched; monotonicity along histories follows (partial: orientation-changing moves are the "
              "known finding KF-C05-1, shifts assume NetworkSimplex optimality).  Direct oracle on the real code: Circuit::hpwl() "
              "at successive Detailed callbacks and on return, all parameter sets, with the KF classifier")
LEVEL_NOTE = ("Trusted: Lean kernel; the hand-written model tied to the C++ by the C02 primitives stream and the H3 history replay; "
              "lemon NetworkSimplex; the harness' classifier for KF-C05-1.")
TECHNIQUE = "Lean 4 proof over the move model + end-to-end HPWL oracle with known-finding classifier + history replay"
