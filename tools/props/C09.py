"""C09 — wirelength is geometrically exact and incrementally consistent."""
GEN = ["OrientTables", "GeomFns"]
VARIANT = "san"
RULE = ("case = circuit (vc::genCircuit plus extra nets, or own generator: pins inside/on/outside the outline, repeated cells, "
        "same pin twice, fixed-only, empty and single-pin nets, zero-size cells, cells at +-10^6) + op sequence (orientation sweep "
        "over all 8 orientations, full and subset x/y IncrNetModels, <= 30 position updates, checks, subset rebuilds); "
        "non-trivial = some net spans >= 2 distinct pin positions and at least one update changed a model's value(); see stats")
PARTIAL = [
    "all clauses of the statement are proved in Lean for the model (pin_offset_geometric, hpwl_is_bbox_sum, incr_init, incr_inv "
    "for every circuit, every subset list, every update sequence; placer_value_is_incremental for the pair of models DetailedPlacer "
    "holds); what is NOT a theorem: the model = code tie (differential stream, bounded by the generator) and, for the incremental model, C++ int "
    "overflow beyond the C07 domain (IncrNetModel: positions within +-2^23, proved in C07's incrnet_*_no_fault).  For "
    "Circuit::hpwl() itself overflow freedom IS a theorem: hpwl_no_overflow (checked twin Checked.hpwlC of the expression tree = "
    "unbounded model on HpwlDom: cell origins within +-8*10^8, sizes/offsets within +-10^8, <= 2^30 nets; the twin is executed "
    "against the real function under UBSan on the h<k> cases, whose coordinates reach +-8*10^8 and, for the predicted-fault side, +-2*10^9)",
    "pin_offset_geometric / hpwl_is_bbox_sum assume cell sizes >= 0 and one of the eight orientations (CellsOk); for negative "
    "sizes or INVALID/UNKNOWN orientations the geometric specification is not defined and nothing is claimed",
    "DetailedPlacer::value() is observed on the real optimiser object (construction, primitive moves through hook H3, callbacks, "
    "end of run(); both complete models dumped at the end) and tied to PlacerModels (constructor, updateCellPos, value) by feeding the "
    "Lean model the position changes read from xtopo_/ytopo_; which updateCellPos calls the optimiser issues between two observations "
    "(including the tentative update/revert pairs of valueOnSwap/valueOnInsert and RowReordering's enumeration) is not modelled here "
    "(C05 models the moves) — the theorem covers every such history, the stream compares the net effect; without hook H3 in the tree "
    "only construction, callbacks and the end are observed",
    "geometry_layer_translated ties the BODIES of Circuit::placedWidth / placedHeight / pinXOffset / pinYOffset / placement / x / y / "
    "orientation / area, isTurn and Rectangle(int,int,int,int) to the hand-written Cell.* / Circuit.pinXOffset / pinYOffset "
    "(Gen/GeomFns.lean is regenerated from the clang AST on every run and proved equal, as functions, to the model); geometry_loops_translated does the same for the "
    "nested loops of Circuit::hpwl() (generated List.foldl's with the INT_MAX / INT_MIN sentinels of std::numeric_limits<int>): equal to "
    "Circuit.hpwl when every pin position is a C++ int (GeomTie.PinsInInt, implied by Checked.HpwlDom) - beyond that range the "
    "unbounded-Int reading of the sentinels differs from the model and nothing is claimed; NOT derived: the representation map "
    "array-of-fields / CSR arrays <-> Cell / Pin / Net records (nbNets(), nbPinsNet(net), pinCell(net,i) as list lengths / lookups), "
    "which the translator states",
    "orientation-changing moves are outside IncrNetModel's documented scope (pin offsets are frozen at build time): the "
    "invariant is about position updates, and the dprun oracle compares value() with the from-scratch HPWL under the offsets of "
    "the construction-time orientations; the consequence for detailed placement is known finding KF-C05-1 (C05)",
]
ASSUMPTIONS = [
    "C++ int / long long arithmetic modelled as unbounded Int (the streams keep positions within +-10^6 and offsets within "
    "+-10^4 and run under UBSan, so no signed overflow occurs on the explored inputs)",
    "the INT_MAX / INT_MIN sentinels of the min/max loops (Circuit::hpwl, IncrNetModel::computeNetMinMaxPos, x/yTopology's "
    "minFixed/maxFixed) are modelled as the default returned for an empty list; unobservable because "
    "IncrNetModelBuilder::addNet drops nets with <= 1 pin, Circuit::hpwl skips empty nets and the fixed pseudo-pins are only "
    "pushed when hasFixed",
    "the std::unordered_map cell mapping of x/yTopology(circuit, cells) is modelled as a last-occurrence lookup in the list; "
    "the C++ asserts that the list has no duplicates and the harness only builds subsets of distinct cells",
    "position updates are orientation-preserving (the documented scope of IncrNetModel): orientations are changed before a "
    "model is built, never between build and updateCellPos",
]
LEVEL_TEXT = ("Lean 4 theorems over an executable model of Circuit::hpwl / pinXOffset / pinYOffset / placedWidth / placedHeight "
              "(with the orientation tables AND the whole bodies of placedWidth / placedHeight / pinXOffset / pinYOffset / placement regenerated "
              "from the C++ source on every run and proved equal to the hand-written shared model: geometry_layer_translated) and of IncrNetModel (builder, both CSR "
              "directions, finalize, updateCellPos, recomputeNet, x/yTopology over all cells and over subsets with the fixed "
              "pseudo-pin folding; the xtopo_/ytopo_ pair of DetailedPlacer with its constructor, updateCellPos and value()): the code's pin offsets and placed sizes equal the dihedral-group geometry for all 8 "
              "orientations and all integers, hpwl is the sum of the nets' bounding-box half-perimeters, and the incremental value "
              "equals its from-scratch recomputation initially and after any update sequence (also for DetailedPlacer::value(), which is "
              "Circuit::hpwl right after construction); finalize's cell->pin table (cellNets_ and cellPinOffsets_) is the exact transpose "
              "of the net->pin table for every built model. The model is tied to the C++ by a "
              "line-for-line differential stream (random circuits x all orientations x random update histories, full and subset "
              "models, complete CSR dumps; the real DetailedPlacer object constructed and run on legalized circuits, value() compared at "
              "construction, at primitive moves, callbacks and the end), and an independent geometric oracle in the harness evaluates the property statement "
              "on the real code for every compared state")
LEVEL_NOTE = ("Trusted: Lean kernel (axioms propext/Classical.choice/Quot.sound only), the hand-written model's tie to the code "
              "(differential, bounded by the generator), tools/translate.py for Gen/OrientTables and Gen/GeomFns (incl. its stated representation map "
              "cellX_[cell] = (cell record).x, pin arrays = Pin record), unbounded Int for C++ int, "
              "list lookup for std::unordered_map.")
TECHNIQUE = ("Lean 4 proof (case analysis over the 8 orientations, induction over nets and over update sequences) + translated "
             "orientation tables + model/implementation correspondence stream + independent geometric HPWL oracle")
