"""C16 — density bins account for all free area; every cell is in exactly one bin."""
VARIANT = "san"
# the skeleton steps are private members of DensityLegalizer (rebisect, reoptimize, improveRectangle,
# improveX/YTransport); the harness reaches them without touching the sources
HARNESS_FLAGS = ("-fno-access-control",)
RULE = "see stats"
TIMEOUT = {"quick": 900, "thorough": 3 * 3600, "search": 1800}
PARTIAL = [
    "rough-legalization passes: the theorem `alloc_inv` covers every sequence of refine/coarsen and *skeleton* steps "
    "(`redistribute` and its instances rebisect/reoptimize/improveX/YTransport for every permutation, split index and "
    "assignment vector).  That the real `rebisect`/`reoptimize`/`improveRectangle`/`improveX/YTransport` are instances of "
    "the skeletons is not proved for all inputs: it is checked on every explored call (the permutation/split/assignment is "
    "read off the real result and the Lean skeleton must reproduce the resulting state exactly, bin contents in order and "
    "cellBinX/Y), and by the code's own check() asserts, which are compiled in.",
    "public passes run/runCoarsening/runRefinement/refine/improve (whose internal sequence of reoptimize calls is not "
    "observable without a hook): only the snapshot after the pass is checked (Lean `allocOkB` on the snapshot + the direct "
    "oracle), on explored runs.",
    "reported coordinates inside the bin (`spreadCoordX/Y`, float): owned by C06 (`spread_inside` over Rat); here it is "
    "evaluated by the direct oracle on every explored state (closed interval, binary32 as computed by the code).",
    "`capacity = free row area`: proved as capacity = sum over the given regions of area(region ∩ bin) and Σ bins = Σ "
    "region areas (`capacity_conserved`, `ofRegions_ok`); that the regions handed over by fromIspdCircuit are the free row "
    "segments (boost::polygon, C15's `computeRows`) minus the margin is tied by the correspondence and evaluated independently "
    "(1-D interval code, no boost) by the direct oracle.  binary32 `sideMargin*minCellHeight` / `sizeFactor*minCellHeight` are "
    "modelled exactly (round-to-nearest-even 24-bit product, then truncation) and compared on every circuit case.",
]
ASSUMPTIONS = [
    "fromIspdCircuit fallback (fix 9a57cdd): when the side margin removes every row the grid is built from the free rows without "
    "margin, and from the circuit's whole placement area when no free row exists; in these cases (counted: grid_fallback_*) "
    "'free row area after the side margin' is read as that documented fallback region, by the model and by the oracle",
    "C++ int/long long modelled as unbounded Int (generator keeps i*(max-min) of computeSubdivisions and all areas far below 2^31 / 2^63; UBSan is on)",
    "sideMargin >= 0 (not validated by RoughLegalizationParameters::check; a negative margin makes clipped rows overlap, outside 'free row area')",
    "binSize >= 1 after truncation (check() demands binSize >= 1.0 and there is a cell of positive height); |minCellHeight| < 2^24 so int->float is exact",
    "regions are rectangles with min <= max (inverted rectangles are outside the statement); overlapping regions are exercised for the correspondence only",
    "coordinate clause: on an axis where the whole placement area has zero extent (min == max; reachable only through "
    "DensityGrid(binSize, regions) with degenerate rectangles, never through fromIspdCircuit) the binary32 combination "
    "dem*max + (1-dem)*min can be one ulp away from max == min (observed: area x in [20,20], spreadCoordX = 20.000002); that axis "
    "is skipped by the oracle and counted (coords_axis_skipped_zero_extent_area)",
    "float passes (rebisect/reoptimize/transport/run) are not driven on degenerate grids (zero width/height or zero total capacity), where the code divides by the extent",
]
LEVEL_TEXT = ("Lean 4 theorems over an executable model of computeSubdivisions, DensityGrid (limits, capacities as sums of rectangle "
              "intersections, fromIspdCircuit incl. exact binary32 margin/bin-size products), the refinement hierarchy and "
              "HierarchicalDensityPlacement (refine/coarsen/setBinCells, cellBinX/Y), plus parametric skeletons of the rough-legalizer "
              "redistribution steps; the model is tied to the C++ by an exact differential stream (limits, capacities, hierarchy levels, "
              "every allocation after every step) and the property statement itself is evaluated by independent C++ on every explored state")
LEVEL_NOTE = ("Trusted: Lean kernel (axioms propext/Classical.choice/Quot.sound only), the hand-written model's tie to the code "
              "(differential, bounded by the generator), unbounded Int for C++ int, the skeleton abstraction of the float-driven passes "
              "(checked per explored call, not proved).")
TECHNIQUE = "Lean 4 proof (partition sums, induction over op lists) + model/implementation correspondence stream + independent oracle"
