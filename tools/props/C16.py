"""C16 — density bins account for all free area; every cell is in exactly one bin."""
GEN = ["GeomFns"]
VARIANT = "san"
# the skeleton steps are private members of DensityLegalizer (rebisect, reoptimize, improveRectangle,
# improveX/YTransport); the harness reaches them without touching the sources
HARNESS_FLAGS = ("-fno-access-control",)
RULE = "see stats"
TIMEOUT = {"quick": 900, "thorough": 3 * 3600, "search": 1800}
import os as _os


def _has_h4():
    """is the op-log hook H4 (fixes/hook-h4-density-legalizer-oplog.diff) present in the tree under check?"""
    try:
        hdr = _os.path.join(_os.environ.get("VERIF_REPO", "/repo"), "src", "place_global", "density_legalizer.hpp")
        return "COLOQUINTE_VERIF_HAS_H4" in open(hdr).read()
    except OSError:
        return False


HAS_H4 = _has_h4()
_PASSES_H4 = (
    "public passes run/runCoarsening/runRefinement/refine/improve: their integer control flow — which bin groups are "
    "visited and in which order (square/line/diagonal windows with the sizes, strides and overlaps of the parameters, "
    "neighbour pairs after refinement, level changes) — is modelled in Lean (`Model/GridSched.lean`, `passCalls`) with holes "
    "only for the float-dependent choices (sort order/split of rebisect, assignment of reoptimize/transport, the doX/doY "
    "decisions of runCoarsening's first loop), and `schedule_ops_preserve_alloc` proves the allocation invariant after every "
    "schedule for every filling of the holes.  That the real passes follow this hand-written schedule model is not proved for "
    "all inputs: the op-log hook H4 (present in this tree) logs every private rebisect/reoptimize/improveX/YTransport call "
    "(nested calls included) and every level change of a pass, and on every explored pass the Lean driver checks call by call "
    "that the logged call with its bin arguments is the next one of the schedule, that the numbers of calls and of coarsening "
    "decisions agree, and that the skeleton of the *scheduled* call with the observed permutation/split/assignment reproduces "
    "the touched bins and their cellBinX/Y exactly (the whole allocation after transports, level changes and at the end of "
    "the pass); counted: pass_calls_checked_against_schedule.")
_PASSES_NO_H4 = (
    "public passes run/runCoarsening/runRefinement/refine/improve: their integer control flow is modelled in Lean "
    "(`Model/GridSched.lean`, `passCalls`) and `schedule_ops_preserve_alloc` proves the allocation invariant after every schedule "
    "for every filling of the float-dependent holes, BUT the tree under check does not contain the op-log hook H4 "
    "(fixes/hook-h4-density-legalizer-oplog.diff, not applied), so the internal sequence of calls is not observable and the "
    "schedule model is not tied to this tree: only the snapshot after each pass is checked (Lean `allocOkB` on the snapshot + the "
    "direct oracle), on explored runs (counted: pass_checked_by_snapshot_only).  With the hook applied every call of every "
    "explored pass is checked against the schedule (see the hook's .msg).")
PARTIAL = [
    "geometry_layer_translated: the shared Rect / Cell geometry this model is written in (Rectangle ctor / width / height / area / intersects / intersection, isTurn, isFixed / isObstruction / placedWidth / placedHeight / placement / area, the loop of Circuit::rowHeight for every circuit, the loop of Circuit::computePlacementArea for row coordinates within the int range (its INT_MAX / INT_MIN sentinels)) is regenerated from the clang AST of the C++ function bodies on every run (Gen/GeomFns.lean) and proved equal to the hand-written definitions; the translator's representation map (array-of-fields <-> Cell record, rows_ <-> list of Row) is stated, not derived; this is a tie, not a clause of the property",
    "rough-legalization calls: the theorem `alloc_inv` covers every sequence of refine/coarsen and *skeleton* steps "
    "(`redistribute` and its instances rebisect/reoptimize/improveX/YTransport for every permutation, split index and "
    "assignment vector).  That the real `rebisect`/`reoptimize`/`improveRectangle`/`improveX/YTransport` are instances of "
    "the skeletons is not proved for all inputs: it is checked on every explored call — direct calls of the private members"
    + (" and every call made inside a public pass" if HAS_H4 else "") +
    " (the permutation/split/assignment is read off the real result and the Lean skeleton must reproduce the resulting state "
    "exactly, bin contents in order and cellBinX/Y), and by the code's own check() asserts, which are compiled in.",
    _PASSES_H4 if HAS_H4 else _PASSES_NO_H4,
    "demand updates on a live placement (`updateCellDemand(circuit)` accepted / refused with the exception caught, "
    "`updateCellDemand(vector)`): not part of the Lean theorems (`alloc_inv` is stated for a fixed demand vector); the Lean driver "
    "models the call branch for branch (`updemand`: a change to/from zero is refused and nothing is written; `setdemand`) in the "
    "differential stream, and the direct oracle evaluates the statement (allocation, demand totals, coordinates) with the demands the "
    "object reports right after each update — at every stage of the object's life — and through the steps that follow it, on "
    "explored histories only (counted: update_circuit_accepted, update_circuit_refused_(exception_caught), update_refused_area_*, "
    "update_refused_then_*, update_vector_overload_accepted, update_on_fresh_placement / update_after_*).",
    "reported coordinates inside the bin (`spreadCoordX/Y`, float): owned by C06 (`spread_inside` over Rat); here it is "
    "evaluated by the direct oracle on every explored state (closed interval, binary32 as computed by the code).",
    "`capacity = free row area`: proved in Lean for every circuit whose rows have the C01 domain shape (`RowsDom`: uniform positive "
    "row height, rows pairwise non-intersecting, non-empty x-ranges) and sideMargin >= 0 (`circuit_grid_capacity_is_free_area`): the "
    "regions fromIspdCircuit builds from the model's `computeRows` (C15) are valid, pairwise disjoint and inside the limits, total "
    "capacity = sum of the clipped free segments' areas, bin capacity = number of unit squares of the bin inside a clipped free "
    "segment.  Not proved: (i) that the code's fromIspdCircuit / boost::polygon computeRows compute the model's regions — tied by the "
    "exact differential stream (limits, capacities, margins) here and by C15's correspondence, and evaluated independently (1-D "
    "interval code, no boost) by the direct oracle; (ii) circuits outside RowsDom (counted: circuit_rows_outside_theorem_domain) and "
    "grids built from arbitrary region lists: only `capacity_conserved` (capacity = sum over regions of area(region ∩ bin), "
    "overlapping regions counted with multiplicity) plus the oracle on explored cases.  binary32 `sideMargin*minCellHeight` / "
    "`sizeFactor*minCellHeight` are modelled exactly (round-to-nearest-even 24-bit product, then truncation) and compared on every "
    "circuit case.",
]
ASSUMPTIONS = [
    "fromIspdCircuit fallback (fix 9a57cdd): when the side margin removes every row the grid is built from the free rows without "
    "margin, and from the circuit's whole placement area when no free row exists; in these cases (counted: grid_fallback_*) "
    "'free row area after the side margin' is read as that documented fallback region, by the model and by the oracle",
    "C++ int/long long modelled as unbounded Int (generator keeps i*(max-min) of computeSubdivisions and all areas far below 2^31 / 2^63; UBSan is on)",
    "sideMargin >= 0 (not validated by RoughLegalizationParameters::check; a negative margin makes clipped rows overlap, outside 'free row area')",
    "binSize >= 1 after truncation (check() demands binSize >= 1.0 and there is a cell of positive height); |minCellHeight| < 2^24 so int->float is exact",
    "regions are rectangles with min <= max (inverted rectangles are outside the statement); overlapping regions are exercised for the correspondence only",
    "coordinate clause: on an axis where the whole placement area has zero extent (min == max; reachable only through "
    "DensityGrid(binSize, regions) with degenerate rectangles, never through fromIspdCircuit) the binary32 combination "
    "dem*max + (1-dem)*min can be one ulp away from max == min (observed: area x in [20,20], spreadCoordX = 20.000002); that axis "
    "is skipped by the oracle and counted (coords_axis_skipped_zero_extent_area)",
    "float passes (rebisect/reoptimize/transport/run) are not driven on degenerate grids (zero width/height or zero total capacity), where the code divides by the extent",
]
LEVEL_TEXT = ("Lean 4 theorems over an executable model of computeSubdivisions, DensityGrid (limits, capacities as sums of rectangle "
              "intersections, fromIspdCircuit incl. exact binary32 margin/bin-size products), the refinement hierarchy and "
              "HierarchicalDensityPlacement (refine/coarsen/setBinCells, cellBinX/Y), plus parametric skeletons of the rough-legalizer "
              "redistribution steps and a schedule model of the public passes' integer control flow (which bin groups, in which order); "
              "fromIspdCircuit's regions are proved valid/disjoint/inside the limits on top of C15's interval lemmas; the model is tied to the C++ by an exact differential stream (limits, capacities, hierarchy levels, "
              "every allocation after every step; with the op-log hook H4 every private call of every public pass against the schedule) and the property statement itself is evaluated by independent C++ on every explored state")
LEVEL_NOTE = ("Trusted: Lean kernel (axioms propext/Classical.choice/Quot.sound only), the hand-written model's tie to the code "
              "(differential, bounded by the generator), tools/translate.py + clang-14 AST for Gen/GeomFns (shared geometry layer, rowHeight, "
              "computePlacementArea, proved equal to the hand-written ones: geometry_layer_translated), unbounded Int for C++ int, the skeleton abstraction of the float-driven passes "
              "(checked per explored call, not proved), the hand-written schedule model of the passes (checked per explored call through hook H4 "
              "when the tree has it, otherwise not tied).")
TECHNIQUE = "Lean 4 proof (partition sums, induction over op lists) + model/implementation correspondence stream + independent oracle"
