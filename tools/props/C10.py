"""C10 — busy-circuit protocol and exception safety of placement calls."""
VARIANT = "san"
GEN = ["Api"]
RULE = "see stats"
PARTIAL = [
    "`failed_legalize_unchanged` (a legalization that failed left the placement exactly as it was) is a theorem of the "
    "legalizer model (C01's builder: DetailedPlacer::legalize exports only after Legalizer::run returned); here it is "
    "covered by the direct oracle only (infeasible circuits: placement and every member compared before/after).",
    "'the circuit is internally consistent' after a call is checked by the oracle (Circuit::check() + all structural "
    "setters accepted + a further placement call); the IR abstracts the circuit to its write history, so consistency of "
    "the member vectors is not a theorem.",
    "The theorems cover callbacks that invoke Circuit setters and/or throw.  A callback that re-enters a placement call on "
    "the same circuit is outside the modelled traces (after the inner call returns the flag is clear although the outer "
    "call is still running); not exercised by the harness either.",
    "That the placers only mutate the circuit through the translated statements (no other writer of isInUse_) rests on "
    "the translator's member scan of src/coloquinte.cpp: every non-const void method of Circuit must be in its list.",
]
ASSUMPTIONS = [
    "the stage (GlobalPlacer::place, DetailedPlacer::legalize/place) is modelled as an arbitrary trace of callbacks, each "
    "running any setters with any arguments and possibly throwing, and may itself throw after any prefix; it does not touch "
    "isInUse_ (grep: the flag is written only in Circuit's constructor and the scope guard)",
    "C++ exception semantics of a local object's destructor (stack unwinding) as modelled by `scopeGuard`",
]
LEVEL_TEXT = ("Lean 4 theorems over the statement skeletons of the seven structural setters and the three placement calls, "
              "regenerated from src/coloquinte.cpp by tools/gen/Api.py on every run, under an operational semantics with "
              "exceptions and scope guards (all callback traces, all throw points, all arguments); the semantics is tied to "
              "the code by replaying every observed trace (callback throwing at every index of every stage, invalid "
              "parameters, infeasible legalization) through the model and diffing setter outcomes and the in-use flag")
LEVEL_NOTE = ("Trusted: Lean kernel (axioms propext/Classical.choice/Quot.sound), tools/gen/Api.py + clang-14 AST (the "
              "translation of the setter bodies and of the RAII guard class), the abstraction of a stage to a callback trace.")
TECHNIQUE = "Lean 4 proof over translated IR (decidable syntactic conditions + generic semantic lemmas) + trace correspondence"
