"""C10 — busy-circuit protocol and exception safety of placement calls."""
VARIANT = "san"
GEN = ["Api", "ApiExpansion", "ApiSizes", "WriteSets"]
RULE = "see stats"
PARTIAL = [
    "`failed_legalize_leaves_placement` (third clause) is C01's `failed_legalize_unchanged` restated: a theorem about the "
    "legalization model `legalizeWith`/`legalizeInPlace` that drv_C01 executes against Circuit::legalize (the model returns the "
    "input circuit on every error: parameter check, Tetris/Abacus failure, unplaced cell — all raised before exportPlacement). "
    "That the C++ really raises every failure before it exports is the tie: C01's correspondence plus, here, the direct oracle on "
    "infeasible circuits (too dense; one unplaceable cell of 8 kinds between movable off-grid cells of lower and higher index; "
    "legalize and the legalization step of placeDetailed): placement and every member compared before/after.  The failing "
    "legalization inside placeDetailed is covered by the oracle and by C19's `rejected_before_work`/entry-point IR "
    "(DetailedPlacer::place starts with DetailedPlacer::legalize), not by a separate theorem.",
    "'the circuit is internally consistent' is a theorem for the SIZES of the member vectors: `SizesConsistent` (the eight "
    "per-cell vectors have nbCells() entries; netLimits_ non-empty, one weight per net, the three per-pin vectors have "
    "netLimits_.back() entries) is established by the constructor (`constructor_sizes_consistent`), preserved by every setter "
    "and expansion method for all arguments whether it returns or throws (`setter_preserves_sizes`) and holds after any history "
    "of public API calls incl. refused calls, callbacks and nested placement calls to any depth "
    "(`sizes_consistent_after_any_history`); the 12 size clauses of Circuit::check() follow (`check_size_clauses_hold`, clauses "
    "and the inline getters translated from the source).  The effect of each member write on the member's length is "
    "regenerated from the AST (tools/gen/ApiSizes.py -> Gen/ApiSizes.lean, tied to Gen/Api by `sized_tables_erase_to_api`) and "
    "executed by drv_C10 against the real member sizes for every setter call of every trace (`szset` lines).  The VALUE clauses "
    "of consistency — netLimits_.front() == 0 (the 13th clause of check()), netLimits_ non-decreasing and ending at "
    "pinCells_.size(), every pin naming an existing cell, offset and weight vectors of matching length — are theorems over the "
    "hand-written value model Model/NetsValue.lean of the constructor, addNet and setNets (`nets_wf_after_any_history`, "
    "`check_front_clause_holds`, `net_getters_in_range`: every index the inline getters nbPinsNet/pinCell/pinXOffset compute is in "
    "bounds and every pinCell is a cell, after ANY history of accepted and refused calls); that model is tied by the `nv*` "
    "correspondence (three histories per instance, valid calls and calls malformed in one of 12 ways; both arrays and three "
    "lengths compared after every call) and is NOT regenerated from the source.  Outside it: the nets as the placers see them "
    "(they do not write the net arrays: Gen/WriteSets).  NOT a theorem: (b) that the placers "
    "change no length rests on `placer_writes_keep_lengths` over Gen/WriteSets (every write site reachable from a placement "
    "call is an element write `m[i] = ..`, a scalar flag, or the in-use guard) — the step 'an element write cannot change "
    "size()' is C++ semantics, and the completeness of the site scan is tools/gen/WriteSets.py's (trusted as for C03); (c) the "
    "hypothesis `ArgsOk` (a vector argument has size() >= 0) is a representation invariant of `Arg.len : Int`, not a restriction; "
    "(d) 'all structural setters accepted again + a further placement call runs' remains an oracle (the flag part is "
    "`busy_released`).",
    "The size theorems `constructor_sizes_consistent`/`setter_preserves_sizes` are proved by one uniform tactic block per table "
    "entry (unfold the generated body, case split on every check, `omega`), not by a decidable syntactic condition: a source "
    "change that keeps the invariant but needs non-linear reasoning would make the proof fail (reported as a broken tie, with "
    "the harness searching for a concrete input) rather than be re-proved automatically.",
    "Nested placement calls (a callback calling placeGlobal/legalize/placeDetailed on the same circuit) are inside the modelled "
    "traces, to any depth: `busy_in_every_callback`, `nested_call_keeps_busy`, `placement_runs_stage_busy` need the re-entrant "
    "guard (fixes/c10-inuse-guard-reentrant.diff); on a tree whose guard clears the flag unconditionally these three theorems "
    "fail to build and the oracle reports the concrete input (known pre-fix shape: Model/LegacyBusy.lean "
    "`nested_call_releases_outer_flag`).  What a nested call does to the *placement result* of the outer call is outside C10.",
    "That the placers only mutate the circuit through the translated statements (no other writer of isInUse_) rests on "
    "the translator's member scan of src/coloquinte.cpp: every non-const void method of Circuit must be in its list.",
]
ASSUMPTIONS = [
    "sizes: `member[i] = x` does not change `member.size()`; `v = w` gives v the size of w; push_back/insert(end, first, last)/"
    "clear/resize have their std::vector size semantics (tools/gen/ApiSizes.py maps each recognised shape to its length effect "
    "and raises TranslateError or emits `anyLen` on anything else)",
    "the stage (GlobalPlacer::place, DetailedPlacer::legalize/place) is modelled as an arbitrary trace (Model/Busy.lean `Tr`) of "
    "callbacks, each running any setters with any arguments and any nested placement calls (whose stage is again an arbitrary "
    "trace) and possibly throwing, and may itself throw after any prefix; it does not touch isInUse_ (grep: the flag is written "
    "only in Circuit's constructor and the scope guard)",
    "C++ exception semantics of a local object's destructor (stack unwinding) as modelled by `scopeGuard` (destructor clears) / "
    "`restoreGuard` (destructor restores the value saved by the constructor)",
]
LEVEL_TEXT = ("Lean 4 theorems over the statement skeletons of the seven structural setters and the three placement calls, "
              "regenerated from src/coloquinte.cpp by tools/gen/Api.py on every run, under an operational semantics with "
              "exceptions and scope guards (all callback traces incl. nested placement calls to any depth, all throw points, all "
              "arguments) + C01's theorem that a failed legalization returns the input circuit; the semantics is tied to "
              "the code by replaying every observed trace (callback throwing at every index of every stage, invalid "
              "parameters, infeasible legalization, nested calls from every callback index) through the model and diffing setter "
              "outcomes and the in-use flag after every call, nested or not; direct oracle incl. all members compared after "
              "failed legalizations of nine infeasible shapes.  Sizes: theorems over Gen/ApiSizes (length effect of every "
              "member write of every setter, of the constructor and of the expansion API, regenerated from the AST) + "
              "Gen/WriteSets (placer write sites) that the size invariant holds after any history of API calls; the size "
              "semantics is executed by the driver for every observed setter call (outcome + 14 member lengths + "
              "netLimits_.back() compared with the real object); direct oracle after every setter call and every placement "
              "call, nested or not: every per-cell getter returns nbCells() entries")
LEVEL_NOTE = ("Trusted: Lean kernel (axioms propext/Classical.choice/Quot.sound), tools/gen/Api.py, ApiSizes.py, ApiExpansion.py, "
              "WriteSets.py + clang-14 AST (the "
              "translation of the setter bodies and of the RAII guard class: clearing -> scopeGuard, saving/restoring -> "
              "restoreGuard, anything else is an error), the abstraction of a stage to a trace; third clause: C01's model tie.")
TECHNIQUE = "Lean 4 proof over translated IR (decidable syntactic conditions + generic semantic lemmas) + trace correspondence"
