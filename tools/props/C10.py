"""C10 — busy-circuit protocol and exception safety of placement calls."""
VARIANT = "san"
GEN = ["Api"]
RULE = "see stats"
PARTIAL = [
    "`failed_legalize_leaves_placement` (third clause) is C01's `failed_legalize_unchanged` restated: a theorem about the "
    "legalization model `legalizeWith`/`legalizeInPlace` that drv_C01 executes against Circuit::legalize (the model returns the "
    "input circuit on every error: parameter check, Tetris/Abacus failure, unplaced cell — all raised before exportPlacement). "
    "That the C++ really raises every failure before it exports is the tie: C01's correspondence plus, here, the direct oracle on "
    "infeasible circuits (too dense; one unplaceable cell of 8 kinds between movable off-grid cells of lower and higher index; "
    "legalize and the legalization step of placeDetailed): placement and every member compared before/after.  The failing "
    "legalization inside placeDetailed is covered by the oracle and by C19's `rejected_before_work`/entry-point IR "
    "(DetailedPlacer::place starts with DetailedPlacer::legalize), not by a separate theorem.",
    "'the circuit is internally consistent' after a call is checked by the oracle (Circuit::check() + all structural "
    "setters accepted + a further placement call); the IR abstracts the circuit to its write history, so consistency of "
    "the member vectors is not a theorem.",
    "Nested placement calls (a callback calling placeGlobal/legalize/placeDetailed on the same circuit) are inside the modelled "
    "traces, to any depth: `busy_in_every_callback`, `nested_call_keeps_busy`, `placement_runs_stage_busy` need the re-entrant "
    "guard (fixes/c10-inuse-guard-reentrant.diff); on a tree whose guard clears the flag unconditionally these three theorems "
    "fail to build and the oracle reports the concrete input (known pre-fix shape: Model/LegacyBusy.lean "
    "`nested_call_releases_outer_flag`).  What a nested call does to the *placement result* of the outer call is outside C10.",
    "That the placers only mutate the circuit through the translated statements (no other writer of isInUse_) rests on "
    "the translator's member scan of src/coloquinte.cpp: every non-const void method of Circuit must be in its list.",
]
ASSUMPTIONS = [
    "the stage (GlobalPlacer::place, DetailedPlacer::legalize/place) is modelled as an arbitrary trace (Model/Busy.lean `Tr`) of "
    "callbacks, each running any setters with any arguments and any nested placement calls (whose stage is again an arbitrary "
    "trace) and possibly throwing, and may itself throw after any prefix; it does not touch isInUse_ (grep: the flag is written "
    "only in Circuit's constructor and the scope guard)",
    "C++ exception semantics of a local object's destructor (stack unwinding) as modelled by `scopeGuard` (destructor clears) / "
    "`restoreGuard` (destructor restores the value saved by the constructor)",
]
LEVEL_TEXT = ("Lean 4 theorems over the statement skeletons of the seven structural setters and the three placement calls, "
              "regenerated from src/coloquinte.cpp by tools/gen/Api.py on every run, under an operational semantics with "
              "exceptions and scope guards (all callback traces incl. nested placement calls to any depth, all throw points, all "
              "arguments) + C01's theorem that a failed legalization returns the input circuit; the semantics is tied to "
              "the code by replaying every observed trace (callback throwing at every index of every stage, invalid "
              "parameters, infeasible legalization, nested calls from every callback index) through the model and diffing setter "
              "outcomes and the in-use flag after every call, nested or not; direct oracle incl. all members compared after "
              "failed legalizations of nine infeasible shapes")
LEVEL_NOTE = ("Trusted: Lean kernel (axioms propext/Classical.choice/Quot.sound), tools/gen/Api.py + clang-14 AST (the "
              "translation of the setter bodies and of the RAII guard class: clearing -> scopeGuard, saving/restoring -> "
              "restoreGuard, anything else is an error), the abstraction of a stage to a trace; third clause: C01's model tie.")
TECHNIQUE = "Lean 4 proof over translated IR (decidable syntactic conditions + generic semantic lemmas) + trace correspondence"
