"""C17 — continuous wirelength solver honours real-valued net weights."""
VARIANT = "san"
GEN = ["NetWeightType"]
RULE = "see stats"
TIMEOUT = {"quick": 900, "thorough": 3 * 3600, "search": 1800}

PARTIAL = [
    "scaling invariance of the *solution*: proved is that the assembled system (A, b) scales entry by entry (assembly_homogeneous, "
    "all five assembly variants, penalties, all inputs, over Rat), that the *finalized* system handed to Eigen and observed by hook "
    "H2 keeps its regularisation entries and scales everywhere else (finalized_assembly_homogeneous), that those entries sit on "
    "rows that are otherwise empty with a zero right-hand side (regularisation_rows_inert) and hence that the finalized systems for "
    "W and k*W have the same solution set for k != 0 (finalize_scale_invariant, valid cell indices); that Eigen's conjugate "
    "gradient returns bitwise-equal iterates for 2^k factors and tolerance-close ones otherwise is NOT proved - it is checked on "
    "every generated instance by the direct oracle on the real solver (S2: bitwise, SN: derived tolerance). Note that a power-of-two "
    "factor changes the ratio between the assembled entries and the unscaled 1e-8 regularisation entries: exact solutions are "
    "unaffected (theorem), bitwise equality of CG iterates on systems with an untouched unknown is an oracle observation",
    "floating point inside the assembly: the model and all theorems are over exact rationals; float rounding of the weight "
    "arithmetic is not modelled. It is tied to the code by two correspondence streams through hook H2: exact on dyadic inputs (every "
    "float operation exact), and approximate on non-dyadic weights / strengths / eps / cutoff (pattern, dimensions and initial guess "
    "exact; every matrix entry within (1+2^-24)^K-1 relative, K = 1..3 rounded operations by variant, every rhs entry within "
    "(1+2^-24)^(K+1+n)-1 times the magnitude bound of its n summed terms - bounds derived from the operation count, not tuned; "
    "measured on the quick stream: with the matrix bound halved 30% of the cases fail, i.e. it is within a factor two of the "
    "observed rounding; the rhs bound, which uses the coarse magnitude bound D_r*5C for the summed terms, is 16..64 times above the "
    "observed error, still ~1e-5 relative). In the "
    "approximate stream pin positions are small multiples of 1/2 so that positions, distances and min/max selection are exact: "
    "rounding of *positions* on general inputs (which can change which pin is the extreme one) is covered by the oracles only",
    "least squares: proved (over Rat) for all five variants - initial star, B2B, star, clique, light star, any pin count - with or "
    "without penalty: the assembled system is the normal-equation system of the documented quadratic QModel + penQ with the "
    "real-valued weights (stiffnesses W * model constant / max(eps, |distance in pl|) frozen at the placement pl the model is built "
    "around), positive semidefinite, every exact solution minimises it (net_models_are_least_squares, net_model_solution_minimizes; "
    "hypotheses: valid cells, weights, strengths and eps >= 0), the quadratic is linear in the weights "
    "(model_quadratic_homogeneous), and a two-pin net is the single spring W/max(eps,|d|) in every model except B2B with coincident "
    "pins, where it is exactly twice that (two_pin_net_quadratic). The finalized system is the normal-equation system of the same "
    "quadratic plus 1e-8 * x_i^2 on the untouched unknowns (finalized_system_is_least_squares). NOT "
    "proved: that the real solver's output satisfies A x = b up to its tolerance (oracle LS compares the initial star solve with "
    "the minimiser of Q computed independently in double; the weight<1 gadget does the same for two-pin nets in all five variants; "
    "there is no direct least-squares oracle on the real solver for B2B/clique/star/light-star nets of more than two pins - for "
    "those the theorems plus the H2 correspondences carry the claim), and that the re-weighted iteration converges to the HPWL "
    "optimum (not part of the property)",
    "from the circuit to the solver: NetModel::xTopology/yTopology are modelled (NetTopology.topology: which nets are skipped, "
    "movable pins with centre offsets, fixed pins folded into clamped min/max, weight of each kept net) including the int -> float "
    "conversions ((float)pos, (float)areaMin/Max, offset - 0.5f*size rounded with the binary32 rounding Legalize.f32 of "
    "Model/Legalize.lean; exact below 2^24: topology_exact_below_2p24) and tied to the code by an exact correspondence of the "
    "stored net list on random circuits, small coordinates and coordinates / offsets / sizes of magnitude 2^22..2^26 where the "
    "conversions really round; proved for all circuits (over Rat): the explicit, order-preserving index map keptIdx, that exactly "
    "the degenerate nets are skipped, that the k-th stored net has the weight and pins of circuit net keptIdx[k], and the "
    "circuit-level least-squares statements for the initial star solve (circuit_star_is_least_squares, "
    "circuit_star_solution_minimizes), for two-pin circuits in the star / light-star models "
    "(circuit_two_pin_nets_are_least_squares) and for every variant with penalty (circuit_net_models_are_least_squares). NOT "
    "proved: overflow of int pos = x + offset (unbounded Int in the model; C07's subject), and that the real solver's output "
    "solves the system (oracle CL compares xTopology(c).solveStar()/yTopology(c).solveStar() with the optimum computed in double "
    "from the circuit's accessors, within a derived tolerance, on small coordinates)",
    "Circuit::placeGlobal end to end (penalty schedule, density legalisation between solves, exportPlacementX/Y rounding) is "
    "not modelled; a handful of forked placeGlobal runs per tier compare circuits differing by a common 2^k factor on net "
    "weights and initial penalty (oracle PG)",
]

ASSUMPTIONS = [
    "IEEE-754 binary32 arithmetic of the assembly (MatrixCreator) is modelled over Rat (exact); the exact correspondence is "
    "restricted to inputs on which the float computation is exact, the approximate one bounds the rounding by the standard model "
    "fl(a op b) = (a op b)(1+d), |d| <= 2^-24 (round to nearest, no underflow: weights >= 1e-3, distances <= 50)",
    "Eigen::ConjugateGradient (third party) is not modelled: assumed to stop with ||A x - b|| <= tolerance * ||b|| when it "
    "converges; the oracle's derived tolerance uses exactly this contract plus a 1e-5 relative slack for single-precision rounding",
    "the storage conversion of net weights is read from the declared element type of NetModel::netWeight_ (clang AST); any other "
    "place that could truncate a weight (there is none in the pinned tree: addNet takes float, netWeight() returns float) is "
    "covered by the correspondence and by the oracle, not by the translator",
    "int -> float conversions in xTopology/yTopology are binary32 round-to-nearest-even, one rounding per conversion and per "
    "float operation (x86-64 SSE, FLT_EVAL_METHOD 0, no FMA contraction); int pos = x + offset does not overflow",
    "the shared Circuit record (Model/Circuit.lean: pinXOffset/pinYOffset, placedWidth/Height, placementArea) is the one tied "
    "to Circuit's accessors by the other properties' correspondences and, here, by the topology stream itself",
]

EXTRA_TRUSTED = [
    "hook H2 (verif::onMatrixSolve) copies mat_/rhs_/initial_ faithfully just before Eigen runs",
    "Eigen::ConjugateGradient and IEEE-754 float arithmetic (not modelled)",
]

LEVEL_TEXT = (
    "Lean 4 theorems over an executable rational model of NetModel::addNet + MatrixCreator (all five assembly variants, penalty, "
    "finalize): homogeneity of the assembled and of the *finalized* system (the object hook H2 observes and Eigen receives) in net "
    "weights and penalty strengths, invariance of its solution set under a common non-zero factor (the 1e-8 regularisation entries "
    "are proved to sit on empty rows), and for every variant - initial star, B2B, star, clique, light star, with or without "
    "penalty - the system as the normal equations of the documented weighted quadratic (stiffnesses frozen at the current "
    "placement) with positive semidefinite matrix, solutions being global minimisers, the quadratic linear in the weights. The "
    "weight storage type is translated from the clang AST on every run and the theorems depend on it; the model is tied to the C++ "
    "through hook H2 by an exact triplet/rhs correspondence on dyadic inputs and by an approximate one on non-dyadic weights with a "
    "rounding bound derived from the float operation count; the real CG solver is checked by a scaling / least-squares oracle. The "
    "step from the Circuit to the NetModel (xTopology/yTopology) is modelled including the binary32 rounding of its int -> float "
    "conversions: theorems give the explicit order-preserving index map from stored nets to circuit nets with matching weights and "
    "pins and lift the least-squares statements to the circuit's own weights; tied by an exact net-list correspondence on random "
    "circuits with degenerate nets interleaved, at small coordinates and at 2^22..2^26, and checked on the real solver through "
    "the Circuit path (oracle CL). One case in three of that net-list correspondence and of CL hands the object its nets through a "
    "history of public net-setter calls on one Circuit (setNets with and without the weights argument incl. lists of another size, "
    "addNet before / after setNets, setNetWeights): the Lean model and the least-squares optimum are those of the nets the calls "
    "document, and the object's NetModel and its solves (initial and one refinement, against weights times 2^k) must equal those of "
    "a freshly built twin (oracle CH; a failing history is recorded in the replay and re-run alone by --replay).")
LEVEL_NOTE = (
    "Partial: weight arithmetic over Rat, not floats (bounded by the approximate stream only on inputs with exact positions); CG "
    "convergence and Eigen are outside the proof (oracle only); placeGlobal end-to-end (beyond xTopology/yTopology and the single "
    "solves) not covered by theorems. Trusted: Lean kernel, translator + clang AST for the storage type, hook H2, "
    "the harness' dense double-precision reference solver.")
TECHNIQUE = ("Lean 4 proof (structural induction over nets/pins, ring identities per contribution) + translated storage-type fact "
             "+ exact model/implementation correspondence of the assembled linear system and of the Circuit -> NetModel net list "
             "+ metamorphic and least-squares oracles on the real solver (NetModel interface and Circuit path)")
