"""C17 — continuous wirelength solver honours real-valued net weights."""
VARIANT = "san"
GEN = ["NetWeightType"]
RULE = "see stats"
TIMEOUT = {"quick": 900, "thorough": 3 * 3600, "search": 1800}

PARTIAL = [
    "scaling invariance of the *solution*: proved is that the assembled system (A, b) scales entry by entry (assembly_homogeneous, "
    "all five assembly variants, penalties, all inputs, over Rat) and hence has the same solution set for a non-zero factor; that "
    "Eigen's conjugate gradient returns bitwise-equal iterates for 2^k factors and tolerance-close ones otherwise is NOT proved — "
    "it is checked on every generated instance by the direct oracle on the real solver (S2: bitwise, SN: derived tolerance)",
    "floating point: the model and all theorems are over exact rationals; float rounding inside the assembly is not modelled. "
    "The correspondence stream uses dyadic inputs on which every float operation of the assembly is exact, so it ties the "
    "structure and the formulas, not the rounding behaviour on general inputs",
    "MatrixCreator::finalize adds an unscaled 1e-8 diagonal entry on rows no pin touches (their rows are otherwise empty, rhs 0); "
    "the solution-set theorem is stated for the system before finalize; finalize is in the model and in the correspondence "
    "stream but its harmlessness under scaling is argued, not proved",
    "least squares: proved (over Rat) that the system of the initial star model (two-pin nets and star nets, "
    "NetModel::solveStar(params)) and of two-pin nets in the re-weighted star / light-star models is the normal-equation system "
    "of the documented weighted quadratic, positive semidefinite, and that every exact solution of A x = b minimises it; that the "
    "real solver's output satisfies A x = b up to its tolerance is not proved (oracle LS compares it with the minimiser of Q "
    "computed independently in double; the weight<1 gadget does the same for two-pin nets in all five variants). Two-pin nets in "
    "the B2B and clique variants (B2B connects a two-pin net with coincident pins twice) have no least-squares theorem, only "
    "homogeneity and the gadget oracle; penalties are covered by homogeneity only",
    "from the circuit to the solver: NetModel::xTopology/yTopology are modelled (NetTopology.topology: which nets are skipped, "
    "movable pins with centre offsets, fixed pins folded into clamped min/max, weight of each kept net) and tied to the code by "
    "an exact correspondence of the stored net list on random circuits; proved for all circuits (over Rat): the explicit, "
    "order-preserving index map keptIdx from stored nets to circuit nets, that exactly the degenerate nets are skipped, that the "
    "k-th stored net has the weight and pins of circuit net keptIdx[k] (topology_weights_faithful, topology_pins_faithful), and "
    "that the system solveStar assembles from that NetModel is the normal-equation system of the quadratic built from the "
    "circuit's own weights, whose exact solutions minimise it (circuit_star_is_least_squares, circuit_star_solution_minimizes). "
    "NOT proved: float conversion of coordinates of magnitude >= 2^24 (the model treats (float)pos as exact; generated "
    "coordinates are small), that the real solver's output solves the system (oracle CL compares "
    "xTopology(c).solveStar()/yTopology(c).solveStar() with the optimum computed in double from the circuit's accessors, within "
    "a derived tolerance), and the circuit-level least-squares statement for the re-weighted models (only the NetModel-level "
    "two_pin_nets_are_least_squares, which composes with topology_weights_faithful but is not restated)",
    "Circuit::placeGlobal end to end (penalty schedule, density legalisation between solves, exportPlacementX/Y rounding) is "
    "not modelled; a handful of forked placeGlobal runs per tier compare circuits differing by a common 2^k factor on net "
    "weights and initial penalty (oracle PG)",
]

ASSUMPTIONS = [
    "IEEE-754 binary32 arithmetic of the assembly is modelled over Rat (exact); correspondence is restricted to inputs on which "
    "the float computation is exact",
    "Eigen::ConjugateGradient (third party) is not modelled: assumed to stop with ||A x - b|| <= tolerance * ||b|| when it "
    "converges; the oracle's derived tolerance uses exactly this contract plus a 1e-5 relative slack for single-precision rounding",
    "the storage conversion of net weights is read from the declared element type of NetModel::netWeight_ (clang AST); any other "
    "place that could truncate a weight (there is none in the pinned tree: addNet takes float, netWeight() returns float) is "
    "covered by the correspondence and by the oracle, not by the translator",
    "int -> float conversions in xTopology/yTopology ((float)pos, (float)areaMin, offset - 0.5f*width) are exact: holds for "
    "coordinates below 2^24 in magnitude, which is the generated domain of the topology stream",
    "the shared Circuit record (Model/Circuit.lean: pinXOffset/pinYOffset, placedWidth/Height, placementArea) is the one tied "
    "to Circuit's accessors by the other properties' correspondences and, here, by the topology stream itself",
]

EXTRA_TRUSTED = [
    "hook H2 (verif::onMatrixSolve) copies mat_/rhs_/initial_ faithfully just before Eigen runs",
    "Eigen::ConjugateGradient and IEEE-754 float arithmetic (not modelled)",
]

LEVEL_TEXT = (
    "Lean 4 theorems over an executable rational model of NetModel::addNet + MatrixCreator (all five assembly variants, penalty, "
    "finalize): homogeneity of the assembled system in net weights and penalty strengths for all inputs, invariance of the "
    "solution set, and the initial star / two-pin system as the normal equations of the documented weighted quadratic with "
    "positive semidefinite matrix (solutions are global minimisers). The weight storage type is translated from the clang AST "
    "on every run and the theorems depend on it; the model is tied to the C++ by an exact triplet/rhs correspondence through "
    "hook H2 on dyadic inputs; the real CG solver is checked by a scaling / least-squares oracle. The step from the Circuit to "
    "the NetModel (xTopology/yTopology) is modelled too: theorems give the explicit order-preserving index map from stored nets "
    "to circuit nets with matching weights and pins and lift the least-squares statement to the circuit's own weights; tied by an "
    "exact net-list correspondence on random circuits with degenerate nets interleaved, and checked on the real solver through "
    "the Circuit path (oracle CL).")
LEVEL_NOTE = (
    "Partial: over Rat, not floats; CG convergence and Eigen are outside the proof (oracle only); finalize regularisation and "
    "placeGlobal end-to-end (beyond xTopology/yTopology and the single solves) not covered by theorems. Trusted: Lean kernel, translator + clang AST for the storage type, hook H2, "
    "the harness' dense double-precision reference solver.")
TECHNIQUE = ("Lean 4 proof (structural induction over nets/pins, ring identities per contribution) + translated storage-type fact "
             "+ exact model/implementation correspondence of the assembled linear system and of the Circuit -> NetModel net list "
             "+ metamorphic and least-squares oracles on the real solver (NetModel interface and Circuit path)")
