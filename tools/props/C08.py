"""C08 — placement is deterministic and independent of thread scheduling."""
import json
import os
import sys

sys.path.insert(0, os.path.dirname(os.path.dirname(os.path.abspath(__file__))))
import common as C  # noqa: E402

VARIANT = "san"
GEN = ["Async"]
HARNESS_FLAGS = ["-fno-access-control"]   # forced-order runs build the GlobalPlacer themselves to know &xtopo_ / &ytopo_
RULE = "see stats"
PARTIAL = [
    "data-race freedom of the real memory accesses inside NetModel::solveWithPenalty (Eigen internals, allocator, "
    "libstdc++ futures) is not proved: no_conflicting_access is about the protocol derived from the extracted facts "
    "(argument passing, const callee, distinct bound objects, no mutable statics/members); the real accesses are covered "
    "only dynamically by the ThreadSanitizer build of the harness (thorough tier: tools/props/C08.py custom step)",
    "determinism of the sequential code of every stage (pure function of circuit + parameters + seed) is not proved in "
    "Lean; it is supported by the absence of mutable static storage / mutable members (async_facts, nm + AST scan of "
    "/repo/src; third-party tag objects of std:: and Eigen:: are listed in evidence, not analysed) and by the bitwise "
    "comparisons of the harness (repeat, rebuilt circuit, permuted order, other seed in between, observing callback, "
    "1-core / all-core affinity)",
    "std::async(std::launch::async) is assumed to launch, run and join as specified (DESIGN section 5)",
    "forced completion orders need hook H1 (fixes/hook-h1-solve-start.diff); until it is applied those runs are skipped "
    "and counted (forced_order_skipped_no_hook_H1); the delay forces the order with overwhelming probability, not certainty",
]
ASSUMPTIONS = [
    "a task's run is modelled as `read everything, then write everything` (two atomic steps); finer interleavings of "
    "reads/writes inside one task do not add conflicts because conflicts are judged on the union of its accesses",
    "a non-by-value argument (std::ref, pointer) is treated as possibly written by the callee; every mutable static or "
    "`mutable` member is treated as read and written by both tasks (conservative)",
]
LEVEL_TEXT = ("Lean 4 theorems over the two-task protocol of GlobalPlacer::runLB whose read/write sets are derived from "
              "facts regenerated from the clang AST and the library's symbol tables on every run: no two steps unordered "
              "by happens-before conflict; every linearisation consistent with happens-before yields the same results "
              "and final state for every meaning of the computations (exhaustive walk by `decide`, transferred to "
              "arbitrary value domains, lifted by induction over the number of lower-bound steps).  The real code is "
              "compared bit for bit across repeated runs, copies, permuted run orders, callbacks, core affinities and "
              "(with hook H1) forced completion orders; ThreadSanitizer run in the thorough tier")
LEVEL_NOTE = ("Trusted: Lean kernel; tools/gen/Async.py (AST + nm) and the read/write model derived from it; std::async "
              "semantics; the real memory accesses of the solves are checked by TSan only.")
TECHNIQUE = "Lean 4 proof (exhaustive protocol exploration + homomorphism to arbitrary value domains) + translated facts + bitwise differential runs + TSan"

TSAN_ENV = {"TSAN_OPTIONS": "halt_on_error=0:exitcode=66:second_deadlock_stack=1"}


def tsan_step(seed):
    """Thorough tier: the same harness built with -fsanitize=thread against a TSan build of the library.
    Returns (ok, summary dict)."""
    try:
        exe = C.build_harness("h_C08", "tsan", extra_flags=HARNESS_FLAGS)
    except RuntimeError as e:
        return False, {"tsan": "build failed", "detail": str(e)[-1500:]}
    out = os.path.join(C.CACHE, "run", "C08-tsan-%d" % os.getpid())
    import shutil
    shutil.rmtree(out, ignore_errors=True)
    os.makedirs(out)
    rc, log = C.sh([exe, "--seed", str(seed), "--tier", "search", "--out", out], env=TSAN_ENV, timeout=3 * 3600)
    # children write their stderr to a per-case file; the pool turns a ThreadSanitizer report into an oracle
    # failure of that case and counts it
    reports = log.count("WARNING: ThreadSanitizer")
    stats = {}
    try:
        stats = json.load(open(os.path.join(out, "stats.json")))
    except Exception:
        pass
    fails = [ln for ln in open(os.path.join(out, "oracle.txt")).read().splitlines() if ln.strip()] \
        if os.path.exists(os.path.join(out, "oracle.txt")) else []
    dist = stats.get("distribution", {})
    reports += int(dist.get("tsan_reports", 0))
    bad_children = {k: v for k, v in dist.items() if k.startswith("d:skipped_child_") and not k.endswith("_abort")}
    ok = rc == 0 and reports == 0 and not fails and not bad_children
    summary = {"tsan_exit": rc, "tsan_reports": reports, "tsan_evaluations": stats.get("evaluations", 0),
               "tsan_oracle_failures": len(fails), "tsan_children_stopped": bad_children,
               "tsan_first_report": (fails[0][:1500] if fails else log[log.find("WARNING: ThreadSanitizer"):][:1500]) if reports else ""}
    shutil.rmtree(out, ignore_errors=True)
    return ok, summary


def custom_main(a, seed):
    """Standard check, plus (thorough tier) the ThreadSanitizer run."""
    import importlib
    me = sys.modules[__name__]
    fn = me.__dict__.pop("custom_main")        # let check.main run the standard pipeline
    try:
        check = importlib.import_module("check")
        argv = sys.argv
        rc = check.main()
    finally:
        me.custom_main = fn
    if a.tier != "thorough" or a.replay:
        return rc
    ok, summary = tsan_step(seed)
    p = os.path.join(C.EVID, "C08.json")
    try:
        ev = json.load(open(p))
        ev["coverage"]["tsan"] = summary
        if not ok:
            ev["violations"] = max(1, ev.get("violations", 0))
        with open(p + ".tmp", "w") as f:
            json.dump(ev, f, indent=1, sort_keys=True)
        os.rename(p + ".tmp", p)
    except Exception as e:
        print("cannot update evidence: %s" % e)
    if not ok:
        rp = C.write_replay("C08", seed, "tsan", {"property": "C08", "failed": "tsan", "tier": "thorough", "seed": seed,
                                                  "summary": summary,
                                                  "replay_cmd": "python3 tools/check.py C08 --tier thorough"})
        print("VIOLATION property=C08 replay=%s%s" % (rp, "" if summary.get("tsan_reports") else " no-failing-input-found"))
        return 1
    print("TSAN property=C08 reports=0 evaluations=%s" % summary.get("tsan_evaluations"))
    return rc
