"""C08 — placement is deterministic and independent of thread scheduling."""
import json
import os
import re
import sys
import time

sys.path.insert(0, os.path.dirname(os.path.dirname(os.path.abspath(__file__))))
import common as C  # noqa: E402

VARIANT = "san"
GEN = ["Async", "InitTable"]
HARNESS_FLAGS = ["-fno-access-control"]   # forced-order runs build the GlobalPlacer themselves to know &xtopo_ / &ytopo_
RULE = "see stats"
PARTIAL = [
    "data-race freedom of the real memory accesses inside NetModel::solveWithPenalty (Eigen internals, allocator, "
    "libstdc++ futures) is not proved: no_conflicting_access is about the protocol derived from the extracted facts "
    "(argument passing, const callee, distinct bound objects, no mutable statics/members); the real accesses are covered "
    "only dynamically by the ThreadSanitizer build of the harness (thorough tier: tools/props/C08.py custom step)",
    "determinism of the sequential code of every stage (pure function of circuit + parameters + seed) is not proved in "
    "Lean; it is supported (a) by the absence of mutable static storage / mutable members (async_facts: nm over every object "
    "of the library - function-local statics are listed as `<file>: <function>()::<name>` - + `mutable` scan of /repo/src; "
    "third-party tag objects of std:: and Eigen:: are listed in evidence, not analysed), (b) by the bitwise comparisons of the "
    "harness: repeat, rebuilt circuit, observing callback (and the sequence of intermediate placements shown to it), permuted "
    "order in one process, other seed in between, 1-core / all-core affinity, forced completion orders, and stream `o`: "
    "2-3 jobs with distinct non-zero noise / seeds / efforts / knobs, each alone in a fresh forked process and in 2-4 orders "
    "in further fresh processes, per-job results equal, and stream `h` (object history, harness/c08_history.hpp): 1500 "
    "(thorough: 12000) circuits, half of them with an added fixed obstruction macro on the rows, go through a random history "
    "of 1-6 operations on ONE object - placement stages with other parameters, report / computeRows / hpwl / toString, "
    "expandCellsToDensity on a copy and on the object, and every public mutator: setSolution (a fixed cell moved or turned, "
    "movable cells scattered / restored), setCellX/Y, setCellIsFixed/Obstruction, setRows (same / shifted / trimmed / row "
    "dropped / reordered), setupRows, setCellWidth/Height, setCellOrientation, setCellRowPolarity, setNetWeights - then the "
    "same stage sequence runs on the object, on a twin rebuilt through the public setters from the object's getters and on a "
    "copy, and the three results are compared bitwise (keys h:op:* count the operations executed, h:shape:* the histories "
    "where derived data was computed on the object before a given mutator changed its inputs, e.g. "
    "rows_computed_then_obstacles_or_rows_changed_by_setSolution_moving_a_fixed_obstruction).  Not covered by stream h: "
    "histories longer than 6 operations, addNet / setNets after construction, the expansion helpers other than "
    "expandCellsToDensity, histories across copies (copy, mutate the copy, assign back), (c) for indeterminate values: every run is preceded by overwriting "
    "the dead stack, the cached stacks of helper threads and freed heap blocks with changing patterns (plus forked runs with "
    "0x00 / 0xFF / 0xA5 / random patterns, where a crash is a difference too); the sanitizer-free build repeats all "
    "comparisons with glibc's M_PERTURB switched per run (ASan's allocator would hide heap reads); 40 (thorough: 150) small "
    "cases run under valgrind/memcheck, any error is a failure.  All of this is sampling, bounded by the generators",
    "definite initialisation of scalar members is proved only for the static table + straight-line order model of "
    "tools/gen/InitTable.py / Model/InitOrder.lean (theorems init_table_wellformed, ctor_verdicts_recomputed, "
    "members_initialised_before_read): scalar (arithmetic / enum / pointer / reference) non-static data members of the classes "
    "defined in src/place_global, src/place_detailed and of Circuit; per constructor a translated event list, recomputed "
    "verdict `every constructor writes it`; for classes with a member some constructor leaves unset (today GlobalPlacer: step_, "
    "penalty_, penaltyCutoffDistance_, approximationDistance_; IncrNetModel::value_; Transportation1dSolver::lastOccupiedSink / "
    "optimalSink; TransportationProblem::conversionFactor_ (integer-cost constructor, used by no construction site of the "
    "library); the aggregates ReorderingRegion, DensityGrid::BinGroup, verif::AssembledSystem) every construction site of the "
    "analysed files with the statements that touch the object in source order, member functions inlined.  This is NOT a "
    "path-sensitive or value-sensitive analysis: `if` = meet of both branches, loop / switch / try / lambda bodies never "
    "contribute definite writes, conditions are ignored, anything that is not a plain assignment counts as a read.  NOT covered: "
    "members of class type (std::vector, std::optional, std::mt19937, Eigen, nested library classes: they have constructors; "
    "counted in the table), elements of containers (a vector resized without value, reserve + operator[]), local scalar "
    "variables, the parameter structs of src/coloquinte.hpp (ColoquinteParameters & co: constructor-initialised in "
    "parameters.cpp, outside the two directories), objects created inside standard containers (assumed value-initialised "
    "by the allocator), accesses to a member of ANOTHER object of a weak class through a pointer / reference held elsewhere "
    "(the lifecycle only follows the variable the object lives in and treats every other use of the variable as a read of "
    "all members) and template code.  The walk is proved sound for a trace semantics of the events "
    "(Proofs/InitOrderProofs.lean exec_sound; theorems no_read_before_write_in_any_execution, "
    "ctor_initialised_in_every_execution); what stays trusted is that the extracted events over-approximate the C++ "
    "(tools/gen/InitTable.py: evaluation order inside one expression is flattened to reads, then calls, then plain writes; "
    "exceptions are `stop`; a lambda body is an opaque block at its definition).  Reads of indeterminate values outside this table are found only when "
    "they change a compared result under the perturbations or when one of the valgrind cases executes them.  "
    "MemorySanitizer is not used (no instrumented libstdc++ on this machine)",
    "parameters: the harness draws from the box accepted by ColoquinteParameters::check() restricted to maxNbSteps <= 14, CG "
    "tolerance >= 1e-6, approximation / cutoff distances in [0.1, 1000] (nbInitialSteps 0..4, nbStepsBeforeRoughLegalization "
    "1..3, all four net models, all six rough-legalization cost models, noise 0 / default / 1e-4..2, measured in the "
    "distribution); circuits have at most 30 cells; a case the library stops with an assertion is skipped and counted "
    "(d:skipped_child_abort; stream o draws the job again) - those inputs are C07's subject",
    "std::async(std::launch::async) is assumed to launch, run and join as specified (DESIGN section 5)",
    "forced completion orders use hook H1 (committed in /repo; without it those runs are skipped and counted as "
    "forced_order_skipped_no_hook_H1); the delay forces the order with overwhelming probability, not certainty",
]
ASSUMPTIONS = [
    "a task's run is modelled as `read everything, then write everything` (two atomic steps); finer interleavings of "
    "reads/writes inside one task do not add conflicts because conflicts are judged on the union of its accesses",
    "a non-by-value argument (std::ref, pointer) is treated as possibly written by the callee; every mutable static or "
    "`mutable` member is treated as read and written by both tasks (conservative)",
    "a process forked from the harness parent (which never calls the library) counts as a fresh process for the library's "
    "static storage",
]
LEVEL_TEXT = ("Lean 4 theorems over the two-task protocol of GlobalPlacer::runLB whose read/write sets are derived from "
              "facts regenerated from the clang AST and the library's symbol tables on every run: no two steps unordered "
              "by happens-before conflict; every linearisation consistent with happens-before yields the same results "
              "and final state for every meaning of the computations (exhaustive walk by `decide`, transferred to "
              "arbitrary value domains, lifted by induction over the number of lower-bound steps).  The real code is "
              "compared bit for bit across repeated runs, copies, permuted run orders in one process and across fresh "
              "processes (jobs with different parameter sets in different orders), object histories (random queries / stages / "
              "mutators on one object, then the object against a twin rebuilt through the public setters and a copy), callbacks, core affinities and forced "
              "completion orders (hook H1), with dead stack / heap contents perturbed before every run; sanitizer-free "
              "re-run with M_PERTURB and a valgrind sample in both tiers; ThreadSanitizer run in the thorough tier.  "
              "Definite initialisation: a table of every scalar data member of the placement classes, every constructor / "
              "member function as an event list and every construction site of the classes whose constructors leave a "
              "member unset is regenerated from the clang AST; a decidable forward walk (written-on-every-path sets; "
              "straight-line order, `if` as meet, loops opaque), proved sound for a trace semantics of the events, shows by "
              "kernel evaluation that in no execution of the event lists a listed member is read before it is written")
LEVEL_NOTE = ("Trusted: Lean kernel; tools/gen/Async.py (AST + nm) and the read/write model derived from it; std::async "
              "semantics; the real memory accesses of the solves are checked by TSan only; sequential determinism is "
              "checked by differential runs / valgrind only; initialisation of scalar members additionally by the "
              "translated table (trusted: tools/gen/InitTable.py and the event semantics of Model/InitOrder.lean - not "
              "path-sensitive, scalars of the placement classes only); everything else about initialisation is sampling.")
TECHNIQUE = ("Lean 4 proof (exhaustive protocol exploration + homomorphism to arbitrary value domains; definite-initialisation "
             "walk over a translated member / constructor / call-order table, decided in the kernel) + translated facts + "
             "bitwise differential runs (history / order / dead-memory perturbation) + valgrind + TSan")

TSAN_ENV = {"TSAN_OPTIONS": "halt_on_error=0:exitcode=66:second_deadlock_stack=1"}


def _read_oracle(out):
    p = os.path.join(out, "oracle.txt")
    fails = []
    if os.path.exists(p):
        for ln in open(p, errors="replace").read().splitlines():
            if ln.strip():
                try:
                    fails.append(json.loads(ln))
                except Exception:
                    fails.append({"case": "?", "what": ln})
    return fails


def _read_stats(out):
    try:
        return json.load(open(os.path.join(out, "stats.json")))
    except Exception:
        return {}


def _scratch(tag):
    import shutil
    out = os.path.join(C.CACHE, "run", "C08-%s-%d" % (tag, os.getpid()))
    shutil.rmtree(out, ignore_errors=True)
    os.makedirs(out)
    return out


def tsan_step(seed):
    """Thorough tier: the same harness built with -fsanitize=thread against a TSan build of the library.
    Returns (ok, summary dict)."""
    try:
        exe = C.build_harness("h_C08", "tsan", extra_flags=HARNESS_FLAGS)
    except RuntimeError as e:
        return False, {"tsan": "build failed", "detail": str(e)[-1500:]}
    import shutil
    out = _scratch("tsan")
    rc, log = C.sh([exe, "--seed", str(seed), "--tier", "search", "--out", out], env=TSAN_ENV, timeout=3 * 3600)
    # children write their stderr to a per-case file; the pool turns a ThreadSanitizer report into an oracle
    # failure of that case and counts it
    reports = log.count("WARNING: ThreadSanitizer")
    stats = _read_stats(out)
    fails = _read_oracle(out)
    dist = stats.get("distribution", {})
    reports += int(dist.get("tsan_reports", 0))
    bad_children = {k: v for k, v in dist.items() if k.startswith(("d:skipped_child_", "o:skipped_child_")) and not k.endswith("_abort")}
    ok = rc == 0 and reports == 0 and not fails and not bad_children
    summary = {"tsan_exit": rc, "tsan_reports": reports, "tsan_evaluations": stats.get("evaluations", 0),
               "tsan_oracle_failures": len(fails), "tsan_children_stopped": bad_children,
               "tsan_first_report": (json.dumps(fails[0])[:1500] if fails else log[log.find("WARNING: ThreadSanitizer"):][:1500]) if (reports or fails) else ""}
    shutil.rmtree(out, ignore_errors=True)
    return ok, summary


def perturb_step(seed, tier, replay=None):
    """Both tiers: the harness built WITHOUT a sanitizer (variant `fast`: glibc malloc), where the harness also
    switches M_PERTURB before every run, so that a result depending on uninitialised heap memory changes between
    runs (ASan's allocator hands out 0xbe-filled / zero pages, which hides such reads in the main run).
    Oracle only.  Returns (ok, summary, first failure or None)."""
    try:
        exe = C.build_harness("h_C08", "fast", extra_flags=HARNESS_FLAGS)
    except RuntimeError as e:
        return False, {"perturb": "build failed", "detail": str(e)[-1500:]}, None
    import shutil
    out = _scratch("perturb")
    args = [exe, "--seed", str(seed + 2000), "--tier", "perturbmore" if tier == "thorough" else "perturb", "--out", out]
    if replay:
        args += ["--replay", replay]
    t0 = time.time()
    rc, log = C.sh(args, timeout=3 * 3600)
    stats = _read_stats(out)
    fails = _read_oracle(out)
    dist = stats.get("distribution", {})
    summary = {"exit": rc, "variant": "fast (-O2, no sanitizer, glibc malloc + M_PERTURB per run)", "evaluations": stats.get("evaluations", 0),
               "distinct_nontrivial": stats.get("distinct_nontrivial", 0), "oracle_failures": len(fails), "wall_s": round(time.time() - t0, 1),
               "skipped": {k: v for k, v in dist.items() if "skipped" in k or "ended_by" in k or "timeout" in k},
               "compared": {k: v for k, v in dist.items() if k.startswith("compared:")}}
    if rc != 0:
        summary["log_tail"] = log[-800:]
    shutil.rmtree(out, ignore_errors=True)
    return rc == 0 and not fails, summary, (fails[0] if fails else None)


VG_ERR = re.compile(r"uninitialised|Invalid read|Invalid write|Invalid free|Mismatched free")


def valgrind_step(seed, tier, only=None):
    """Both tiers: a few (quick: 40, thorough: 150) small cases of the sanitizer-free harness, one valgrind/memcheck
    process per case.  A memcheck error whose stack contains a frame of namespace coloquinte is a failure (a use of
    an uninitialised value makes the result depend on dead memory).  A case the library stops with an assertion
    is skipped and counted (C07's subject).  Returns (ok, summary, failure or None)."""
    import shutil
    from concurrent.futures import ThreadPoolExecutor
    if not shutil.which("valgrind"):
        return True, {"valgrind": "not installed: step skipped"}, None
    try:
        exe = C.build_harness("h_C08", "fast", extra_flags=HARNESS_FLAGS)
    except RuntimeError as e:
        return False, {"valgrind": "build failed", "detail": str(e)[-1500:]}, None
    out = _scratch("vg")
    ks = [only] if only is not None else list(range(150 if tier == "thorough" else 40))
    t0 = time.time()

    def one(k):
        d = os.path.join(out, str(k))
        os.makedirs(d)
        rc, log = C.sh(["valgrind", "-q", "--error-exitcode=9", "--num-callers=24", exe, "--seed", str(seed), "--tier", "vg",
                        "--only", str(k), "--out", d], timeout=1800)
        cid, inp = "v%d_%d" % (seed, k), ""
        p = os.path.join(d, "vg-cases.txt")
        if os.path.exists(p):
            cid, _, inp = open(p, errors="replace").read().strip().partition("\t")
        # an error block runs from a `==pid== <Title>` line to the next empty `==pid==` line
        blocks, block = [], []
        for ln in log.splitlines():
            if re.match(r"^==\d+==\s*$", ln):
                if block:
                    blocks.append(block)
                block = []
            elif re.match(r"^==\d+== ", ln):
                block.append(ln)
        if block:
            blocks.append(block)
        errs = [b for b in blocks if VG_ERR.search(b[0])]
        lib = [b for b in errs if any("coloquinte::" in x for x in b)]
        res = {"case": cid, "rc": rc, "finished": "C08-VG-END" in log, "lib_errors": len(lib), "other_errors": len(errs) - len(lib),
               "oracle": _read_oracle(d), "failure": None, "log_tail": log[-600:]}
        if lib:
            res["failure"] = {"case": cid, "input": inp,
                              "what": "valgrind: " + " | ".join(re.sub(r"^==\d+==\s*", "", x).split(" (in /")[0] for x in lib[0][:8])[:1800]}
        elif errs:
            # the undefined value reached the harness (e.g. the exported coordinates): still this case's failure
            res["failure"] = {"case": cid, "input": inp, "what": "valgrind (no library frame in the reported stack): " +
                              " | ".join(re.sub(r"^==\d+==\s*", "", x).split(" (in /")[0] for x in errs[0][:8])[:1800]}
        elif res["oracle"]:
            res["failure"] = res["oracle"][0]
        return res
    with ThreadPoolExecutor(min(C.NCPU, 16)) as ex:
        results = list(ex.map(one, ks))
    aborted = [r["case"] for r in results if not r["finished"] and r["rc"] in (-6, 134)]
    broken = [r for r in results if not r["finished"] and r["rc"] not in (-6, 134)]
    failure = next((r["failure"] for r in results if r["failure"] and r["lib_errors"]), None) or \
        next((r["failure"] for r in results if r["failure"]), None)
    other = sum(r["other_errors"] for r in results)
    summary = {"cases": len(results), "clean": sum(1 for r in results if r["finished"] and r["rc"] == 0),
               "skipped_library_assertion": len(aborted), "errors_in_library_frames": sum(r["lib_errors"] for r in results),
               "errors_elsewhere": other, "wall_s": round(time.time() - t0, 1),
               "cmd": "valgrind -q --error-exitcode=9 h_C08(fast build) --tier vg --only <k>"}
    ok = failure is None and not broken and other == 0
    if not ok and failure is None:
        summary["log_tail"] = (broken or [r for r in results if r["other_errors"]])[0]["log_tail"]
    shutil.rmtree(out, ignore_errors=True)
    return ok, summary, failure


class _Tee:
    def __init__(self, real):
        self.real, self.text = real, []

    def write(self, s):
        self.text.append(s)
        return self.real.write(s)

    def flush(self):
        self.real.flush()


def _update_evidence(fn):
    p = os.path.join(C.EVID, "C08.json")
    try:
        ev = json.load(open(p))
        fn(ev)
        with open(p + ".tmp", "w") as f:
            json.dump(ev, f, indent=1, sort_keys=True)
        os.rename(p + ".tmp", p)
        return ev
    except Exception as e:
        print("cannot update evidence: %s" % e)
        return None


def custom_main(a, seed):
    """Standard check; then (both tiers) the sanitizer-free build with heap perturbation and a few cases under
    valgrind; then (thorough tier) the ThreadSanitizer run."""
    import importlib
    me = sys.modules[__name__]
    fn = me.__dict__.pop("custom_main")        # let check.main run the standard pipeline
    tee = _Tee(sys.stdout)
    try:
        check = importlib.import_module("check")
        sys.stdout = tee
        rc = check.main()
    finally:
        sys.stdout = tee.real
        me.custom_main = fn
    printed = "".join(tee.text)
    if rc != 0:
        # name the static-storage objects / mutable members the translator found (file: function()::name)
        try:
            ev = json.load(open(os.path.join(C.EVID, "C08.json"))) if not a.replay else {}
            info = ev.get("coverage", {}).get("generated", {}).get("Async", {})
            found = list(info.get("mutable_statics", [])) + [h for h in info.get("mutable_keyword_hits", []) if " member: " in h]
            if found:
                print("  problem[static-storage]: mutable static-storage objects / mutable members in the library: " + "; ".join(found)[:1500])
                m = re.search(r"^VIOLATION .*replay=(\S+)", printed, re.M)
                if m and os.path.exists(m.group(1)):
                    rp = json.load(open(m.group(1)))
                    rp["mutable_static_storage"] = found
                    with open(m.group(1), "w") as f:
                        json.dump(rp, f, indent=1)
        except Exception as e:
            print("  (cannot list the static-storage objects: %s)" % e)
        # name the members the definite-initialisation table finds read before written (the Lean walk is the
        # authority - theorem members_initialised_before_read -; this is the translator's own evaluation of the same events)
        try:
            ev = json.load(open(os.path.join(C.EVID, "C08.json"))) if not a.replay else {}
            it = ev.get("coverage", {}).get("generated", {}).get("InitTable", {})
            early = ["%s::%s read before written in the lifecycle of `%s` in %s (line %s)" % (x["cls"], m, x["var"] or "<temporary>", x["function"], x["line"])
                     for x in it.get("python_read_before_write", []) for m in x["members"]]
            early += ["%s reads %s before writing it" % (x["ctor"], m) for x in it.get("ctor_reads_before_write", []) for m in x["members"]]
            if early:
                print("  problem[init-order]: " + "; ".join(early)[:1500])
        except Exception as e:
            print("  (cannot list the early reads: %s)" % e)
        return rc
    if a.tier not in ("quick", "thorough"):
        return rc
    steps = []
    if a.replay:
        # a replay found by one of the extra steps names its step
        try:
            rp = json.load(open(a.replay))
        except Exception:
            rp = {}
        step = rp.get("step")
        if step == "perturb":
            ok, summary, first = perturb_step(seed, a.tier, replay=os.path.abspath(a.replay))
        elif step == "valgrind":
            m = re.match(r"v(\d+)_(\d+)$", str(rp.get("case", "")))
            ok, summary, first = valgrind_step(int(m.group(1)) if m else seed, a.tier, only=int(m.group(2)) if m else 0)
        else:
            return rc
        if not ok:
            print("VIOLATION property=C08 replay=%s" % a.replay)
            print("  %s: %s" % (step, json.dumps(first or summary)[:800]))
            return 1
        print("OK property=C08 replay step=%s" % step)
        return rc
    for name, run in (("perturb", lambda: perturb_step(seed, a.tier)), ("valgrind", lambda: valgrind_step(seed, a.tier))):
        ok, summary, first = run()
        steps.append((name, ok, summary, first))
        _update_evidence(lambda ev: ev["coverage"].__setitem__(name, summary))
        if ok:
            print("%s property=C08 ok %s" % (name.upper(), json.dumps({k: v for k, v in summary.items() if k in
                                                                       ("evaluations", "cases", "wall_s", "errors_in_library_frames")})))
            continue
        _update_evidence(lambda ev: ev.__setitem__("violations", max(1, ev.get("violations", 0))))
        payload = {"property": "C08", "failed": "oracle" if first else name, "on": "implementation", "step": name, "tier": a.tier, "seed": seed,
                   "summary": summary, "replay_cmd": "python3 tools/check.py C08 --tier %s --replay <this file>" % a.tier}
        if first:
            payload.update({"case": first.get("case"), "what": first.get("what"), "input": first.get("input")})
        rp = C.write_replay("C08", seed, (first or {}).get("case", name), payload)
        print("VIOLATION property=C08 replay=%s%s" % (rp, "" if first else " no-failing-input-found"))
        print("  %s: %s" % (name, json.dumps(first or summary)[:800]))
        return 1
    if a.tier != "thorough":
        return rc
    ok, summary = tsan_step(seed)
    _update_evidence(lambda ev: ev["coverage"].__setitem__("tsan", summary))
    if not ok:
        _update_evidence(lambda ev: ev.__setitem__("violations", max(1, ev.get("violations", 0))))
        rp = C.write_replay("C08", seed, "tsan", {"property": "C08", "failed": "tsan", "step": "tsan", "tier": "thorough", "seed": seed,
                                                  "summary": summary,
                                                  "replay_cmd": "python3 tools/check.py C08 --tier thorough"})
        print("VIOLATION property=C08 replay=%s%s" % (rp, "" if summary.get("tsan_reports") else " no-failing-input-found"))
        return 1
    print("TSAN property=C08 reports=0 evaluations=%s" % summary.get("tsan_evaluations"))
    return rc
