"""C03 — placement only moves movable cells; everything else is untouched."""
VARIANT = "san"
GEN = ["WriteSets"]
# GlobalPlacer::exportPlacement(Circuit&, x, y) is a private static member and DetailedPlacer::placement_ is
# private: the harness reaches them without touching /repo
HARNESS_FLAGS = ["-fno-access-control"]
RULE = "see stats"
PARTIAL = [
    "the real stages are tied to the export model by behaviour: (a) the export functions (the three loops and "
    "GlobalPlacer::exportPlacement(circuit) with its binary32 blend) are driven directly with arbitrary vectors and weights and "
    "(b) for valid parameters, with no / an observing / a throwing callback, the circuit seen at every callback invocation and "
    "the final circuit of Circuit::placeGlobal/legalize/placeDetailed equal the model's exports of the vectors a twin run of the "
    "algorithm object exposes (the float vectors handed to GlobalPlacer::callback are read from the twin's private members: LB at "
    "LowerBound steps, UB otherwise — a wrong reading shows up as a correspondence difference); that a stage performs nothing but "
    "such exports rests on the translated write table: writes_table_closed covers every function of src/place_global and "
    "src/place_detailed and every overload of Circuit::place/placeGlobal/legalize/placeDetailed, with all hand-overs of a "
    "non-const Circuit staying inside that set and no const_cast/reinterpret_cast/pointer cast/mutable anywhere in /repo/src; it is "
    "an AST pattern match (tools/gen/WriteSets.py), not a semantics of C++: writes through aliases or shapes the matcher does "
    "not understand make the translator fail (TranslateError = broken tie), they are not proved absent",
    "the user's callback is user code: what it does to the circuit (the setters refuse while isInUse_ is set — C10) is outside the table",
    "stages whose twin throws (infeasible legalization) are not tied to the model (counted stage:twin_*_twin_throws); the snapshot "
    "oracle covers them",
    "the float/double arithmetic of GlobalPlacer::exportPlacement is modelled exactly over Rat (blend: every binary32 operation "
    "rounded to nearest-even; export: exact subtraction, round half away); cases where the double subtraction x - 0.5*w "
    "is inexact would be skipped from the correspondence (counted twin_G_inexact / blend_inexact_subtraction; none occurs in the "
    "quick tier), never from the oracle",
    "runs that end by assert/sanitizer abort (neither return nor throw) are outside the statement; they are counted "
    "(skipped_child_*) and belong to C07",
]
ASSUMPTIONS = [
    "C++ int modelled as unbounded Int; std::round modelled as round-half-away-from-zero on the exact value",
    "out-of-range vector indices in the export functions (UB, asserted against in the default build) read a default in the model",
    "hasCellSizeUpdate_, hasNetUpdate_ are bookkeeping flags outside the statement (not compared); isInUse_ is written only by "
    "the scoped InUseGuard of the three wrappers (the translator accepts exactly two shapes, set/clear and save/set/restore; table + "
    "guarded_call_frame: after the call the flag equals its value before the call — always for the restore shape now in the tree, "
    "for the set/clear shape when entered with the flag clear)",
    "binary32 blend: x86-64/SSE float evaluation (FLT_EVAL_METHOD 0), no FMA contraction in the build; values finite and below 2^128",
]
LEVEL_TEXT = ("Lean 4 theorems: for any vectors handed to GlobalPlacer/Legalizer/DetailedPlacement::exportPlacement "
              "(including the legalizer's throwing path and the blended final export of global placement for any weight), for "
              "GlobalPlacer::place and DetailedPlacer::place as wholes with or without callback (any number of exposed placements, any "
              "prefix = exception) and for any sequence of such exports under the InUseGuard wrapper, the circuit keeps every field "
              "except x/y(/orientation) of non-fixed cells, global exports keep all orientations, and isInUse_ is put back to its value before the call on every exit; a "
              "decide-checked table, regenerated from the clang AST on every run, lists (file, function, line, member, kind, fixed-cell "
              "guard) every Circuit write in src/place_global, src/place_detailed and the placement entry points of src/coloquinte.{hpp,cpp}: "
              "each is one of those guarded element writes, a bookkeeping flag or the scoped isInUse_ guard, every hand-over of a "
              "non-const Circuit stays inside the analysed set, and /repo/src contains no construct that removes const.  The export models "
              "are tied to the C++ by a differential stream (direct calls; whole stages including every callback invocation and runs cut by a "
              "throwing callback; blendPlacement bit-exact in binary32); a before/after snapshot of every public getter around every stage, "
              "composition, callback and exception is the direct oracle")
LEVEL_NOTE = ("Trusted: Lean kernel; the AST pattern matcher tools/gen/WriteSets.py; the differential tie of the export "
              "models (bounded by the generator); exact-Rat reading of the float export and the binary32 rounding model.")
TECHNIQUE = "Lean 4 proof (frame preorder + loop invariants, stage bodies as export sequences) + translated write-set/hand-over/const-escape tables + correspondence stream (exports, callbacks, binary32 blend) + snapshot oracle"
