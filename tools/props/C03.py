"""C03 — placement only moves movable cells; everything else is untouched."""
VARIANT = "san"
GEN = ["WriteSets"]
# GlobalPlacer::exportPlacement(Circuit&, x, y) is a private static member and DetailedPlacer::placement_ is
# private: the harness reaches them without touching /repo
HARNESS_FLAGS = ["-fno-access-control"]
RULE = "see stats"
PARTIAL = [
    "the real stages are tied to the export model by behaviour only: (a) the three export functions are driven "
    "directly with arbitrary vectors and (b) without callback the result of Circuit::placeGlobal/legalize/placeDetailed "
    "equals the model export of the vectors of a twin run of the algorithm object; that a stage performs nothing but such "
    "exports rests on the translated write table (writes_table_closed: AST pattern, src/place_global + src/place_detailed "
    "only) — writes through aliases the pattern does not understand are rejected by the translator, not proved absent "
    "in other directories (src/coloquinte.cpp's own wrappers are three lines and set only isInUse_)",
    "the float/double arithmetic of GlobalPlacer::exportPlacement is modelled exactly over Rat; stage-level cases "
    "where the double subtraction is inexact are skipped from the correspondence (counted as twin_G_inexact), never from the oracle",
    "runs that end by assert/sanitizer abort (neither return nor throw) are outside the statement; they are counted "
    "(skipped_child_*) and belong to C07",
]
ASSUMPTIONS = [
    "C++ int modelled as unbounded Int; std::round modelled as round-half-away-from-zero on the exact value",
    "out-of-range vector indices in the export functions (UB, asserted against in the default build) read a default in the model",
    "isInUse_, hasCellSizeUpdate_, hasNetUpdate_ are bookkeeping flags outside the statement (not compared)",
]
LEVEL_TEXT = ("Lean 4 theorems: for any vectors handed to GlobalPlacer/Legalizer/DetailedPlacement::exportPlacement "
              "(including the legalizer's throwing path) and any sequence of such exports, the circuit keeps every field "
              "except x/y(/orientation) of non-fixed cells, and global exports keep all orientations; a decide-checked "
              "table, regenerated from the clang AST on every run, shows every Circuit write in src/place_global and "
              "src/place_detailed is one of those guarded writes or a bookkeeping flag.  The export models are tied to "
              "the C++ by a differential stream (direct calls and whole stages); a before/after snapshot of every public "
              "getter around every stage, composition, callback and exception is the direct oracle")
LEVEL_NOTE = ("Trusted: Lean kernel; the AST pattern matcher tools/gen/WriteSets.py; the differential tie of the export "
              "models (bounded by the generator); exact-Rat reading of the float export.")
TECHNIQUE = "Lean 4 proof (frame preorder + loop invariants) + translated write-set table + correspondence stream + snapshot oracle"
