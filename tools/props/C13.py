"""C13 — transportation solver returns a feasible minimum-cost plan; toAssignment = argmax."""
VARIANT = "san"
RULE = "see stats"
TIMEOUT = {"quick": 900, "thorough": 3 * 3600, "search": 1800}
PARTIAL = [
    "all clauses of C13 are proved for ALL inputs of any size on the model (ssp_optimal: solve() returns a plan, every source fully "
    "allocated, no sink over capacity, no negative entry, minimum total cost; ssp_terminates; ssp_assignment) under the precondition "
    "WellFormed = check() passes, total demand <= total capacity, and 3*|cost| < INT_MAX for every stored fixed-point cost. "
    "The cost bound is necessary (theorem ssp_cost_bound_needed: beyond it the INT_MAX sentinel of bestSink is passed and the model "
    "returns a suboptimal plan; in the C++ such sums overflow int); the driver evaluates it on every explored instance (`bound ok`)",
    "float costs: the cost bound is now PROVED for every input of the float constructor's domain (costsFromFloats_bound: |cost| <= 2^29), "
    "over an exact model of costsFromIntegers (Model/TranspFloat.lean: float max, three binary64 divisions, binary64 product, std::round, "
    "each rounding explicit - Model/F64.lean round-to-nearest-even with gradual underflow); hence ssp_optimal_float / "
    "ssp_optimal_float_inc (constructor; increaseCapacity; solve as in DensityLegalizer::reoptimize) need no per-instance check. "
    "Domain = floatCostsOk: <= 2^31 sinks, every cost <= FLT_MAX and >= -nbSinks*maxVal (all finite non-negative matrices; values need "
    "not even be floats). NaN / +-inf are outside (no rational counterpart; in the C++ they end in an undefined double->int conversion, "
    "C07's subject); finite negative costs below -nbSinks*maxVal are outside and the bound really fails there "
    "(float_precondition_needed: [[1,-2]])",
    "optimality for float inputs is optimality w.r.t. the SCALED integer costs round(c*factor); w.r.t. the original real-valued costs "
    "the returned plan is within 2*(1/2+2^-24)*totalDemand/factor <= 2*totalDemand*(3/4)*(4*nbSinks*maxVal/INT_MAX) of every feasible "
    "plan (theorem float_optimality_gap, exact rational objective) - not exactly optimal: plans whose real costs differ by less than "
    "that granularity may be ranked either way. The direct oracle checks the same bound against a long-double brute-force optimum",
    "C++ int / long long overflow freedom of the run IS a theorem, stated with C07 (Properties/C07.lean imports this file, so it cannot be "
    "restated here): transp_run_no_fault (checked twin assignC of increaseCapacity(); solve(); toAssignment() = unbounded model on assignDomOk: "
    "check() passes, no negative stored cost, costBoundOk, totals <= 2^61, assertions on or off, and the problem handed to solve() is WellFormed "
    "in the sense of ssp_optimal) and transp_costs_fit (the float-cost constructor as reoptimize uses it lands in that domain); signed stored "
    "costs beyond INT_MAX/4 do overflow in updateTree (transp_signed_costs_overflow, C07) and are outside that domain",
    "what remains per-instance rather than universal: the tie between model and C++ (correspondence stream: scaled costs compared "
    "entry by entry, `fdomain` computed independently on both sides), and that the compiler evaluates the float code as written (x86-64 SSE2, "
    "FLT_EVAL_METHOD 0, no fast-math) - supported by the bit-for-bit agreement of the scaled costs on all generated families",
]
ASSUMPTIONS = [
    "C++ long long / int arithmetic modelled as unbounded Int; INT_MAX sentinel kept literally; generators keep |cost| <= INT_MAX/(8*sinks) "
    "so no int overflow is possible, and the real code runs under UBSan",
    "std::priority_queue modelled operation-for-operation after libstdc++ 12 bits/stl_heap.h (make_heap/push_heap/pop_heap), "
    "because heap order among equal costs decides which source is moved",
    "std::sort on distinct (-demand, index) pairs = the unique sorted order (List.mergeSort)",
    "IEEE-754 binary64 round-to-nearest-even for `/` and `*` on double, exact float->double and size_t->double (< 2^53) conversions, "
    "std::round = half away from zero; float inputs cross as the bits of (double)cost and are decoded exactly (ratOfBits64)",
    "large demands are explored as small instances scaled by a common factor up to 2^36 (solve() is pseudo-polynomial: "
    "rounds ~ demand / smallest allocation on the chain)",
]
LEVEL_TEXT = ("Lean 4 theorems, all inputs of any size, over an executable model of TransportationProblem / "
              "TransportationSuccessiveShortestPath (exact libstdc++ heap model): ssp_optimal — on every well-formed problem "
              "(check() ok, demand <= capacity, 3*|cost| < INT_MAX) solve() returns a plan (no failed assert, no top() of an empty queue, "
              "no index out of range, acyclic sinkParent_, all fuels sufficient), the plan is feasible (fully allocated, no sink over "
              "capacity, no negative entry) and of minimum cost (successive-shortest-path invariant: lazy-queue invariant, heap "
              "correctness, dual potentials from sendingCost_ with non-negative reduced costs, tight acyclic tree; final potentials "
              "accepted by the verified checker checkCert, optimality by weak duality cert_optimal); ssp_feasible for every returned plan "
              "without the cost bound; toAssignment = first argmax on the solver's plan; increaseCapacity covers the demand. "
              "Float constructor: costsFromFloats_bound — for every finite cost matrix with costs >= -nbSinks*maxVal (all non-negative ones) the "
              "fixed-point scaling, modelled operation by operation with explicit IEEE binary64 rounding over exact rationals, stores "
              "|cost| <= 2^29, so ssp_optimal_float / ssp_optimal_float_inc hold for all float inputs without a per-instance check; "
              "float_optimality_gap bounds the loss w.r.t. the original real-valued costs by 2*(1/2+2^-24)*totalDemand/factor. "
              "The model is tied to the C++ entry by entry (allocations, scaled costs, capacities, assignment, float domain) on exhaustive "
              "tiny grids and random instances up to 16 sinks x 300 sources and magnitudes to 2^40, float costs over the whole finite range "
              "(zeros, subnormals, all below 1e-8f, full 24-bit mantissas, decimals/thirds, spreads beyond 1e30, FLT_MAX, negatives inside "
              "and just outside the domain), answers `cert ok` and `bound ok` on each; the direct oracle checks feasibility, argmax, the "
              "brute-force optimum, |scaled cost| <= 2^29 and |scaled cost - cost*factor| <= 1/2+2^-24 on the real output. "
              "Objects with a past (state carried across calls): one problem in seven is solved, changed through the public mutators "
              "(increaseDemand/Capacity, addSource/Sink, addDummyCapacity/Demand, reset/setAllocations, setAssignment, makeFeasible, copy; "
              "also nothing at all) and solved again on the same object; after every solve the plan is checked against the data the object "
              "reports then, against a fresh object with that data (equal cost) and against the model of a fresh problem (equal plan)")
LEVEL_NOTE = ("Trusted: Lean kernel (axioms propext/Classical.choice/Quot.sound only), the hand-written model's tie to the code "
              "(differential, bounded by the generator), unbounded Int for C++ integers, libstdc++ heap algorithms as transcribed "
              "(their heap/permutation properties are proved). The fuel of updateTree was re-parameterised to the proved bound "
              "nbSinks*2^31+1 (outputs unchanged). Float cost scaling: the IEEE rounding model of Model/F64.lean (facts proved in "
              "Proofs/F64.lean) and that the compiled code performs exactly the written double operations.")
TECHNIQUE = "Lean 4 proofs (successive-shortest-path invariant: heaps, lazy queues, dual potentials, label-correcting tree, weak duality; floating-point error analysis of the fixed-point cost scaling over an explicit IEEE model) + verified certificate checker and cost-bound check run per instance + model/implementation correspondence stream + brute-force oracle"
