"""C13 — transportation solver returns a feasible minimum-cost plan; toAssignment = argmax."""
VARIANT = "san"
RULE = "see stats"
TIMEOUT = {"quick": 900, "thorough": 3 * 3600, "search": 1800}
PARTIAL = [
    "all clauses of C13 are proved for ALL inputs of any size on the model (ssp_optimal: solve() returns a plan, every source fully "
    "allocated, no sink over capacity, no negative entry, minimum total cost; ssp_terminates; ssp_assignment) under the precondition "
    "WellFormed = check() passes, total demand <= total capacity, and 3*|cost| < INT_MAX for every stored fixed-point cost. "
    "The cost bound is necessary (theorem ssp_cost_bound_needed: beyond it the INT_MAX sentinel of bestSink is passed and the model "
    "returns a suboptimal plan; in the C++ such sums overflow int); the driver evaluates it on every explored instance (`bound ok`)",
    "float costs: costsFromIntegers is executed with IEEE doubles in the model and compared entry by entry; that its output always "
    "satisfies the cost bound (|cost| <= INT_MAX/(4*nbSinks) + 1/2) is NOT proved (Lean Float is opaque) but checked per instance "
    "(`bound ok`); the theorems speak about the stored fixed-point integer costs, optimality in the real-valued costs holds up to the "
    "rounding bound checked by the direct oracle",
    "what remains per-instance rather than universal: the tie between model and C++ (correspondence stream), C++ int/long long "
    "overflow freedom (UBSan on the explored domain; the theorems are over unbounded Int)",
]
ASSUMPTIONS = [
    "C++ long long / int arithmetic modelled as unbounded Int; INT_MAX sentinel kept literally; generators keep |cost| <= INT_MAX/(8*sinks) "
    "so no int overflow is possible, and the real code runs under UBSan",
    "std::priority_queue modelled operation-for-operation after libstdc++ 12 bits/stl_heap.h (make_heap/push_heap/pop_heap), "
    "because heap order among equal costs decides which source is moved",
    "std::sort on distinct (-demand, index) pairs = the unique sorted order (List.mergeSort)",
    "Lean Float = IEEE binary64 with C round(); float inputs cross as the bits of (double)cost",
    "large demands are explored as small instances scaled by a common factor up to 2^36 (solve() is pseudo-polynomial: "
    "rounds ~ demand / smallest allocation on the chain)",
]
LEVEL_TEXT = ("Lean 4 theorems, all inputs of any size, over an executable model of TransportationProblem / "
              "TransportationSuccessiveShortestPath (exact libstdc++ heap model): ssp_optimal — on every well-formed problem "
              "(check() ok, demand <= capacity, 3*|cost| < INT_MAX) solve() returns a plan (no failed assert, no top() of an empty queue, "
              "no index out of range, acyclic sinkParent_, all fuels sufficient), the plan is feasible (fully allocated, no sink over "
              "capacity, no negative entry) and of minimum cost (successive-shortest-path invariant: lazy-queue invariant, heap "
              "correctness, dual potentials from sendingCost_ with non-negative reduced costs, tight acyclic tree; final potentials "
              "accepted by the verified checker checkCert, optimality by weak duality cert_optimal); ssp_feasible for every returned plan "
              "without the cost bound; toAssignment = first argmax on the solver's plan; increaseCapacity covers the demand. "
              "The model is tied to the C++ entry by entry (allocations, scaled costs, capacities, assignment) on exhaustive tiny grids and "
              "random instances up to 16 sinks x 300 sources and magnitudes to 2^40, answers `cert ok` and `bound ok` on each; the direct "
              "oracle checks feasibility, argmax and the brute-force optimum on the real output")
LEVEL_NOTE = ("Trusted: Lean kernel (axioms propext/Classical.choice/Quot.sound only), the hand-written model's tie to the code "
              "(differential, bounded by the generator), unbounded Int for C++ integers, libstdc++ heap algorithms as transcribed "
              "(their heap/permutation properties are proved). The fuel of updateTree was re-parameterised to the proved bound "
              "nbSinks*2^31+1 (outputs unchanged). Float cost scaling satisfying the cost bound is per-instance, see partial_clauses.")
TECHNIQUE = "Lean 4 proofs (successive-shortest-path invariant: heaps, lazy queues, dual potentials, label-correcting tree, weak duality) + verified certificate checker and cost-bound check run per instance + model/implementation correspondence stream + brute-force oracle"
