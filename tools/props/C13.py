"""C13 — transportation solver returns a feasible minimum-cost plan; toAssignment = argmax."""
VARIANT = "san"
RULE = "see stats"
PARTIAL = []
ASSUMPTIONS = []
LEVEL_TEXT = "tbd"
LEVEL_NOTE = "tbd"
TECHNIQUE = "tbd"
