"""C13 — transportation solver returns a feasible minimum-cost plan; toAssignment = argmax."""
VARIANT = "san"
RULE = "see stats"
TIMEOUT = {"quick": 900, "thorough": 3 * 3600, "search": 1800}
PARTIAL = [
    "universal optimality of solve() (ssp_optimal_full_statement) is not proved; instead cert_optimal (proved, any size) "
    "+ the verified checker checkCert accepting potentials computed by the driver on every explored instance "
    "(ssp_optimal_partial), plus brute-force optimum on the real output for <=5 sources x <=4 sinks, demands <=4",
    "non-negativity of every entry of the solver's plan is not proved for all inputs (needs the lazy priority-queue "
    "invariant and libstdc++ heap correctness); checked per instance by checkCert (primal feasibility) and by the direct oracle",
    "termination / absence of assertion failures (ssp_terminates_full_statement) is not proved: the model is fuelled "
    "(updateTree: n*2^n+1 rounds, argued bound; chain walks: nbSinks+1; sendSource: demand, sufficient by ssp_feasible_partial's "
    "0 < sent <= remaining) and reports exhaustion as an error; every explored instance answers `status ok` and agrees with the C++",
    "proved for all inputs whenever the model returns a plan (ssp_feasible_partial): every source fully allocated, no sink over capacity",
    "float costs: theorems speak about the stored fixed-point integer costs (costsFromIntegers is executed with IEEE doubles in the "
    "model and compared entry by entry); optimality in the real-valued costs holds up to the rounding bound checked by the oracle",
]
ASSUMPTIONS = [
    "C++ long long / int arithmetic modelled as unbounded Int; INT_MAX sentinel kept literally; generators keep |cost| <= INT_MAX/(8*sinks) "
    "so no int overflow is possible, and the real code runs under UBSan",
    "std::priority_queue modelled operation-for-operation after libstdc++ 12 bits/stl_heap.h (make_heap/push_heap/pop_heap), "
    "because heap order among equal costs decides which source is moved",
    "std::sort on distinct (-demand, index) pairs = the unique sorted order (List.mergeSort)",
    "Lean Float = IEEE binary64 with C round(); float inputs cross as the bits of (double)cost",
    "large demands are explored as small instances scaled by a common factor up to 2^36 (solve() is pseudo-polynomial: "
    "rounds ~ demand / smallest allocation on the chain)",
]
LEVEL_TEXT = ("Lean 4 theorems over an executable model of TransportationProblem / TransportationSuccessiveShortestPath: "
              "weak-duality certificate soundness (cert_optimal, any size), toAssignment = first argmax, increaseCapacity covers the demand, "
              "flow conservation of sendSource (every source fully allocated, no sink over capacity whenever the model returns a plan); "
              "the model is tied to the C++ entry by entry (allocations, scaled costs, capacities, assignment) on exhaustive tiny grids and "
              "random instances up to 16 sinks x 300 sources and magnitudes to 2^40, and answers `cert ok` on each; the direct oracle "
              "checks feasibility, argmax and the brute-force optimum on the real output")
LEVEL_NOTE = ("Trusted: Lean kernel (axioms propext/Classical.choice/Quot.sound only), the hand-written model's tie to the code "
              "(differential, bounded by the generator), unbounded Int for C++ integers, libstdc++ heap algorithms as transcribed. "
              "Universal optimality, non-negativity and termination are per-instance (certificate / correspondence), see partial_clauses.")
TECHNIQUE = "Lean 4 proofs (weak duality; loop invariants of sendSource) + verified certificate checker run per instance + model/implementation correspondence stream + brute-force oracle"
