"""C01 — legalization returns a legal placement or fails loudly."""
GEN = ["GeomFns"]
VARIANT = "san"
RULE = "see stats"
TIMEOUT = {"quick": 1500, "thorough": 6 * 3600, "search": 3600}
PARTIAL = [
    "geometry_layer_translated: the shared Rect / Cell geometry this model is written in (Rectangle ctor / height, isTurn, x / y / orientation / isFixed / isObstruction / placedWidth / placedHeight / placement) is regenerated from the clang AST of the C++ function bodies on every run (Gen/GeomFns.lean) and proved equal to the hand-written definitions; the translator's representation map (array-of-fields <-> Cell record, rows_ <-> list of Row) is stated, not derived; this is a tie, not a clause of the property",
    "never fails when success is trivial (clause 3) IS proved for all inputs (legalize_trivial_success, for every rounding of the "
    "ordering key: domain C01.Dom, all movable cells one row high with polarity ANY and an orientation other than INVALID, W any "
    "bound on the placed widths, total width <= total computeRows width - #segments*W => legalize returns; with legalize_legal the "
    "result is legal: legalize_trivial_success_legal). Read of the statement made explicit: 'row-high cells without row "
    "restrictions' = every movable cell of the circuit is such a cell (a design that also has macros or polarised cells is not "
    "covered by the clause); the harness' directed trivial-success instances at and just under the bound (class_trivial_success) "
    "tie it to the real code.",
    "the ordering key is binary32 in the C++; the model computes it with an exact model of IEEE round-to-nearest-even over "
    "Rat (f32), tied by the `order` sub-stream; the theorems of C01 hold for every rounding function.",
]
ASSUMPTIONS = [
    "clause 1 (legalize_legal) is proved for all inputs of the domain C01.Dom, the property's quantifier made explicit and "
    "decidable: uniform positive row height, movable cells of positive placed width and placed height a positive multiple of the "
    "row height, polarised cells unturned, rows pairwise disjoint with non-empty x-range and unturned (N/S/FN/FS or no) "
    "orientation; a turned (E/W/FE/FW) row is outside the domain (a polarised cell would be turned there and its placed size "
    "would swap); fixed cells are unrestricted",
    "C++ int/long long arithmetic modelled as unbounded Int (coordinates |v| < 2^20 in the streams; overflow is C07's obligation)",
    "boost::polygon row/obstacle subtraction behaves as the 1-D interval model Freespace (tied by C15)",
    "binary32 arithmetic of computeCellOrder = f32 over Rat: SSE float evaluation, no FMA contraction, finite non-NaN parameters",
    "std::stable_sort on (key,index) pairs and on rows by (minY,minX) modelled as stable insertion sorts; std::lower_bound on the sorted rows = first index with minY >= y",
    "ColoquinteParameters::check: only the legalization block is modelled; global/detailed blocks are drawn valid",
    "model follows /repo after fixes c01-tetris-turned, c01-abacus-no-rows, c11-abacus-cost-narrowing; the constant "
    "Legalize.tetrisPerSegmentOrientation selects the Tetris orientation rule before/after fixes/c04-tetris-row-orientation (both variants checked against the real code)",
]
LEVEL_TEXT = ("Lean 4 theorems over an executable model of the whole legalization pipeline (fromIspdCircuit, computeCellOrder with "
              "an exact binary32 key, Tetris, remainingRows, Abacus with RowLegalizer, checkAllPlaced, exportPlacement): "
              "legality of every normally returned placement for ALL circuits of the domain, all parameters and every rounding of "
              "the ordering key (legalize_legal: every row-high strip of every movable cell inside one free segment of computeRows of "
              "the returned circuit, bottom edge on the segment's minY, no two movable cells intersect; proof by the Tetris "
              "rowFreePos invariant, soundness of remainingRows, the executed AbacusLegalizer::check, last-writer bookkeeping of "
              "importLegalization/writeRows/exportPlacement, and computeRows being unchanged by the export); error-or-all-placed, the "
              "frame of exportPlacement and failed_legalize_unchanged for all inputs; trivial success only partially (see "
              "partial_clauses); pre-fix witnesses by kernel evaluation. The model is tied to "
              "Circuit::legalize by a differential stream over generated circuits (all option mixes, directed full/overfull/"
              "trivial/macro-cover instances, parameters over the whole accepted range) and every normal return of the real "
              "code is checked by an independent legality oracle. One case in three makes the measured call on a Circuit object with "
              "a past (it computed its rows and/or legalized another state, then was brought to the case through the needed setters "
              "only): pasts that differ in exactly one attribute class after a query-only past, so that each setter -- "
              "setCellOrientation of a turned fixed macro, setCellX or setCellY alone, sizes, flags, setRows, setupRows, setSolution -- "
              "is at times the sole restorer, and legalize / one edit / legalize again sequences (counters history_*); a fifth of the "
              "random circuits take their rows from Circuit::setupRows and a quarter of all cases list their rows out of order "
              "(reversed, shuffled, right to left within a y, top-down; counters rows_*), the model sorting as LegalizerBase does")
LEVEL_NOTE = ("Trusted: Lean kernel (axioms propext/Classical.choice/Quot.sound only), the hand-written model's tie to the code "
              "(differential, bounded by the generator), tools/translate.py + clang-14 AST for Gen/GeomFns (shared geometry layer, proved equal "
              "to the hand-written one: geometry_layer_translated), unbounded Int for C++ int, f32 model of binary32, Freespace model of boost.")
TECHNIQUE = "Lean 4 proof + whole-pipeline model/implementation correspondence stream + independent legality oracle"
