"""C01 — legalization returns a legal placement or fails loudly."""
VARIANT = "san"
RULE = "see stats"
TIMEOUT = {"quick": 1500, "thorough": 6 * 3600, "search": 3600}
PARTIAL = [
    "legality of the returned placement (clause 1) is proved only for the Abacus pass relative to the row segments it is "
    "given (legalize_legal_partial: listed cells inside their segment, pairwise ordered and non-overlapping, for every input "
    "on which AbacusLegalizer returns); NOT proved: that every placed cell is listed in exactly one segment with that "
    "segment's y, the Tetris pass for multi-row cells, disjointness of the segments handed to Abacus from placed macros "
    "and obstructions, and the import/export index plumbing (legalize_legal_full_statement). Supported instead by the "
    "whole-pipeline correspondence stream and the independent legality oracle on every normal return of the real code.",
    "never fails when success is trivial (clause 3) is not proved (legalize_trivial_success_full_statement); only the local "
    "step 'evaluatePlacement accepts every segment with enough remaining space for an unrestricted cell' is "
    "(legalize_trivial_success_partial). Supported by the harness: directed trivial-success instances at and just under the "
    "bound must not throw (measured count class_trivial_success).",
    "the ordering key is binary32 in the C++; the model computes it with an exact model of IEEE round-to-nearest-even over "
    "Rat (f32), tied by the `order` sub-stream; the theorems of C01 hold for every rounding function.",
]
ASSUMPTIONS = [
    "C++ int/long long arithmetic modelled as unbounded Int (coordinates |v| < 2^20 in the streams; overflow is C07's obligation)",
    "boost::polygon row/obstacle subtraction behaves as the 1-D interval model Freespace (tied by C15)",
    "binary32 arithmetic of computeCellOrder = f32 over Rat: SSE float evaluation, no FMA contraction, finite non-NaN parameters",
    "std::stable_sort on (key,index) pairs and on rows by (minY,minX) modelled as stable insertion sorts; std::lower_bound on the sorted rows = first index with minY >= y",
    "ColoquinteParameters::check: only the legalization block is modelled; global/detailed blocks are drawn valid",
    "model follows /repo after fixes c01-tetris-turned, c01-abacus-no-rows, c11-abacus-cost-narrowing; the constant "
    "Legalize.tetrisPerSegmentOrientation selects the Tetris orientation rule before/after fixes/c04-tetris-row-orientation (both variants checked against the real code)",
]
LEVEL_TEXT = ("Lean 4 theorems over an executable model of the whole legalization pipeline (fromIspdCircuit, computeCellOrder with "
              "an exact binary32 key, Tetris, remainingRows, Abacus with RowLegalizer, checkAllPlaced, exportPlacement): "
              "error-or-all-placed and the frame of exportPlacement for all inputs; legality of the Abacus pass relative to its "
              "segments for all inputs (partial, see partial_clauses); pre-fix witnesses by kernel evaluation. The model is tied to "
              "Circuit::legalize by a differential stream over generated circuits (all option mixes, directed full/overfull/"
              "trivial/macro-cover instances, parameters over the whole accepted range) and every normal return of the real "
              "code is checked by an independent legality oracle")
LEVEL_NOTE = ("Trusted: Lean kernel (axioms propext/Classical.choice/Quot.sound only), the hand-written model's tie to the code "
              "(differential, bounded by the generator), unbounded Int for C++ int, f32 model of binary32, Freespace model of boost.")
TECHNIQUE = "Lean 4 proof + whole-pipeline model/implementation correspondence stream + independent legality oracle"
