"""C01 — legalization returns a legal placement or fails loudly."""
VARIANT = "san"
RULE = "see stats"
PARTIAL = []
ASSUMPTIONS = []
LEVEL_TEXT = "tbd"
LEVEL_NOTE = "tbd"
TECHNIQUE = "tbd"
