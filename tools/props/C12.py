"""C12 — single-row legalizer: order-preserving, optimal, exact costs."""
VARIANT = "san"
RULE = "see stats"
# Every clause of the property is proved for all inputs on the model; nothing is partial.
PARTIAL = []
ASSUMPTIONS = [
    "C++ int/long long arithmetic modelled as unbounded Int (no-overflow on the C07 domain is exercised by the 2^22 stream under UBSan)",
    "std::priority_queue modelled as a sorted list (equal bounds are identical, so heap order among them is unobservable)",
    "'insertions that fit' = every pushed width is positive and <= remainingSpace() at the time of the push (Fits); cost queries are unconstrained",
    "competing placements are integer placements (the legalizer works on integer coordinates)",
]
LEVEL_TEXT = ("Lean 4 theorems, all for every segment and every operation sequence that fits (pushes with cost queries interleaved "
              "anywhere), over the executable model of RowLegalizer: rowleg_feasible / rowleg_feasible_pointwise (positions in push "
              "order, inside the segment, non-overlapping), getCost_pure (state unchanged) and getCost_eq_push (prediction = push), "
              "clear_resets, rowleg_optimal (the returned placement minimises sum w|x-t| over ALL ordered non-overlapping integer "
              "placements in the segment; proved via the value-function invariant OPT_k(x) = C_k + eval bounds_k x - eval bounds_k lim_k), "
              "cost_sum_exact (reported push costs sum exactly to that minimum), cost_sum_is_minimum, getCost_is_marginal_optimum; "
              "cost_sum_drifts records the pre-fix defect on the legacy cost function (decide).  The model is tied to the C++ by an "
              "exhaustive small-bound + random + 2^22-magnitude differential stream; optimality and exact cost sums are additionally "
              "checked against a brute-force optimum on every enumerated instance of the real code")
LEVEL_NOTE = ("Trusted: Lean kernel (axioms propext/Classical.choice/Quot.sound only), the hand-written model's tie to the code "
              "(differential, bounded by the generator), unbounded Int for C++ int, sorted list for std::priority_queue.")
TECHNIQUE = "Lean 4 proof (induction over push sequences) + model/implementation correspondence stream"
