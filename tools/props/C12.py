"""C12 — single-row legalizer: order-preserving, optimal, exact costs."""
VARIANT = "san"
RULE = "see stats"
PARTIAL = []
ASSUMPTIONS = [
    "C++ int/long long arithmetic modelled as unbounded Int (no-overflow on the C07 domain is exercised by the 2^22 stream under UBSan)",
    "std::priority_queue modelled as a sorted list (equal bounds are identical, so heap order among them is unobservable)",
]
LEVEL_TEXT = ("Lean 4 theorems over an executable model of RowLegalizer (feasibility of the returned placement for every "
              "push sequence that fits, purity of cost queries, prediction = push); the model is tied to the C++ by an "
              "exhaustive small-bound + random + 2^22-magnitude differential stream; optimality and exact cost sums are "
              "additionally checked against a brute-force optimum on every enumerated instance")
LEVEL_NOTE = ("Trusted: Lean kernel (axioms propext/Classical.choice/Quot.sound only), the hand-written model's tie to the code "
              "(differential, bounded by the generator), unbounded Int for C++ int, sorted list for std::priority_queue.")
TECHNIQUE = "Lean 4 proof (induction over push sequences) + model/implementation correspondence stream"
