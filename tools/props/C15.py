"""C15 — free row space is exactly the rows minus fixed obstructions."""
GEN = ["GeomFns"]
VARIANT = "san"
RULE = ("see stats; includes an object-history stream (counters hist_*): public mutators and computeRows() / computeRows(extra) / "
        "Row::freespace interleaved on ONE Circuit object, every observation compared with the oracle, with a freshly rebuilt "
        "circuit of the same observable state and with the model")
TIMEOUT = {"quick": 1200, "thorough": 3 * 3600, "search": 1800}
PARTIAL = [
    "the shared geometry the model is written in IS tied to the source by translation (geometry_layer_translated: the bodies of "
    "Rectangle::Rectangle / width / height / intersects / contains / intersection, Circuit::isFixed / isObstruction / x / y / "
    "orientation / placedWidth / placedHeight / placement and isTurn, regenerated from the clang AST on every run into "
    "Gen/GeomFns.lean, are proved equal as functions to Rect.* / Cell.*); geometry_loops_translated adds the loops of Circuit::rowHeight "
    "(equal to the model for every circuit) and Circuit::computePlacementArea (equal when the row coordinates are C++ ints, because "
    "of its INT_MAX / INT_MIN sentinels; (0,0,0,0) for no rows on both sides); NOT translated: the loop of Circuit::computeRows and "
    "Row::freespace (boost::polygon), see the next item, and the translator's stated representation map (cellX_[cell] = field x of "
    "the cell's record)",
    "boost::polygon itself is not verified: the theorems are about the executable interval model "
    "(Model/Freespace.lean); that Row::freespace / Circuit::computeRows return exactly the model's list, in the "
    "same order, is established by the correspondence stream (exhaustive on the small grid, random to 2^22), "
    "not for all inputs",
    "that Circuit::computeRows is a function of the public state only (no stale state kept inside the object between calls) is "
    "checked by the object-history stream (random sequences of every public mutator and 3-8 observations on one object, each "
    "answer compared with the oracle, the model and a freshly rebuilt circuit), not proved",
]
ASSUMPTIONS = [
    "C++ int arithmetic modelled as unbounded Int (coordinates up to 2^22 in the generated domain; UBSan is on)",
    "obstacle rectangles are read as boost::polygon::rectangle_data reads them: min/max put in order on both axes, "
    "so an inverted obstacle obstructs like its mirror image and a zero-width or zero-height one obstructs nothing",
    "ill-formed rows as the code treats them: maxX < minX is read as [maxX,minX); maxY <= minY or maxX == minX "
    "gives no free space (the theorems are stated for all rows with these conventions)",
]
LEVEL_TEXT = ("Lean 4 theorems over an executable interval model of Row::freespace and Circuit::computeRows (inside the row, "
              "sorted and strictly separated, full height and orientation, no obstructed column, every free column covered, "
              "maximal, movable / non-obstruction cells ignored) for all rows and obstacle lists; the Rectangle / cell-placement layer under "
              "the model is regenerated from the C++ function bodies on every run and proved equal to the hand-written one "
              "(geometry_layer_translated); the model is tied to the "
              "boost-based C++ by a differential stream: every row and every list of <= 2 obstacles on a small integer grid "
              "(inverted and degenerate rectangles included), random instances with <= 12 obstacles and coordinates to 2^22, "
              "and circuits with all fixed/obstruction flag combinations; the property's clauses are additionally evaluated "
              "directly on every answer of the real code; an object-history stream interleaves every public mutator (setRows, "
              "setupRows with all flag combinations, the per-cell setters, setSolution, addNet) with computeRows() / "
              "computeRows(extra) / Row::freespace on one Circuit object (same observation twice, observation -> one mutator -> "
              "same observation) and checks each answer against the oracle on the current public state, against a freshly "
              "constructed circuit rebuilt through the public setters, and against the model")
LEVEL_NOTE = ("Trusted: Lean kernel (axioms propext/Classical.choice/Quot.sound only), the hand-written model's tie to the "
              "code (differential, bounded by the generator), tools/translate.py + clang-14 AST for Gen/GeomFns (incl. its stated "
              "representation map array-of-fields <-> Cell record), unbounded Int for C++ int; boost::polygon is covered only "
              "through that tie.")
TECHNIQUE = "Lean 4 proof (induction over the sorted obstacle sweep) + model/implementation correspondence stream + object-history stream (metamorphic comparison with a freshly rebuilt circuit)"
