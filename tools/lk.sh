#!/bin/sh
# Run lake in a private build directory whose sources are symlinks to /verif/lean
# (so parallel development never shares a .lake).   usage: LKDIR=/var/tmp/lk-foo tools/lk.sh build <targets>
#                                                           LKDIR=... tools/lk.sh env lean path/to/File.lean
set -e
V=$(cd "$(dirname "$0")/.." && pwd)
D=${LKDIR:-$V/lean}
mkdir -p "$D"
python3 -c "import sys; sys.path.insert(0,\"$V/tools\"); import common; common.lean_dir()"
cd "$D" && exec lake "$@"
