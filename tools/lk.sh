#!/bin/sh
# Run lake in a private build directory whose sources are symlinks to /verif/lean
# (so parallel development never shares a .lake).   usage: LKDIR=/var/tmp/lk-foo tools/lk.sh build <targets>
#                                                           LKDIR=... tools/lk.sh env lean path/to/File.lean
set -e
V=$(cd "$(dirname "$0")/.." && pwd)
D=${LKDIR:-$V/lean}
mkdir -p "$D"
for n in ColoVerif Driver lakefile.toml; do [ -e "$D/$n" ] || ln -s "$V/lean/$n" "$D/$n"; done
cd "$D" && exec lake "$@"
